//! Engine S driver: families of (configuration, histories) explored exhaustively in lock-step with
//! the reference model, in parallel, with merged statistics.

use std::collections::HashSet;
use std::hash::{Hash, Hasher};

use crate::explore::*;
use crate::json::J;
use crate::lockstep::*;
use crate::model::{Model, Pred};
use crate::spec::Config;

pub enum HistGen {
    /// every sequence over the alphabet of exactly this length (prefixes are covered on the way)
    All { alphabet: Vec<Call>, depth: usize },
    /// exactly these histories
    List(Vec<Vec<Call>>),
    /// every history all of whose steps the model accepts (no mock-induced panic), extended by
    /// every call of the alphabet; a call predicted to panic is checked and not extended further
    AcceptedPrefixes {
        alphabet: Vec<Call>,
        max_depth: usize,
    },
}

pub struct Case {
    pub label: String,
    pub config: Config,
    pub histories: HistGen,
}

pub fn pred_class(p: &Pred) -> String {
    match p {
        Pred::Value(_) => "value".to_string(),
        Pred::Answer(_) => "answer".to_string(),
        Pred::Real(_) => "real".to_string(),
        Pred::DefaultBody(_) => "default_body".to_string(),
        Pred::MockPanic(c, _) => format!("panic:{c:?}"),
        Pred::UserPanic(t, _) => format!("user-panic:{t}"),
        Pred::Unspecified(_) => "unspecified".to_string(),
    }
}

fn model_hash(m: &Model) -> u64 {
    let mut h = std::collections::hash_map::DefaultHasher::new();
    m.hash(&mut h);
    h.finish()
}

/// Extra per-history oracle: `Err((kind, what))` reports a violation.
pub type Extra<'a> = &'a (dyn Fn(&Case, &[Call], &RunOut) -> Result<(), (&'static str, String)> + Sync);

pub fn run_one(
    ctx: &Ctx,
    case: &Case,
    history: &[Call],
    opts: RunOpts,
    extra: Extra,
    stats: &mut Stats,
    states: &mut HashSet<u64>,
) -> Option<RunOut> {
    ctx.tick();
    match run_history(&case.config, history, opts) {
        Ok(out) => {
            stats.add("traces_validated_against_impl", 1);
            stats.add("transitions", out.steps.len() as u64);
            let mut model = Model::build(&case.config, opts.has_mutex).unwrap();
            for (i, c) in history.iter().enumerate().take(out.preds.len()) {
                model.call(c.m, c.x);
                states.insert(model_hash(&model));
                stats.note("outcome_classes", pred_class(&out.preds[i]));
                if matches!(out.preds[i], Pred::MockPanic(..)) {
                    stats.add("panicking_calls", 1);
                }
            }
            if let Some(v) = &out.verdict {
                stats.add("verdicts_checked", 1);
                match v {
                    crate::obs::Verdict::Silent => stats.add("verdicts_silent", 1),
                    crate::obs::Verdict::Failed(lines) => {
                        stats.add("verdicts_failed", 1);
                        stats.note("verdict_line_counts", lines.len().to_string());
                    }
                }
            }
            if stats.samples.is_empty() {
                stats.sample(
                    J::obj()
                        .set("config", case.config.to_json())
                        .set("history", history_to_json(history))
                        .set(
                            "observed",
                            J::Arr(out.steps.iter().map(|s| J::from(s.obs.short())).collect()),
                        ),
                );
            }
            if let Err((kind, what)) = extra(case, history, &out) {
                stats.add("failed_histories", 1);
                ctx.violation(
                    &format!("{}:{}", case.label, kind),
                    &format!(
                        "{kind} after history {}: {what}",
                        history_to_json(history).to_string()
                    ),
                    case_json(&case.config, history),
                );
            }
            Some(out)
        }
        Err(f) => {
            stats.add("failed_histories", 1);
            ctx.violation(
                &format!("{}:{}", case.label, f.kind),
                &format!(
                    "{} at step {:?} of history {}: {}",
                    f.kind,
                    f.step,
                    history_to_json(history).to_string(),
                    f.what
                ),
                case_json(&case.config, history),
            );
            None
        }
    }
}

pub fn explore_case(ctx: &Ctx, case: &Case, opts: RunOpts, extra: Extra) -> Stats {
    let mut stats = Stats::default();
    let mut states: HashSet<u64> = HashSet::new();
    match &case.histories {
        HistGen::All { alphabet, depth } => {
            for history in sequences(alphabet, *depth) {
                if ctx.stopped() {
                    break;
                }
                run_one(ctx, case, &history, opts, extra, &mut stats, &mut states);
            }
        }
        HistGen::List(list) => {
            for history in list {
                if ctx.stopped() {
                    break;
                }
                run_one(ctx, case, history, opts, extra, &mut stats, &mut states);
            }
        }
        HistGen::AcceptedPrefixes {
            alphabet,
            max_depth,
        } => {
            let mut frontier: Vec<Vec<Call>> = vec![vec![]];
            // the empty history is a case of its own (verification of an untouched mock)
            run_one(ctx, case, &[], opts, extra, &mut stats, &mut states);
            while let Some(prefix) = frontier.pop() {
                if ctx.stopped() {
                    break;
                }
                for c in alphabet {
                    let mut h = prefix.clone();
                    h.push(*c);
                    let Some(out) = run_one(ctx, case, &h, opts, extra, &mut stats, &mut states)
                    else {
                        continue;
                    };
                    // a refused call to a method without ordered patterns (no clause at all, or no
                    // matching unordered pattern) is not a deviation from the ordered sequence: one
                    // such call per history is allowed inside a prefix that goes on
                    let refused_unordered = out
                        .preds
                        .iter()
                        .filter(|p| matches!(p, Pred::MockPanic(crate::model::PanicClass::NoMockImpl | crate::model::PanicClass::NoMatch, _)))
                        .count();
                    let accepted = refused_unordered <= 1
                        && out.preds.iter().all(|p| match p {
                            Pred::MockPanic(crate::model::PanicClass::NoMockImpl | crate::model::PanicClass::NoMatch, _) => true,
                            Pred::MockPanic(..) | Pred::Unspecified(_) => false,
                            _ => true,
                        });
                    if accepted && h.len() < *max_depth {
                        frontier.push(h);
                    } else if !accepted {
                        stats.add("deviating_calls_checked", 1);
                    }
                }
            }
        }
    }
    stats.add("states", states.len() as u64 + 1);
    stats.add("configurations", 1);
    stats
}

pub fn explore_cases(ctx: &'static Ctx, cases: &[Case], opts: RunOpts, extra: Extra) -> Stats {
    let parts = par_map(cases, |_, case| explore_case(ctx, case, opts, extra));
    let mut stats = Stats::default();
    for p in parts {
        stats.merge(p);
    }
    stats
}

/// Standard `--replay` handling for (config, history) cases. Never returns if a replay was asked.
pub fn handle_replay(ctx: &Ctx, opts: RunOpts, extra: Extra) {
    let Some(replay) = &ctx.replay else {
        return;
    };
    let case_j = replay.get("case").unwrap_or(replay);
    let (config, history) = case_from_json(case_j)
        .unwrap_or_else(|| machinery("replay file has no (config, history) case"));
    println!("replaying {}", case_j.to_string());
    let case = Case {
        label: "replay".into(),
        config,
        histories: HistGen::List(vec![]),
    };
    match run_history(&case.config, &history, opts) {
        Ok(out) => {
            println!(
                "observed {:?}, verdict {:?}",
                out.steps.iter().map(|s| s.obs.short()).collect::<Vec<_>>(),
                out.verdict
            );
            if let Err((kind, what)) = extra(&case, &history, &out) {
                ctx.violation("replay", &format!("{kind}: {what}"), case_j.clone());
                std::process::exit(1);
            }
            println!("replay: conforms to the model");
            std::process::exit(0);
        }
        Err(f) => {
            ctx.violation(
                "replay",
                &format!("{} at step {:?}: {}", f.kind, f.step, f.what),
                case_j.clone(),
            );
            std::process::exit(1);
        }
    }
}

pub fn no_extra(_: &Case, _: &[Call], _: &RunOut) -> Result<(), (&'static str, String)> {
    Ok(())
}

/// Extra oracle: the verification verdict (C03 / C08).
pub fn verdict_extra(_: &Case, _: &[Call], out: &RunOut) -> Result<(), (&'static str, String)> {
    check_verdict(out).map_err(|what| ("verdict", what))
}

/// Evidence coverage object from merged statistics.
pub fn coverage(ctx: &Ctx, stats: &Stats, bounds: J) -> J {
    let mut cov = stats.to_json();
    cov.put("samples", J::Arr(stats.samples.clone()));
    cov.put("exhaustive", !ctx.stopped());
    cov.put("bounds", bounds);
    cov.put(
        "outcome_classes",
        J::Arr(
            stats
                .sets
                .get("outcome_classes")
                .map(|s| s.iter().map(|x| J::from(x.as_str())).collect())
                .unwrap_or_default(),
        ),
    );
    cov
}

/// Vacuity guard shared by the explorers.
pub fn guard(stats: &Stats, min_classes: usize, need_panics: bool) {
    if stats.get("transitions") == 0
        || stats.set_len("outcome_classes") < min_classes
        || (need_panics && stats.get("panicking_calls") == 0)
    {
        vacuous(&format!(
            "vacuous exploration: {} transitions, {} panicking calls, outcome classes {:?}",
            stats.get("transitions"),
            stats.get("panicking_calls"),
            stats.sets.get("outcome_classes")
        ));
    }
}

//! Shared plumbing of the explorers: arguments, parallel enumeration, violations / known findings,
//! replay files, evidence files, watchdog.

use std::collections::{BTreeMap, BTreeSet};
use std::path::PathBuf;
use std::sync::atomic::{AtomicBool, AtomicU64, AtomicUsize, Ordering};
use std::sync::Mutex;
use std::time::Instant;

use crate::json::J;

#[derive(Clone, Copy, Debug, PartialEq, Eq)]
pub enum Tier {
    Quick,
    Thorough,
}

pub struct Ctx {
    pub id: String,
    pub tier: Tier,
    pub seed: i64,
    pub start: Instant,
    pub replay: Option<J>,
    pub root: PathBuf,
    /// variant label appended to the evidence (e.g. "std", "nostd")
    pub variant: String,
    /// optional file to which the run's result summary is written instead of the evidence file
    pub part_out: Option<PathBuf>,
    known: Vec<(String, String)>,
    reported: Mutex<BTreeSet<String>>,
    pub n_violations: AtomicUsize,
    pub n_known: AtomicUsize,
    pub stop: AtomicBool,
    next_replay: AtomicUsize,
    pub progress: AtomicU64,
}

pub const MAX_REPORTED: usize = 8;

impl Ctx {
    /// `<bin> <quick|thorough> [--replay <file>] [--variant <name>] [--part-out <file>]`
    pub fn from_args(id: &str) -> Ctx {
        let args: Vec<String> = std::env::args().collect();
        let mut tier = match std::env::var("VERIF_TIER").as_deref() {
            Ok("thorough") => Tier::Thorough,
            _ => Tier::Quick,
        };
        let mut replay = None;
        let mut variant = "std".to_string();
        let mut part_out = None;
        let mut i = 1;
        while i < args.len() {
            match args[i].as_str() {
                "quick" => tier = Tier::Quick,
                "thorough" => tier = Tier::Thorough,
                "--replay" => {
                    i += 1;
                    let text = std::fs::read_to_string(&args[i])
                        .unwrap_or_else(|e| machinery(&format!("cannot read replay file: {e}")));
                    replay = Some(
                        J::parse(&text)
                            .unwrap_or_else(|e| machinery(&format!("bad replay file: {e}"))),
                    );
                }
                "--variant" => {
                    i += 1;
                    variant = args[i].clone();
                }
                "--part-out" => {
                    i += 1;
                    part_out = Some(PathBuf::from(&args[i]));
                }
                other => machinery(&format!("unknown argument {other}")),
            }
            i += 1;
        }
        let root = PathBuf::from(std::env::var("VERIF_ROOT").unwrap_or_else(|_| "/verif".into()));
        let seed = std::env::var("VERIF_SEED")
            .ok()
            .and_then(|s| s.parse().ok())
            .unwrap_or(0);
        let known = load_known(&root, id);
        Ctx {
            id: id.to_string(),
            tier,
            seed,
            start: Instant::now(),
            replay,
            root,
            variant,
            part_out,
            known,
            reported: Mutex::new(BTreeSet::new()),
            n_violations: AtomicUsize::new(0),
            n_known: AtomicUsize::new(0),
            stop: AtomicBool::new(false),
            next_replay: AtomicUsize::new(0),
            progress: AtomicU64::new(0),
        }
    }

    pub fn quick(&self) -> bool {
        self.tier == Tier::Quick
    }

    pub fn tier_name(&self) -> &'static str {
        match self.tier {
            Tier::Quick => "quick",
            Tier::Thorough => "thorough",
        }
    }

    pub fn stopped(&self) -> bool {
        self.stop.load(Ordering::Relaxed)
    }

    pub fn tick(&self) {
        self.progress.fetch_add(1, Ordering::Relaxed);
    }

    /// Report a violation. `key` identifies the failing input class (matched against
    /// known_findings.json); `case` is what `--replay` needs to re-execute it.
    pub fn violation(&self, key: &str, what: &str, case: J) {
        if let Some((_, known_what)) = self.known.iter().find(|(k, _)| k == key) {
            self.n_known.fetch_add(1, Ordering::Relaxed);
            let mut rep = self.reported.lock().unwrap();
            if rep.insert(format!("known:{key}")) {
                println!("KNOWN-FINDING: property={} {key}: {known_what}", self.id);
            }
            return;
        }
        VIOLATION_SEEN.store(true, Ordering::Relaxed);
        let n = self.n_violations.fetch_add(1, Ordering::Relaxed);
        if n + 1 >= 64 {
            self.stop.store(true, Ordering::Relaxed);
        }
        let mut rep = self.reported.lock().unwrap();
        if rep.len() >= MAX_REPORTED && !rep.contains(key) {
            return;
        }
        if !rep.insert(key.to_string()) {
            return;
        }
        drop(rep);
        let k = self.next_replay.fetch_add(1, Ordering::Relaxed);
        let dir = self.root.join("replays");
        let _ = std::fs::create_dir_all(&dir);
        let path = dir.join(format!("{}-{}-{}.json", self.id, self.variant, k));
        let doc = J::obj()
            .set("property", self.id.as_str())
            .set("variant", self.variant.as_str())
            .set("key", key)
            .set("what", what)
            .set("case", case);
        let _ = std::fs::write(&path, doc.to_string());
        println!("violation detail [{key}]: {what}");
        println!("VIOLATION property={} replay={}", self.id, path.display());
    }

    /// Write the evidence file (or the part summary) and exit with the verdict.
    pub fn finish(&self, level: &str, mut coverage: J, assumptions: &[&str]) -> ! {
        let violations = self.n_violations.load(Ordering::Relaxed);
        let known = self.n_known.load(Ordering::Relaxed);
        coverage.put("variant", self.variant.as_str());
        let doc = J::obj()
            .set("property_id", self.id.as_str())
            .set("tier", self.tier_name())
            .set("seed", self.seed)
            .set("level", level)
            .set("coverage", coverage)
            .set(
                "assumptions",
                J::Arr(assumptions.iter().map(|s| J::from(*s)).collect()),
            )
            .set("wall_s", self.start.elapsed().as_secs_f64())
            .set("violations", violations)
            .set("known_finding_hits", known);
        let path = match &self.part_out {
            Some(p) => p.clone(),
            None => {
                let dir = self.root.join("evidence");
                let _ = std::fs::create_dir_all(&dir);
                dir.join(format!("{}.json", self.id))
            }
        };
        if let Err(e) = std::fs::write(&path, doc.to_string()) {
            machinery(&format!("cannot write {}: {e}", path.display()));
        }
        if violations > 0 {
            println!(
                "{}: {} violation(s) ({} known-finding hits)",
                self.id, violations, known
            );
            std::process::exit(1);
        }
        println!(
            "{}: held on everything explored ({} known-finding hits); evidence {}",
            self.id,
            known,
            path.display()
        );
        std::process::exit(0);
    }

    /// Start a watchdog: if `progress` does not move for `secs` seconds the run is reported as a
    /// violation (a call that never answers is not a legal behaviour).
    pub fn watchdog(&'static self, secs: u64, describe: impl Fn() -> J + Send + 'static) {
        std::thread::spawn(move || {
            let mut last = self.progress.load(Ordering::Relaxed);
            let mut idle = 0;
            loop {
                std::thread::sleep(std::time::Duration::from_secs(1));
                let now = self.progress.load(Ordering::Relaxed);
                if now == last {
                    idle += 1;
                    if idle >= secs {
                        self.violation(
                            "hang",
                            &format!("no progress for {secs} s: a call never answered"),
                            describe(),
                        );
                        println!("{}: aborting after hang", self.id);
                        std::process::exit(1);
                    }
                } else {
                    idle = 0;
                    last = now;
                }
            }
        });
    }
}

static VIOLATION_SEEN: AtomicBool = AtomicBool::new(false);

/// A vacuity guard tripped. On a tree where violations were already reported the exploration may
/// legitimately be degenerate (the run exits 1 anyway); otherwise it is a machinery failure.
pub fn vacuous(msg: &str) {
    if VIOLATION_SEEN.load(Ordering::Relaxed) {
        println!("note: vacuity guard after violations: {msg}");
    } else {
        machinery(msg);
    }
}

/// Machinery failure: never a verdict.
pub fn machinery(msg: &str) -> ! {
    eprintln!("MACHINERY-ERROR: {msg}");
    std::process::exit(2);
}

fn load_known(root: &std::path::Path, id: &str) -> Vec<(String, String)> {
    let path = root.join("known_findings.json");
    let Ok(text) = std::fs::read_to_string(&path) else {
        return vec![];
    };
    let doc = J::parse(&text).unwrap_or_else(|e| machinery(&format!("known_findings.json: {e}")));
    let mut out = vec![];
    if let Some(list) = doc.get("findings").and_then(|f| f.as_arr()) {
        for f in list {
            if f.get("property").and_then(|p| p.as_str()) == Some(id)
                && f.get("status").and_then(|p| p.as_str()) == Some("known")
            {
                out.push((
                    f.get("key").and_then(|k| k.as_str()).unwrap_or("").to_string(),
                    f.get("what").and_then(|k| k.as_str()).unwrap_or("").to_string(),
                ));
            }
        }
    }
    out
}

pub fn n_workers() -> usize {
    std::env::var("VERIF_JOBS")
        .ok()
        .and_then(|s| s.parse().ok())
        .unwrap_or_else(|| {
            std::thread::available_parallelism()
                .map(|n| n.get())
                .unwrap_or(4)
        })
        .max(1)
}

/// Run `f(index, item)` for every item on a pool of threads (dynamic work distribution; the
/// results are independent of the distribution). Results are returned in item order.
pub fn par_map<T: Sync, R: Send>(items: &[T], f: impl Fn(usize, &T) -> R + Sync) -> Vec<R> {
    let next = AtomicUsize::new(0);
    let results: Mutex<Vec<(usize, R)>> = Mutex::new(Vec::with_capacity(items.len()));
    let workers = n_workers().min(items.len().max(1));
    std::thread::scope(|s| {
        for _ in 0..workers {
            s.spawn(|| {
                let mut local = vec![];
                loop {
                    let i = next.fetch_add(1, Ordering::Relaxed);
                    if i >= items.len() {
                        break;
                    }
                    // a panic that escapes a work item is a defect of the harness, not a verdict:
                    // say which one it was before giving up
                    match std::panic::catch_unwind(std::panic::AssertUnwindSafe(|| f(i, &items[i]))) {
                        Ok(r) => local.push((i, r)),
                        Err(p) => {
                            let msg = crate::obs::payload_to_string(p);
                            eprintln!("MACHINERY-ERROR: work item {i} of a parallel map panicked: {msg}");
                            std::process::exit(2);
                        }
                    }
                }
                results.lock().unwrap().extend(local);
            });
        }
    });
    let mut v = results.into_inner().unwrap();
    v.sort_by_key(|(i, _)| *i);
    v.into_iter().map(|(_, r)| r).collect()
}

/// Counters merged across workers.
#[derive(Clone, Debug, Default)]
pub struct Stats {
    pub counters: BTreeMap<String, u64>,
    pub sets: BTreeMap<String, BTreeSet<String>>,
    pub samples: Vec<J>,
}

impl Stats {
    pub fn add(&mut self, k: &str, n: u64) {
        *self.counters.entry(k.to_string()).or_insert(0) += n;
    }
    pub fn note(&mut self, set: &str, item: impl Into<String>) {
        let s = self.sets.entry(set.to_string()).or_default();
        if s.len() < 100_000 {
            s.insert(item.into());
        }
    }
    pub fn sample(&mut self, j: J) {
        if self.samples.len() < 3 {
            self.samples.push(j);
        }
    }
    pub fn merge(&mut self, other: Stats) {
        for (k, v) in other.counters {
            *self.counters.entry(k).or_insert(0) += v;
        }
        for (k, v) in other.sets {
            self.sets.entry(k).or_default().extend(v);
        }
        for s in other.samples {
            if self.samples.len() < 6 {
                self.samples.push(s);
            }
        }
    }
    pub fn get(&self, k: &str) -> u64 {
        self.counters.get(k).copied().unwrap_or(0)
    }
    pub fn set_len(&self, k: &str) -> usize {
        self.sets.get(k).map(|s| s.len()).unwrap_or(0)
    }
    /// All counters and set sizes as JSON members.
    pub fn to_json(&self) -> J {
        let mut j = J::obj();
        for (k, v) in &self.counters {
            j.put(k, *v);
        }
        for (k, v) in &self.sets {
            j.put(&format!("distinct_{k}"), v.len());
        }
        j
    }
}

/// All sequences over `alphabet` of exactly `len`.
pub fn sequences<T: Clone>(alphabet: &[T], len: usize) -> Vec<Vec<T>> {
    let mut out = vec![vec![]];
    for _ in 0..len {
        let mut next = Vec::with_capacity(out.len() * alphabet.len());
        for s in &out {
            for a in alphabet {
                let mut t = s.clone();
                t.push(a.clone());
                next.push(t);
            }
        }
        out = next;
    }
    out
}

//! Verification harness library for unimock: universe of mocked traits, run-time clause specs,
//! reference model, observation helpers, exploration utilities and the controlled scheduler.

pub mod composite;
pub mod engine_s;
pub mod explore;
pub mod gsupport;
pub mod json;
pub mod model;
pub mod obs;
pub mod lockstep;
#[cfg(not(feature = "nolock"))]
pub mod sched;
pub mod spec;
pub mod twins;
pub mod universe;

//! Minimal JSON value + writer + parser (no dependencies).

use std::collections::BTreeMap;
use std::fmt::Write;

#[derive(Clone, Debug, PartialEq)]
pub enum J {
    Null,
    Bool(bool),
    Int(i64),
    Num(f64),
    Str(String),
    Arr(Vec<J>),
    Obj(BTreeMap<String, J>),
}

impl J {
    pub fn obj() -> J {
        J::Obj(BTreeMap::new())
    }
    pub fn set(mut self, k: &str, v: impl Into<J>) -> J {
        if let J::Obj(m) = &mut self {
            m.insert(k.to_string(), v.into());
        }
        self
    }
    pub fn put(&mut self, k: &str, v: impl Into<J>) {
        if let J::Obj(m) = self {
            m.insert(k.to_string(), v.into());
        }
    }
    pub fn get(&self, k: &str) -> Option<&J> {
        match self {
            J::Obj(m) => m.get(k),
            _ => None,
        }
    }
    pub fn as_i64(&self) -> Option<i64> {
        match self {
            J::Int(i) => Some(*i),
            J::Num(f) => Some(*f as i64),
            _ => None,
        }
    }
    pub fn as_str(&self) -> Option<&str> {
        match self {
            J::Str(s) => Some(s),
            _ => None,
        }
    }
    pub fn as_arr(&self) -> Option<&Vec<J>> {
        match self {
            J::Arr(a) => Some(a),
            _ => None,
        }
    }
    pub fn as_bool(&self) -> Option<bool> {
        match self {
            J::Bool(b) => Some(*b),
            _ => None,
        }
    }

    pub fn to_string(&self) -> String {
        let mut s = String::new();
        self.write(&mut s);
        s
    }

    fn write(&self, out: &mut String) {
        match self {
            J::Null => out.push_str("null"),
            J::Bool(b) => out.push_str(if *b { "true" } else { "false" }),
            J::Int(i) => {
                let _ = write!(out, "{i}");
            }
            J::Num(f) => {
                if f.is_finite() {
                    let _ = write!(out, "{f}");
                } else {
                    out.push_str("null");
                }
            }
            J::Str(s) => write_str(s, out),
            J::Arr(a) => {
                out.push('[');
                for (i, v) in a.iter().enumerate() {
                    if i > 0 {
                        out.push(',');
                    }
                    v.write(out);
                }
                out.push(']');
            }
            J::Obj(m) => {
                out.push('{');
                for (i, (k, v)) in m.iter().enumerate() {
                    if i > 0 {
                        out.push(',');
                    }
                    write_str(k, out);
                    out.push(':');
                    v.write(out);
                }
                out.push('}');
            }
        }
    }

    pub fn parse(s: &str) -> Result<J, String> {
        let mut p = Parser {
            b: s.as_bytes(),
            i: 0,
        };
        p.ws();
        let v = p.value()?;
        p.ws();
        if p.i != p.b.len() {
            return Err(format!("trailing data at {}", p.i));
        }
        Ok(v)
    }
}

fn write_str(s: &str, out: &mut String) {
    out.push('"');
    for c in s.chars() {
        match c {
            '"' => out.push_str("\\\""),
            '\\' => out.push_str("\\\\"),
            '\n' => out.push_str("\\n"),
            '\r' => out.push_str("\\r"),
            '\t' => out.push_str("\\t"),
            c if (c as u32) < 0x20 => {
                let _ = write!(out, "\\u{:04x}", c as u32);
            }
            c => out.push(c),
        }
    }
    out.push('"');
}

struct Parser<'a> {
    b: &'a [u8],
    i: usize,
}

impl Parser<'_> {
    fn ws(&mut self) {
        while self.i < self.b.len() && (self.b[self.i] as char).is_ascii_whitespace() {
            self.i += 1;
        }
    }
    fn value(&mut self) -> Result<J, String> {
        self.ws();
        if self.i >= self.b.len() {
            return Err("eof".into());
        }
        match self.b[self.i] {
            b'{' => {
                self.i += 1;
                let mut m = BTreeMap::new();
                self.ws();
                if self.b.get(self.i) == Some(&b'}') {
                    self.i += 1;
                    return Ok(J::Obj(m));
                }
                loop {
                    self.ws();
                    let k = match self.value()? {
                        J::Str(s) => s,
                        _ => return Err("key".into()),
                    };
                    self.ws();
                    if self.b.get(self.i) != Some(&b':') {
                        return Err(format!("expected : at {}", self.i));
                    }
                    self.i += 1;
                    let v = self.value()?;
                    m.insert(k, v);
                    self.ws();
                    match self.b.get(self.i) {
                        Some(b',') => self.i += 1,
                        Some(b'}') => {
                            self.i += 1;
                            return Ok(J::Obj(m));
                        }
                        _ => return Err(format!("expected , or }} at {}", self.i)),
                    }
                }
            }
            b'[' => {
                self.i += 1;
                let mut a = vec![];
                self.ws();
                if self.b.get(self.i) == Some(&b']') {
                    self.i += 1;
                    return Ok(J::Arr(a));
                }
                loop {
                    a.push(self.value()?);
                    self.ws();
                    match self.b.get(self.i) {
                        Some(b',') => self.i += 1,
                        Some(b']') => {
                            self.i += 1;
                            return Ok(J::Arr(a));
                        }
                        _ => return Err(format!("expected , or ] at {}", self.i)),
                    }
                }
            }
            b'"' => {
                self.i += 1;
                let mut s = String::new();
                loop {
                    let c = *self.b.get(self.i).ok_or("eof in string")?;
                    self.i += 1;
                    match c {
                        b'"' => return Ok(J::Str(s)),
                        b'\\' => {
                            let e = *self.b.get(self.i).ok_or("eof in escape")?;
                            self.i += 1;
                            match e {
                                b'n' => s.push('\n'),
                                b'r' => s.push('\r'),
                                b't' => s.push('\t'),
                                b'b' => s.push('\u{8}'),
                                b'f' => s.push('\u{c}'),
                                b'u' => {
                                    let h = std::str::from_utf8(&self.b[self.i..self.i + 4])
                                        .map_err(|e| e.to_string())?;
                                    let cp = u32::from_str_radix(h, 16).map_err(|e| e.to_string())?;
                                    self.i += 4;
                                    s.push(char::from_u32(cp).unwrap_or('?'));
                                }
                                other => s.push(other as char),
                            }
                        }
                        _ => {
                            // copy utf8 bytes verbatim
                            let start = self.i - 1;
                            let mut end = self.i;
                            while end < self.b.len() && self.b[end] != b'"' && self.b[end] != b'\\' {
                                end += 1;
                            }
                            s.push_str(
                                std::str::from_utf8(&self.b[start..end]).map_err(|e| e.to_string())?,
                            );
                            self.i = end;
                        }
                    }
                }
            }
            b't' if self.b[self.i..].starts_with(b"true") => {
                self.i += 4;
                Ok(J::Bool(true))
            }
            b'f' if self.b[self.i..].starts_with(b"false") => {
                self.i += 5;
                Ok(J::Bool(false))
            }
            b'n' if self.b[self.i..].starts_with(b"null") => {
                self.i += 4;
                Ok(J::Null)
            }
            _ => {
                let start = self.i;
                while self.i < self.b.len()
                    && matches!(self.b[self.i], b'-' | b'+' | b'.' | b'e' | b'E' | b'0'..=b'9')
                {
                    self.i += 1;
                }
                let t = std::str::from_utf8(&self.b[start..self.i]).unwrap();
                if let Ok(i) = t.parse::<i64>() {
                    Ok(J::Int(i))
                } else {
                    t.parse::<f64>()
                        .map(J::Num)
                        .map_err(|_| format!("bad number {t:?} at {start}"))
                }
            }
        }
    }
}

impl From<bool> for J {
    fn from(v: bool) -> J {
        J::Bool(v)
    }
}
impl From<i64> for J {
    fn from(v: i64) -> J {
        J::Int(v)
    }
}
impl From<u64> for J {
    fn from(v: u64) -> J {
        J::Int(v as i64)
    }
}
impl From<usize> for J {
    fn from(v: usize) -> J {
        J::Int(v as i64)
    }
}
impl From<u32> for J {
    fn from(v: u32) -> J {
        J::Int(v as i64)
    }
}
impl From<i32> for J {
    fn from(v: i32) -> J {
        J::Int(v as i64)
    }
}
impl From<u8> for J {
    fn from(v: u8) -> J {
        J::Int(v as i64)
    }
}
impl From<f64> for J {
    fn from(v: f64) -> J {
        J::Num(v)
    }
}
impl From<&str> for J {
    fn from(v: &str) -> J {
        J::Str(v.to_string())
    }
}
impl From<String> for J {
    fn from(v: String) -> J {
        J::Str(v)
    }
}
impl<T: Into<J>> From<Vec<T>> for J {
    fn from(v: Vec<T>) -> J {
        J::Arr(v.into_iter().map(Into::into).collect())
    }
}
impl<T: Into<J>> From<Option<T>> for J {
    fn from(v: Option<T>) -> J {
        match v {
            Some(x) => x.into(),
            None => J::Null,
        }
    }
}

//! C01 – unordered calls are answered by the first declared pattern that matches.
//!
//! Engine S: every pattern list (all 8 predicates over the domain {0,1,2}) up to a length bound,
//! in several clause forms and contexts, strict and partial; every call history up to a depth
//! bound; each step compared with the reference model (answering pattern, panic class, counters
//! of *every* pattern of *every* method).

use vh::engine_s::*;
use vh::explore::*;
use vh::json::J;
use vh::lockstep::*;
use vh::spec::*;
use vh::universe::*;

#[derive(Clone, Copy, Debug, PartialEq, Eq)]
enum Form {
    Each,
    Some,
    Stub,
    EachTwice,
    Mixed,
    StubThenEach,
}

#[derive(Clone, Copy, Debug, PartialEq, Eq)]
enum Ctx {
    Alone,
    OtherBefore,
    OtherBetween,
    OtherAfter,
    OrderedPresent,
}

const FORMS: [Form; 6] = [
    Form::Each,
    Form::Some,
    Form::Stub,
    Form::EachTwice,
    Form::Mixed,
    Form::StubThenEach,
];
const CTXS: [Ctx; 5] = [
    Ctx::Alone,
    Ctx::OtherBefore,
    Ctx::OtherBetween,
    Ctx::OtherAfter,
    Ctx::OrderedPresent,
];

fn id_of(i: usize) -> u32 {
    100 + i as u32
}

fn make_config(primary: M, masks: &[u8], form: Form, ctx: Ctx, partial: bool) -> Config {
    let ret = |i: usize, q: Quant| PatSpec {
        mask: masks[i],
        segs: vec![Seg {
            resp: Resp::Ret(id_of(i)),
            quant: q,
        }],
    };
    let single = |entry: Entry, pat: PatSpec| ClauseSpec::Single {
        m: primary,
        entry,
        pat,
    };
    let mut own: Vec<ClauseSpec> = vec![];
    match form {
        Form::Each => {
            for i in 0..masks.len() {
                own.push(single(Entry::EachCall, ret(i, Quant::Open)));
            }
        }
        Form::Some => {
            for i in 0..masks.len() {
                own.push(single(Entry::SomeCall, ret(i, Quant::Open)));
            }
        }
        Form::Stub => {
            if !masks.is_empty() {
                own.push(ClauseSpec::Stub {
                    m: primary,
                    pats: (0..masks.len()).map(|i| ret(i, Quant::Open)).collect(),
                });
            }
        }
        Form::EachTwice => {
            for i in 0..masks.len() {
                own.push(single(Entry::EachCall, ret(i, Quant::N(2))));
            }
        }
        Form::Mixed => {
            for i in 0..masks.len() {
                if i % 2 == 0 {
                    own.push(single(Entry::SomeCall, ret(i, Quant::Open)));
                } else {
                    own.push(single(
                        Entry::EachCall,
                        PatSpec {
                            mask: masks[i],
                            segs: vec![Seg {
                                resp: Resp::AnsArc(id_of(i)),
                                quant: Quant::AtLeast(1),
                            }],
                        },
                    ));
                }
            }
        }
        Form::StubThenEach => {
            // first pattern(s) in a stub, the last one as a separate each_call clause
            if masks.len() >= 2 {
                own.push(ClauseSpec::Stub {
                    m: primary,
                    pats: (0..masks.len() - 1).map(|i| ret(i, Quant::Open)).collect(),
                });
                own.push(single(Entry::EachCall, ret(masks.len() - 1, Quant::Open)));
            } else {
                for i in 0..masks.len() {
                    own.push(single(Entry::EachCall, ret(i, Quant::Open)));
                }
            }
        }
    }
    let other = ClauseSpec::Single {
        m: M::B,
        entry: Entry::EachCall,
        pat: PatSpec {
            mask: 7,
            segs: vec![Seg {
                resp: Resp::Ret(900),
                quant: Quant::Open,
            }],
        },
    };
    let ordered = ClauseSpec::Single {
        m: M::C,
        entry: Entry::NextCall,
        pat: PatSpec {
            mask: 7,
            segs: vec![Seg {
                resp: Resp::Ret(901),
                quant: Quant::Open,
            }],
        },
    };
    let mut clauses = vec![];
    match ctx {
        Ctx::Alone => clauses = own,
        Ctx::OtherBefore => {
            clauses.push(other);
            clauses.extend(own);
        }
        Ctx::OtherBetween => {
            let mut own = own.into_iter();
            if let Some(first) = own.next() {
                clauses.push(first);
            }
            clauses.push(other);
            clauses.extend(own);
        }
        Ctx::OtherAfter => {
            clauses = own;
            clauses.push(other);
        }
        Ctx::OrderedPresent => {
            clauses = own;
            clauses.push(ordered);
        }
    }
    Config { partial, clauses }
}

fn all_mask_lists(max_len: usize) -> Vec<Vec<u8>> {
    let masks: Vec<u8> = (0..8).collect();
    let mut out = vec![];
    for len in 0..=max_len {
        out.extend(sequences(&masks, len));
    }
    out
}

/// C01 is about which pattern answers. What happens when *no* pattern applies (C07), and how an
/// ordered method behaves (C04), is outside its scope.
fn c01_scope(p: &vh::model::Pred) -> bool {
    use vh::model::{PanicClass, Pred};
    match p {
        Pred::Value(_) | Pred::Answer(_) | Pred::Unspecified(_) => true,
        Pred::MockPanic(PanicClass::MoreThanOnce, _) => true,
        _ => false,
    }
}

fn main() {
    vh::obs::silence_panics();
    let ctx: &'static vh::explore::Ctx = Box::leak(Box::new(vh::explore::Ctx::from_args("C01")));
    let opts = RunOpts {
        has_mutex: !cfg!(feature = "nolock"),
        in_scope: c01_scope,
        ..RunOpts::default()
    };
    handle_replay(ctx, opts, &no_extra);

    // bounds
    let nostd = ctx.variant != "std";
    let (max_len, depth_short, depth_long) = if ctx.quick() || nostd {
        (2, 3, 3)
    } else {
        (3, 5, 4)
    };
    let primaries = [M::A, M::Unm];
    let mut cases = vec![];
    for masks in all_mask_lists(max_len) {
        for form in FORMS {
            if masks.len() < 2 && form == Form::StubThenEach {
                continue;
            }
            if masks.is_empty() && form != Form::Each {
                continue;
            }
            for c in CTXS {
                if masks.is_empty() && c == Ctx::OtherBetween {
                    continue;
                }
                for partial in [false, true] {
                    for primary in primaries {
                        let depth = if masks.len() >= 3 { depth_long } else { depth_short };
                        cases.push(Case {
                            config: make_config(primary, &masks, form, c, partial),
                            label: format!(
                                "{}/{form:?}/{c:?}/len{}/{}",
                                primary.name(),
                                masks.len(),
                                if partial { "partial" } else { "strict" }
                            ),
                            histories: HistGen::All {
                                alphabet: vec![
                                    Call::new(primary, 0),
                                    Call::new(primary, 1),
                                    Call::new(primary, 2),
                                    Call::new(M::B, 0),
                                ],
                                depth,
                            },
                        });
                    }
                }
            }
        }
    }
    // long lists: more than 20 patterns spread over several methods in a layout that is not
    // grouped by method (clause order must survive whatever the assembler does to group them);
    // for every k the k-th pattern of the primary method is the first that accepts
    for total in if ctx.quick() || nostd { vec![24usize] } else { vec![21, 24, 33, 48] } {
        for partial in [false, true] {
            // layout: position i belongs to B when i % 3 == 0, to C (ordered) when i % 7 == 3,
            // otherwise to the primary method; one run of 5 primary patterns sits in a stub
            let owners: Vec<M> = (0..total)
                .map(|i| if i % 3 == 0 { M::B } else if i % 7 == 3 { M::E } else { M::A })
                .collect();
            let n_primary = owners.iter().filter(|m| **m == M::A).count();
            for k in 0..n_primary {
                let mut clauses = vec![];
                let mut pi = 0usize;
                let mut stub: Vec<PatSpec> = vec![];
                for (i, owner) in owners.iter().enumerate() {
                    match owner {
                        M::A => {
                            let pat = PatSpec {
                                mask: if pi >= k { 7 } else { 0 },
                                segs: vec![Seg {
                                    resp: Resp::Ret(1000 + pi as u32),
                                    quant: Quant::Open,
                                }],
                            };
                            // primary patterns 4..9 are collected into one stub
                            if (4..9).contains(&pi) {
                                stub.push(pat);
                                if pi == 8 {
                                    clauses.push(ClauseSpec::Stub {
                                        m: M::A,
                                        pats: std::mem::take(&mut stub),
                                    });
                                }
                            } else {
                                clauses.push(ClauseSpec::Single {
                                    m: M::A,
                                    entry: Entry::EachCall,
                                    pat,
                                });
                            }
                            pi += 1;
                        }
                        M::B => clauses.push(ClauseSpec::Single {
                            m: M::B,
                            entry: Entry::EachCall,
                            pat: PatSpec {
                                mask: if i == 0 { 1 } else { 7 },
                                segs: vec![Seg {
                                    resp: Resp::Ret(2000 + i as u32),
                                    quant: Quant::Open,
                                }],
                            },
                        }),
                        _ => clauses.push(ClauseSpec::Single {
                            m: M::E,
                            entry: Entry::NextCall,
                            pat: PatSpec {
                                mask: 7,
                                segs: vec![Seg {
                                    resp: Resp::Ret(3000 + i as u32),
                                    quant: Quant::Open,
                                }],
                            },
                        }),
                    }
                }
                if !stub.is_empty() {
                    clauses.push(ClauseSpec::Stub { m: M::A, pats: stub });
                }
                cases.push(Case {
                    label: format!("long-list/{total}/first-accepting={k}/{}", if partial { "partial" } else { "strict" }),
                    config: Config { partial, clauses },
                    histories: HistGen::All {
                        alphabet: vec![Call::new(M::A, 0), Call::new(M::B, 0), Call::new(M::B, 1)],
                        depth: 2,
                    },
                });
            }
        }
    }
    // a matcher with an observable effect (it panics) behind patterns that may accept first: the
    // matchers of later patterns are not even consulted once an earlier pattern has accepted
    for masks in all_mask_lists(2) {
        if masks.is_empty() {
            continue;
        }
        for tail in [vec![MASK_PANICKING_MATCHER], vec![MASK_PANICKING_MATCHER, 7]] {
            let mut list = masks.clone();
            list.extend(tail);
            let clauses = list
                .iter()
                .enumerate()
                .map(|(pi, mask)| ClauseSpec::Single {
                    m: M::A,
                    entry: Entry::EachCall,
                    pat: PatSpec {
                        mask: *mask,
                        segs: vec![Seg {
                            resp: Resp::Ret(1000 + pi as u32),
                            quant: Quant::Open,
                        }],
                    },
                })
                .collect();
            cases.push(Case {
                label: format!("effectful-matcher-behind/{list:?}"),
                config: Config { partial: false, clauses },
                histories: HistGen::All {
                    alphabet: vec![Call::new(M::A, 0), Call::new(M::A, 1), Call::new(M::A, 2)],
                    depth: 2,
                },
            });
        }
    }
    // a hand-written matcher that reports why it rejects, in front of / between / behind patterns
    // that accept: what an earlier pattern reported never influences a later pattern's decision
    for masks in all_mask_lists(2) {
        for at in 0..=masks.len() {
            for partial in [false, true] {
                let mut list = masks.clone();
                list.insert(at, MASK_REPORTING_MATCHER);
                let clauses = list
                    .iter()
                    .enumerate()
                    .map(|(pi, mask)| ClauseSpec::Single {
                        m: M::Both,
                        entry: Entry::EachCall,
                        pat: PatSpec {
                            mask: *mask,
                            segs: vec![Seg {
                                resp: Resp::Ret(1000 + pi as u32),
                                quant: Quant::Open,
                            }],
                        },
                    })
                    .collect();
                cases.push(Case {
                    label: format!("reporting-matcher/{list:?}/{}", if partial { "partial" } else { "strict" }),
                    config: Config { partial, clauses },
                    histories: HistGen::All {
                        alphabet: vec![Call::new(M::Both, 0), Call::new(M::Both, 1), Call::new(M::Both, 2)],
                        depth: 2,
                    },
                });
            }
        }
    }
    // every tuple arity: n patterns of one method composed as one real n-tuple (vh::spec::compose);
    // for every k the k-th is the first that accepts
    for total in 2..=16usize {
        for k in 0..total {
            let clauses = (0..total)
                .map(|pi| ClauseSpec::Single {
                    m: M::A,
                    entry: Entry::EachCall,
                    pat: PatSpec {
                        mask: if pi >= k { 7 } else { 0 },
                        segs: vec![Seg {
                            resp: Resp::Ret(1000 + pi as u32),
                            quant: Quant::Open,
                        }],
                    },
                })
                .collect();
            cases.push(Case {
                label: format!("tuple-arity/{total}/first-accepting={k}"),
                config: Config { partial: false, clauses },
                histories: HistGen::All {
                    alphabet: vec![Call::new(M::A, 0), Call::new(M::A, 1)],
                    depth: 2,
                },
            });
        }
    }
    ctx.watchdog(120, || J::Str("no progress in the C01 explorer".into()));
    let mut stats = explore_cases(ctx, &cases, opts, &no_extra);
    guard(&stats, 4, true);
    // patterns of other methods never influence the answer: same-named generic methods of two traits
    vh::twins::cells(ctx, &mut stats, "twins:same-named-generic-methods");

    let cov = coverage(
        ctx,
        &stats,
        J::obj()
            .set("pattern_list_length_max", max_len)
            .set("history_depth_lists_up_to_2", depth_short)
            .set("history_depth_lists_of_3", depth_long)
            .set("argument_domain", "{0,1,2}; all 8 predicates as real matching! invocations")
            .set("forms", J::Arr(FORMS.iter().map(|f| J::from(format!("{f:?}"))).collect()))
            .set("contexts", J::Arr(CTXS.iter().map(|f| J::from(format!("{f:?}"))).collect()))
            .set("modes", "strict, partial")
            .set("primary_methods", "A::a (no real fn), F::unm (real fn)"),
    );
    ctx.finish(
        "model_checking",
        cov,
        &[
            "reference model of DESIGN.md section 0.1 is the oracle",
            "argument values outside {0,1,2} and list lengths / depths beyond the bounds are not covered",
            "states = distinct (configuration, model state) pairs reached; transitions = real calls executed and compared",
        ],
    );
}

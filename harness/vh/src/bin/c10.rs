//! C10 – counting, sequencing and ordering are exact under every thread interleaving.
//!
//! Engine T: real threads under the controlled scheduler; every sequentially consistent
//! interleaving of the runtime's atomic operations and lock acquisitions up to a preemption bound
//! (unbounded for the small scenarios in the thorough tier). Oracles, evaluated on every schedule:
//!  (1) per pattern, the multiset of outcomes handed out equals the responses of positions 1..N
//!      (N = that pattern's final match counter): nothing lost, nothing handed out twice;
//!  (2) the global ordered index equals the number of calls made to ordered methods, and the
//!      ordered patterns' counters add up to the number of accepted ordered calls;
//!  (3) final counters and verification verdict equal those of *some* sequential execution of the
//!      same calls respecting each thread's program order (candidates computed by running the real
//!      mock sequentially over all merge orders);
//!  and no schedule deadlocks. Linearizability of per-thread results is recorded as a diagnostic.

use std::collections::{BTreeMap, BTreeSet};
use std::sync::Arc;

use unimock::Unimock;
use vh::explore::*;
use vh::json::J;
use vh::lockstep::Call;
use vh::model::*;
use vh::obs::*;
use vh::sched::*;
use vh::spec::*;
use vh::universe::*;

fn seg(resp: Resp, quant: Quant) -> Seg {
    Seg { resp, quant }
}

#[derive(Clone, Copy, Debug, PartialEq, Eq)]
enum Sharing {
    Clones,
    SharedRef,
}

#[derive(Clone)]
struct Scenario {
    name: String,
    config: Config,
    threads: Vec<Vec<(M, u8)>>,
    sharing: Sharing,
}

fn single(m: M, entry: Entry, mask: u8, segs: Vec<Seg>) -> ClauseSpec {
    ClauseSpec::Single {
        m,
        entry,
        pat: PatSpec { mask, segs },
    }
}

fn scenarios(quick: bool) -> Vec<Scenario> {
    let mut base: Vec<(String, Vec<ClauseSpec>, Vec<Vec<(M, u8)>>)> = vec![];
    // S1: one unordered pattern with a response chain r1 x1, r2 x1, r3...
    let s1 = vec![single(
        M::A,
        Entry::EachCall,
        7,
        vec![
            seg(Resp::Ret(101), Quant::N(1)),
            seg(Resp::Ret(102), Quant::N(1)),
            seg(Resp::Ret(103), Quant::Open),
        ],
    )];
    base.push(("S1-chain-2x1".into(), s1.clone(), vec![vec![(M::A, 0)], vec![(M::A, 0)]]));
    base.push((
        "S1-chain-2x2".into(),
        s1.clone(),
        vec![vec![(M::A, 0), (M::A, 1)], vec![(M::A, 0), (M::A, 1)]],
    ));
    base.push((
        "S1-chain-3x1".into(),
        s1.clone(),
        vec![vec![(M::A, 0)], vec![(M::A, 1)], vec![(M::A, 2)]],
    ));
    if !quick {
        base.push((
            "S1-chain-3x2".into(),
            s1.clone(),
            vec![
                vec![(M::A, 0), (M::A, 0)],
                vec![(M::A, 1), (M::A, 1)],
                vec![(M::A, 2), (M::A, 2)],
            ],
        ));
        base.push((
            "S1-chain-2x3".into(),
            s1.clone(),
            vec![vec![(M::A, 0); 3], vec![(M::A, 1); 3]],
        ));
        base.push((
            "S1-chain-4x1".into(),
            s1,
            vec![vec![(M::A, 0)], vec![(M::A, 1)], vec![(M::A, 2)], vec![(M::A, 0)]],
        ));
    }
    // S2: two overlapping unordered patterns with exact counts
    let s2 = vec![
        single(M::A, Entry::EachCall, 1, vec![seg(Resp::Ret(201), Quant::N(2))]),
        single(
            M::A,
            Entry::EachCall,
            7,
            vec![seg(Resp::Ret(202), Quant::N(1)), seg(Resp::Ret(203), Quant::N(1))],
        ),
    ];
    base.push((
        "S2-overlap-2x2".into(),
        s2.clone(),
        vec![vec![(M::A, 0), (M::A, 1)], vec![(M::A, 1), (M::A, 0)]],
    ));
    if !quick {
        base.push((
            "S2-overlap-3x1".into(),
            s2,
            vec![vec![(M::A, 0)], vec![(M::A, 1)], vec![(M::A, 0)]],
        ));
    }
    // S3: ordered [c x2 with an inner chain, c x1]
    let s3 = vec![
        single(
            M::C,
            Entry::NextCall,
            7,
            vec![seg(Resp::Ret(301), Quant::N(1)), seg(Resp::Ret(302), Quant::Open)],
        ),
        single(M::C, Entry::NextCall, 7, vec![seg(Resp::Ret(303), Quant::N(1))]),
    ];
    base.push((
        "S3-ordered-3x1".into(),
        s3.clone(),
        vec![vec![(M::C, 0)], vec![(M::C, 1)], vec![(M::C, 2)]],
    ));
    base.push((
        "S3-ordered-2x(2,1)".into(),
        s3,
        vec![vec![(M::C, 0), (M::C, 0)], vec![(M::C, 1)]],
    ));
    // S4: ordered across methods with argument-specific patterns
    let s4 = vec![
        single(M::C, Entry::NextCall, 1, vec![seg(Resp::Ret(401), Quant::Open)]),
        single(M::E, Entry::NextCall, 7, vec![seg(Resp::Ret(402), Quant::Open)]),
        single(M::C, Entry::NextCall, 2, vec![seg(Resp::Ret(403), Quant::Open)]),
    ];
    base.push((
        "S4-cross-method".into(),
        s4,
        vec![vec![(M::C, 0), (M::C, 1)], vec![(M::E, 0)]],
    ));
    // S5: single-use value
    let s5 = vec![single(M::A, Entry::SomeCall, 7, vec![seg(Resp::Ret(501), Quant::Open)])];
    base.push(("S5-single-use-2".into(), s5.clone(), vec![vec![(M::A, 0)], vec![(M::A, 1)]]));
    base.push((
        "S5-single-use-3".into(),
        s5.clone(),
        vec![vec![(M::A, 0)], vec![(M::A, 1)], vec![(M::A, 2)]],
    ));
    if !quick {
        base.push((
            "S5-single-use-4".into(),
            s5,
            vec![vec![(M::A, 0)], vec![(M::A, 1)], vec![(M::A, 2)], vec![(M::A, 0)]],
        ));
    }
    // S6: ordered and unordered mixed
    let s6 = vec![
        single(M::C, Entry::NextCall, 7, vec![seg(Resp::Ret(601), Quant::N(2))]),
        single(
            M::A,
            Entry::EachCall,
            7,
            vec![seg(Resp::Ret(602), Quant::N(1)), seg(Resp::Ret(603), Quant::Open)],
        ),
    ];
    base.push((
        "S6-mixed".into(),
        s6,
        vec![vec![(M::C, 0), (M::A, 0)], vec![(M::A, 1), (M::C, 1)]],
    ));
    // S7: N+1 ordered calls for N slots
    let s7 = vec![single(M::C, Entry::NextCall, 7, vec![seg(Resp::Ret(701), Quant::N(2))])];
    base.push((
        "S7-overrun".into(),
        s7,
        vec![vec![(M::C, 0)], vec![(M::C, 1)], vec![(M::C, 2)]],
    ));

    // S8: answers produced through a value lent by the instance the call runs on
    let s8 = vec![single(M::A, Entry::EachCall, 7, vec![seg(Resp::AnsArc(VIA_REF_ANSWER_ID + 1), Quant::Open)])];
    base.push(("S8-lent-answer-2x1".into(), s8.clone(), vec![vec![(M::A, 0)], vec![(M::A, 1)]]));
    base.push((
        "S8-lent-answer-2x(2,1)".into(),
        s8.clone(),
        vec![vec![(M::A, 0), (M::A, 2)], vec![(M::A, 1)]],
    ));
    if !quick {
        base.push((
            "S8-lent-answer-3x1".into(),
            s8,
            vec![vec![(M::A, 0)], vec![(M::A, 1)], vec![(M::A, 2)]],
        ));
    }

    // S10: the first calls of a provided method that no clause mentions arrive at the same time
    // (each instance creates its delegation helper lazily)
    let s10 = vec![single(M::A, Entry::EachCall, 7, vec![seg(Resp::Ret(1001), Quant::Open)])];
    base.push(("S10-first-delegations-2x1".into(), s10.clone(), vec![vec![(M::Def, 0)], vec![(M::Def, 1)]]));
    base.push((
        "S10-first-delegations-2x2".into(),
        s10,
        vec![vec![(M::Def, 0), (M::A, 0)], vec![(M::Def, 1), (M::Def, 0)]],
    ));
    // S9: several calls that are refused at the same time (each error is about its own call)
    let s9 = vec![single(M::A, Entry::EachCall, 1, vec![seg(Resp::Ret(901), Quant::Open)])];
    base.push(("S9-two-refused".into(), s9.clone(), vec![vec![(M::A, 1)], vec![(M::A, 2)]]));
    base.push((
        "S9-refused-and-accepted".into(),
        s9,
        vec![vec![(M::A, 1), (M::A, 0)], vec![(M::A, 2)], vec![(M::A, 0)]],
    ));

    let mut out = vec![];
    for (name, clauses, threads) in base {
        for sharing in [Sharing::Clones, Sharing::SharedRef] {
            if quick && sharing == Sharing::SharedRef && threads.len() > 2 && !name.starts_with("S5") {
                continue;
            }
            out.push(Scenario {
                name: format!("{name}/{sharing:?}"),
                config: Config {
                    partial: false,
                    clauses: clauses.clone(),
                },
                threads: threads.clone(),
                sharing,
            });
        }
    }
    out
}

/// What one call handed to its caller, in the vocabulary of the position oracle.
#[derive(Clone, Debug, PartialEq, Eq, PartialOrd, Ord, Hash)]
enum Token {
    Value(u32),
    /// "cannot return value more than once" naming this pattern
    Exhausted(PatId),
    /// any other mock-induced panic
    Panic(PanicClass),
    /// not one of unimock's errors
    Foreign(String),
    /// one of unimock's errors, but rendered for another call
    Misattributed(String),
}

#[derive(Clone, Debug, PartialEq, Eq, PartialOrd, Ord, Hash)]
struct Final {
    counts: Vec<(String, Vec<usize>)>,
    ordered_index: usize,
    verdict: Verdict,
}

struct Outcome {
    per_thread: Vec<Vec<Token>>,
    fin: Final,
    recorded_errors: usize,
}

fn token_of(obs: &Obs, call: (M, u8), names: &unimock::verif::Snapshot, model: &Model) -> Token {
    match obs {
        Obs::Value(v) => Token::Value(*v),
        // a mock-induced panic is about the call that raised it (C19 under concurrency)
        Obs::Panic(msg) if classify(msg) != PanicClass::Other && !msg.starts_with(&format!("{}({})", call.0.path(), call.1)) => {
            Token::Misattributed(format!("the panic raised by {}({}) reads {msg:?}", call.0.path(), call.1))
        }
        Obs::Panic(msg) => match classify(msg) {
            PanicClass::MoreThanOnce => {
                for (m, pats) in &model.methods {
                    for i in 0..pats.len() {
                        if let Some(name) = pattern_name(names, (*m, i)) {
                            if msg.contains(&name) {
                                return Token::Exhausted((*m, i));
                            }
                        }
                    }
                }
                Token::Foreign(msg.clone())
            }
            PanicClass::Other => Token::Foreign(msg.clone()),
            c => Token::Panic(c),
        },
    }
}

fn normalise_verdict(v: Verdict) -> Verdict {
    match v {
        Verdict::Silent => Verdict::Silent,
        Verdict::Failed(mut lines) => {
            lines.sort();
            Verdict::Failed(lines)
        }
    }
}

fn finalise(original: Unimock) -> (Final, usize) {
    let snap = unimock::verif::snapshot(&original);
    let mut counts: Vec<(String, Vec<usize>)> = snap
        .methods
        .iter()
        .map(|m| (m.path.clone(), m.patterns.iter().map(|p| p.count).collect()))
        .collect();
    counts.sort();
    let recorded = snap.panic_reasons.len();
    let verdict = normalise_verdict(verify_by(original, VerifyHow::Drop));
    (
        Final {
            counts,
            ordered_index: snap.ordered_index,
            verdict,
        },
        recorded,
    )
}

/// Run the scenario's calls sequentially in the given merge order (thread index per step).
fn run_sequential(sc: &Scenario, order: &[usize], model: &Model) -> Outcome {
    let original = build_mock(&sc.config);
    let names = unimock::verif::snapshot(&original);
    let clones: Vec<Unimock> = sc.threads.iter().map(|_| original.clone()).collect();
    let mut next = vec![0usize; sc.threads.len()];
    let mut per_thread = vec![vec![]; sc.threads.len()];
    for t in order {
        let (m, x) = sc.threads[*t][next[*t]];
        next[*t] += 1;
        let step = observe_call(&clones[*t], m, x);
        per_thread[*t].push(token_of(&step.obs, (m, x), &names, model));
    }
    drop(clones);
    let (fin, recorded_errors) = finalise(original);
    Outcome {
        per_thread,
        fin,
        recorded_errors,
    }
}

fn merge_orders(lens: &[usize]) -> Vec<Vec<usize>> {
    fn rec(rem: &mut Vec<usize>, cur: &mut Vec<usize>, out: &mut Vec<Vec<usize>>) {
        if rem.iter().all(|r| *r == 0) {
            out.push(cur.clone());
            return;
        }
        for t in 0..rem.len() {
            if rem[t] > 0 {
                rem[t] -= 1;
                cur.push(t);
                rec(rem, cur, out);
                cur.pop();
                rem[t] += 1;
            }
        }
    }
    let mut out = vec![];
    rec(&mut lens.to_vec(), &mut vec![], &mut out);
    out
}

/// Run the scenario concurrently under the scheduler with the given schedule prefix.
fn run_scheduled(sc: &Scenario, prefix: &[u8], model: &Model) -> (Outcome, Trace, bool) {
    let original = build_mock(&sc.config);
    let names = unimock::verif::snapshot(&original);
    let mut closures: Vec<Box<dyn FnOnce() -> Vec<Obs> + Send>> = vec![];
    let mut shared: Option<Arc<Unimock>> = None;
    let mut original_opt = Some(original);
    match sc.sharing {
        Sharing::Clones => {
            for calls in &sc.threads {
                let handle = original_opt.as_ref().unwrap().clone();
                let calls = calls.clone();
                closures.push(Box::new(move || {
                    calls
                        .iter()
                        .map(|(m, x)| observe_call(&handle, *m, *x).obs)
                        .collect()
                }));
            }
        }
        Sharing::SharedRef => {
            let arc = Arc::new(original_opt.take().unwrap());
            for calls in &sc.threads {
                let handle = arc.clone();
                let calls = calls.clone();
                closures.push(Box::new(move || {
                    let u: &Unimock = &handle;
                    calls
                        .iter()
                        .map(|(m, x)| observe_call(u, *m, *x).obs)
                        .collect()
                }));
            }
            shared = Some(arc);
        }
    }
    // the unbounded runs of the thorough tier switch threads before operations only; every bounded
    // run also after every atomic / cell operation
    let (results, trace) = run_once_with(prefix, closures, !sc.name.ends_with("/unbounded"));
    let mut aborted = false;
    let per_thread: Vec<Vec<Token>> = results
        .into_iter()
        .enumerate()
        .map(|(ti, r)| match r {
            Ok(obs) => obs.iter().zip(sc.threads[ti].iter()).map(|(o, c)| token_of(o, *c, &names, model)).collect(),
            Err(msg) => {
                if is_scheduler_abort(&msg) {
                    aborted = true;
                }
                vec![Token::Foreign(format!("thread died: {msg}"))]
            }
        })
        .collect();
    let original = match shared {
        Some(arc) => Arc::try_unwrap(arc).unwrap_or_else(|_| machinery("shared handle still alive after join")),
        None => original_opt.take().unwrap(),
    };
    let (fin, recorded_errors) = finalise(original);
    (
        Outcome {
            per_thread,
            fin,
            recorded_errors,
        },
        trace,
        aborted,
    )
}

/// Expected outcome tokens of positions 0..n of a pattern. None = not specified.
fn expected_tokens(id: PatId, p: &MPattern, n: usize) -> Option<Vec<Token>> {
    let mut out = vec![];
    let mut taken = vec![false; p.responders.len()];
    for k in 0..n {
        let ri = p.responders.iter().rposition(|r| r.start <= k)?;
        let r = &p.responders[ri];
        if !p.open_ended && k >= p.chain_end && !r.single_use {
            return None;
        }
        match r.resp {
            Resp::Ret(v) => {
                if r.single_use {
                    if taken[ri] {
                        out.push(Token::Exhausted(id));
                    } else {
                        taken[ri] = true;
                        out.push(Token::Value(v));
                    }
                } else {
                    out.push(Token::Value(v));
                }
            }
            Resp::AnsArc(v) | Resp::Ans(v) => out.push(Token::Value(v)),
            _ => return None,
        }
    }
    Some(out)
}

fn response_owner(model: &Model, v: u32) -> Option<PatId> {
    for (m, pats) in &model.methods {
        for (i, p) in pats.iter().enumerate() {
            if p.responders.iter().any(|r| matches!(r.resp, Resp::Ret(x) | Resp::Ans(x) | Resp::AnsArc(x) if x == v)) {
                return Some((*m, i));
            }
        }
    }
    None
}

struct Candidates {
    finals: BTreeSet<Final>,
    full: BTreeSet<(Vec<Vec<Token>>, Final)>,
}

fn check_outcome(
    sc: &Scenario,
    model: &Model,
    cands: &Candidates,
    out: &Outcome,
    trace: &Trace,
    aborted: bool,
) -> Result<bool, (&'static str, String)> {
    if trace.deadlock || aborted {
        return Err(("deadlock", "no enabled thread although some are unfinished".into()));
    }
    // (1) positions per pattern
    let mut handed: BTreeMap<PatId, Vec<Token>> = BTreeMap::new();
    for t in out.per_thread.iter().flatten() {
        match t {
            // the result of a default body (a call that no pattern answers): not a position
            Token::Value(v) if *v >= 700_000 => {}
            Token::Value(v) => match response_owner(model, *v) {
                Some(id) => handed.entry(id).or_default().push(t.clone()),
                None => return Err(("position", format!("value {v} belongs to no pattern"))),
            },
            Token::Exhausted(id) => handed.entry(*id).or_default().push(t.clone()),
            Token::Foreign(msg) => return Err(("position", format!("unexpected panic: {msg}"))),
            Token::Misattributed(what) => return Err(("message", what.clone())),
            Token::Panic(_) => {}
        }
    }
    for (m, pats) in &model.methods {
        for (i, p) in pats.iter().enumerate() {
            let id = (*m, i);
            let n = out
                .fin
                .counts
                .iter()
                .find(|(path, _)| path == m.path())
                .and_then(|(_, c)| c.get(i))
                .copied()
                .unwrap_or(usize::MAX);
            if n == usize::MAX {
                return Err(("position", format!("pattern {id:?} missing from the final snapshot")));
            }
            let mut got = handed.remove(&id).unwrap_or_default();
            got.sort();
            if let Some(mut want) = expected_tokens(id, p, n) {
                want.sort();
                if got != want {
                    return Err((
                        "position",
                        format!(
                            "pattern {id:?} counted {n} matches, so positions 1..{n} = {want:?} must have been handed out, but callers received {got:?}"
                        ),
                    ));
                }
            }
        }
    }
    // (2) ordered bookkeeping
    let ordered_methods: Vec<M> = model
        .methods
        .iter()
        .filter(|(_, p)| p[0].ordered)
        .map(|(m, _)| *m)
        .collect();
    let mut ordered_calls = 0;
    let mut accepted = 0;
    for (ti, calls) in sc.threads.iter().enumerate() {
        for (ci, (m, _)) in calls.iter().enumerate() {
            if ordered_methods.contains(m) {
                ordered_calls += 1;
                match out.per_thread[ti].get(ci) {
                    Some(Token::Panic(PanicClass::WrongOrder))
                    | Some(Token::Panic(PanicClass::OutOfRange))
                    | Some(Token::Panic(PanicClass::InputsNotMatched)) => {}
                    Some(_) => accepted += 1,
                    None => {}
                }
            }
        }
    }
    // (what a *rejected* ordered call does to the index is not specified: C04 stops at the first
    // deviation)
    if accepted == ordered_calls && out.fin.ordered_index != ordered_calls {
        return Err((
            "slots",
            format!(
                "{ordered_calls} calls were made to ordered methods but the global index is {}",
                out.fin.ordered_index
            ),
        ));
    }
    let ordered_count_sum: usize = model
        .methods
        .iter()
        .filter(|(_, p)| p[0].ordered)
        .map(|(m, _)| {
            out.fin
                .counts
                .iter()
                .find(|(path, _)| path == m.path())
                .map(|(_, c)| c.iter().sum::<usize>())
                .unwrap_or(0)
        })
        .sum();
    if ordered_count_sum != accepted {
        return Err((
            "slots",
            format!("{accepted} ordered calls were accepted but ordered patterns counted {ordered_count_sum}"),
        ));
    }
    // (3) final state and verdict equal those of some sequential execution
    if !cands.finals.contains(&out.fin) {
        return Err((
            "verdict",
            format!(
                "final counters / verdict {:?} equal those of no sequential execution of the same calls ({} candidates)",
                out.fin,
                cands.finals.len()
            ),
        ));
    }
    // diagnostic: full linearizability
    let linearizable = cands.full.contains(&(out.per_thread.clone(), out.fin.clone()));
    let _ = out.recorded_errors;
    Ok(linearizable)
}

fn schedule_json(sc: &Scenario, choices: &[u8]) -> J {
    J::obj()
        .set("scenario", sc.name.as_str())
        .set("config", sc.config.to_json())
        .set(
            "threads",
            J::Arr(
                sc.threads
                    .iter()
                    .map(|t| J::Arr(t.iter().map(|(m, x)| Call::new(*m, *x).to_json()).collect()))
                    .collect(),
            ),
        )
        .set("schedule", J::Arr(choices.iter().map(|c| J::from(*c)).collect()))
}

fn explore_scenario(ctx: &vh::explore::Ctx, sc: &Scenario, bound: Option<usize>, cap: u64) -> Stats {
    if std::env::var("VERIF_LOUD").is_ok() {
        eprintln!("scenario {} starts", sc.name);
    }
    let mut stats = Stats::default();
    let model = Model::build(&sc.config, true).unwrap_or_else(|e| machinery(&format!("{e:?}")));
    // candidate sequential executions
    let lens: Vec<usize> = sc.threads.iter().map(|t| t.len()).collect();
    let mut cands = Candidates {
        finals: BTreeSet::new(),
        full: BTreeSet::new(),
    };
    for order in merge_orders(&lens) {
        let o = run_sequential(sc, &order, &model);
        cands.finals.insert(o.fin.clone());
        cands.full.insert((o.per_thread, o.fin));
    }
    stats.add("sequential_candidates", cands.full.len() as u64);
    if std::env::var("VERIF_LOUD").is_ok() {
        eprintln!("scenario {}: {} sequential candidates", sc.name, cands.full.len());
    }

    let mut outcomes: BTreeSet<String> = BTreeSet::new();
    let mut non_linearizable = 0u64;
    let mut reported = false;
    let mut nodes = 0u64;
    let st = explore(
        bound,
        cap,
        |prefix| {
            ctx.tick();
            let (out, trace, aborted) = run_scheduled(sc, prefix, &model);
            nodes += (trace.points.len().saturating_sub(prefix.len()) + 1) as u64;
            outcomes.insert(format!("{:?}|{:?}", out.per_thread, out.fin.counts));
            match check_outcome(sc, &model, &cands, &out, &trace, aborted) {
                Ok(lin) => {
                    if !lin {
                        non_linearizable += 1;
                    }
                }
                Err((kind, what)) => {
                    if !reported {
                        // believe a failure only if it reproduces identically (twice)
                        let choices = trace.choices();
                        let (o2, t2, a2) = run_scheduled(sc, &choices, &model);
                        let (o3, t3, a3) = run_scheduled(sc, &choices, &model);
                        let same = |o: &Outcome, t: &Trace, a: bool| {
                            o.per_thread == out.per_thread
                                && o.fin == out.fin
                                && t.choices() == choices
                                && a == aborted
                        };
                        if !same(&o2, &t2, a2) || !same(&o3, &t3, a3) {
                            machinery(&format!(
                                "replay divergence in scenario {} for schedule {:?}",
                                sc.name, choices
                            ));
                        }
                        reported = true;
                        ctx.violation(
                            &format!("{}:{kind}", sc.name),
                            &format!(
                                "{kind} in scenario {} under schedule {:?} ({} preemptions): {what}",
                                sc.name,
                                choices,
                                trace.preemptions()
                            ),
                            schedule_json(sc, &choices),
                        );
                    }
                }
            }
            trace
        },
        || !ctx.stopped(),
    );
    if st.divergences > 0 {
        machinery(&format!("{} schedule divergences in scenario {}", st.divergences, sc.name));
    }
    stats.add("traces_validated_against_impl", st.executions);
    stats.add("transitions", st.choice_points);
    stats.add("states", nodes);
    stats.add("non_linearizable_notes", non_linearizable);
    stats.add("scenarios", 1);
    if st.capped {
        stats.add("capped_scenarios", 1);
    }
    stats.note("scenario_outcomes", format!("{}={}", sc.name, outcomes.len()));
    stats.add("distinct_outcome_tuples", outcomes.len() as u64);
    for (p, n) in &st.by_preemptions {
        stats.add(&format!("schedules_with_{p}_preemptions"), *n);
    }
    stats.sample(
        J::obj()
            .set("scenario", sc.name.as_str())
            .set("schedules", st.executions)
            .set("max_choice_points", st.max_points)
            .set("distinct_outcome_tuples", outcomes.len())
            .set("preemption_bound", match bound {
                Some(b) => J::from(b),
                None => J::from("unbounded"),
            })
            .set("completed", !st.capped),
    );
    stats
}

fn main() {
    vh::obs::silence_panics();
    let ctx: &'static vh::explore::Ctx = Box::leak(Box::new(vh::explore::Ctx::from_args("C10")));
    let quick = ctx.quick();
    let all = scenarios(quick);

    if let Some(replay) = &ctx.replay {
        let case = replay.get("case").unwrap_or(replay);
        let name = case.get("scenario").and_then(|s| s.as_str()).unwrap_or("");
        let sc = scenarios(false)
            .into_iter()
            .find(|s| s.name == name)
            .unwrap_or_else(|| machinery("unknown scenario in replay file"));
        let choices: Vec<u8> = case
            .get("schedule")
            .and_then(|s| s.as_arr())
            .map(|a| a.iter().filter_map(|x| x.as_i64()).map(|x| x as u8).collect())
            .unwrap_or_default();
        let model = Model::build(&sc.config, true).unwrap();
        let lens: Vec<usize> = sc.threads.iter().map(|t| t.len()).collect();
        let mut cands = Candidates {
            finals: BTreeSet::new(),
            full: BTreeSet::new(),
        };
        for order in merge_orders(&lens) {
            let o = run_sequential(&sc, &order, &model);
            cands.finals.insert(o.fin.clone());
            cands.full.insert((o.per_thread, o.fin));
        }
        let (out, trace, aborted) = run_scheduled(&sc, &choices, &model);
        println!("per-thread outcomes {:?}", out.per_thread);
        println!("final {:?}", out.fin);
        println!("operations {:?}", trace.ops);
        match check_outcome(&sc, &model, &cands, &out, &trace, aborted) {
            Ok(_) => {
                println!("replay: property holds on this schedule");
                std::process::exit(0);
            }
            Err((kind, what)) => {
                ctx.violation("replay", &format!("{kind}: {what}"), case.clone());
                std::process::exit(1);
            }
        }
    }

    ctx.watchdog(180, || J::Str("no progress in the C10 explorer".into()));
    // bounds: quick = preemption bound 2; thorough = bound 3 for everything, then unbounded
    // (capped) for the scenarios with two threads
    let mut jobs: Vec<(Scenario, Option<usize>, u64)> = vec![];
    for sc in &all {
        if quick {
            jobs.push((sc.clone(), Some(2), 200_000));
        } else {
            jobs.push((sc.clone(), Some(3), 2_000_000));
            if sc.threads.len() == 2 {
                jobs.push((
                    Scenario {
                        name: format!("{}/unbounded", sc.name),
                        ..sc.clone()
                    },
                    None,
                    3_000_000,
                ));
            }
        }
    }
    let parts = par_map(&jobs, |_, (sc, bound, cap)| explore_scenario(ctx, sc, *bound, *cap));
    let mut stats = Stats::default();
    for p in parts {
        stats.merge(p);
    }
    if stats.get("traces_validated_against_impl") < 100 || stats.get("distinct_outcome_tuples") <= stats.get("scenarios") {
        vacuous(&format!(
            "vacuous exploration: {} schedules, {} outcome tuples over {} scenarios",
            stats.get("traces_validated_against_impl"),
            stats.get("distinct_outcome_tuples"),
            stats.get("scenarios")
        ));
    }
    let mut cov = stats.to_json();
    cov.put("samples", J::Arr(stats.samples.clone()));
    cov.put("exhaustive", !ctx.stopped() && stats.get("capped_scenarios") == 0);
    cov.put(
        "scenario_outcomes",
        J::Arr(
            stats
                .sets
                .get("scenario_outcomes")
                .map(|s| s.iter().map(|x| J::from(x.as_str())).collect())
                .unwrap_or_default(),
        ),
    );
    cov.put(
        "bounds",
        J::obj()
            .set("preemption_bound_completed", if quick { J::from(2) } else { J::from("3 for all scenarios (scheduling points before and after every instrumented operation); unbounded for 2-thread scenarios (points before operations) unless listed under capped_scenarios") })
            .set("threads", "2-4")
            .set("calls_per_thread", "1-3")
            .set("scheduling_points", "every atomic load/store/rmw of the runtime's counters, every lock acquisition and release (hook H2)"),
    );
    ctx.finish(
        "model_checking",
        cov,
        &[
            "sequentially consistent interleavings only; weaker memory orderings and free-running stress are out of scope (DESIGN.md section 1)",
            "no partial-order reduction: states = nodes of the schedule tree visited, transitions = choice points executed, traces = complete schedules run on the real code",
            "scheduling points are those announced by the verification hooks; Arc reference counting and OnceCell internals are trusted (std / once_cell)",
        ],
    );
}

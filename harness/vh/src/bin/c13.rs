//! C13 – references lent by the mock stay valid, distinct and unmodified while borrowed.
//!
//! Engine S: every sequence up to a length bound over {make_ref<P1>, make_ref<P2>, borrowed
//! returns() call, answer using make_ref, provided method (value lent by the delegation helper),
//! make_mut<P1>, answer using make_mut} x {original, clone}; after every step every reference still
//! held is re-read (identity, contents) and addresses are pairwise distinct; drop counters: nothing
//! is dropped before its owning instance is torn down except what a make_mut on that instance
//! releases; everything is dropped exactly once at the end. Plus one long chain (4096 values).
//! Engine T: 2-3 threads pushing values through one shared &Unimock under the controlled scheduler.
//!
//! The harness reads held references through raw pointers so that references into one instance
//! can be kept across an exclusive operation on *another* instance; a pointer is discarded by the
//! harness exactly when the property says the value may be released.

use std::collections::{BTreeMap, BTreeSet};
use std::sync::atomic::{AtomicU32, Ordering};
use std::sync::{Arc, Mutex};

use unimock::*;
use vh::explore::*;
use vh::json::J;
use vh::obs::*;
use vh::sched::*;

const MAGIC: u64 = 0x5EED_CAFE_F00D_0001;

#[derive(Default, Debug)]
pub struct Ledger {
    next_id: AtomicU32,
    dropped: Mutex<Vec<u32>>,
}

impl Ledger {
    fn fresh(&self) -> u32 {
        self.next_id.fetch_add(1, Ordering::SeqCst) + 1
    }
    fn dropped(&self) -> BTreeMap<u32, usize> {
        let mut m = BTreeMap::new();
        for id in self.dropped.lock().unwrap().iter() {
            *m.entry(*id).or_insert(0) += 1;
        }
        m
    }
}

macro_rules! payload {
    ($name:ident) => {
        #[derive(Debug)]
        pub struct $name {
            pub id: u32,
            pub magic: u64,
            pub body: [u32; 4],
            ledger: Arc<Ledger>,
        }
        impl $name {
            fn new(ledger: &Arc<Ledger>) -> $name {
                let id = ledger.fresh();
                $name {
                    id,
                    magic: MAGIC,
                    body: [id, id ^ 1, id.wrapping_mul(3), !id],
                    ledger: ledger.clone(),
                }
            }
            fn intact(&self, id: u32) -> bool {
                self.id == id && self.magic == MAGIC && self.body == [id, id ^ 1, id.wrapping_mul(3), !id]
            }
        }
        impl Drop for $name {
            fn drop(&mut self) {
                self.ledger.dropped.lock().unwrap().push(self.id);
            }
        }
    };
}

payload!(P1);
payload!(P2);

#[unimock(api=LMock)]
pub trait L {
    fn lent(&self) -> &P1;
    fn ans(&self) -> &P1;
    fn prov(&self) -> &P1 {
        self.ans()
    }
    fn mans(&mut self) -> &mut P1;
    /// a provided method with an exclusive receiver (reaches the helper through AsMut)
    fn mprov(&mut self) -> u32 {
        5
    }
    /// the same with a pinned exclusive receiver
    fn pprov(self: core::pin::Pin<&mut Self>) -> u32 {
        6
    }
    /// answers with the number of lent values dropped so far
    fn probe(&self) -> u32;
    /// a provided method that takes the instance by value: the instance ends inside it, after its
    /// body has run
    fn fin(self) -> u32
    where
        Self: Sized,
    {
        self.probe()
    }
}

#[derive(Clone, Copy, Debug, PartialEq, Eq, PartialOrd, Ord, Hash)]
enum Op {
    Ref1,
    Ref2,
    Lent,
    Ans,
    Prov,
    Mut1,
    MAns,
    MProv,
    PProv,
}

const OPS: [Op; 9] = [Op::Ref1, Op::Ref2, Op::Lent, Op::Ans, Op::Prov, Op::Mut1, Op::MAns, Op::MProv, Op::PProv];

#[derive(Clone, Copy, Debug, PartialEq, Eq, PartialOrd, Ord, Hash)]
struct Step {
    op: Op,
    inst: u8,
}

/// Where a lent value lives.
#[derive(Clone, Copy, Debug, PartialEq, Eq, PartialOrd, Ord)]
enum Owner {
    /// value chain of instance i
    Chain(u8),
    /// value chain of the delegation helper inside instance i
    Helper(u8),
    /// the responder of the `lent` pattern (shared state)
    Shared,
}

#[derive(Clone, Copy, Debug)]
enum Ptr {
    P1(*const P1),
    P2(*const P2),
}

#[derive(Clone, Copy, Debug)]
struct Held {
    id: u32,
    owner: Owner,
    ptr: Ptr,
}

impl Held {
    fn addr(&self) -> usize {
        match self.ptr {
            Ptr::P1(p) => p as usize,
            Ptr::P2(p) => p as usize,
        }
    }
    /// Safety: only called while the property says the value is still lent.
    fn intact(&self) -> bool {
        unsafe {
            match self.ptr {
                Ptr::P1(p) => (*p).intact(self.id),
                Ptr::P2(p) => (*p).intact(self.id),
            }
        }
    }
}

fn ref_answer<F>(f: F) -> Arc<dyn for<'u> Fn(&'u Unimock) -> &'u P1 + Send + Sync>
where
    F: for<'u> Fn(&'u Unimock) -> &'u P1 + Send + Sync + 'static,
{
    Arc::new(f)
}

fn mut_answer<F>(f: F) -> Arc<dyn for<'u> Fn(&'u mut Unimock) -> &'u mut P1 + Send + Sync>
where
    F: for<'u> Fn(&'u mut Unimock) -> &'u mut P1 + Send + Sync + 'static,
{
    Arc::new(f)
}

fn build(ledger: &Arc<Ledger>) -> (Unimock, u32) {
    let lent_value = P1::new(ledger);
    let lent_id = lent_value.id;
    let l1 = ledger.clone();
    let l2 = ledger.clone();
    let l3 = ledger.clone();
    let u = Unimock::new((
        LMock::lent.each_call(matching!()).returns(lent_value),
        LMock::ans
            .each_call(matching!())
            .answers_arc(ref_answer(move |u| u.make_ref(P1::new(&l1)))),
        LMock::mans
            .each_call(matching!())
            .answers_arc(mut_answer(move |u| u.make_mut(P1::new(&l2)))),
        LMock::probe
            .each_call(matching!())
            .answers_arc(Arc::new(move |_: &Unimock| l3.dropped().len() as u32)),
    ));
    (u, lent_id)
}

/// No operation of the alphabet may panic (every call is answered, lending never fails).
fn run_sequence(steps: &[Step]) -> Result<String, String> {
    match catch(|| run_sequence_inner(steps)) {
        Ok(r) => r,
        Err(msg) => Err(format!("a lending operation panicked: {msg}")),
    }
}

fn run_sequence_inner(steps: &[Step]) -> Result<String, String> {
    let ledger = Arc::new(Ledger::default());
    let (original, lent_id) = build(&ledger);
    let mut insts: Vec<Quiet> = vec![Quiet::new(original)];
    let clone = Quiet::new(insts[0].clone());
    insts.push(clone);
    let mut held: Vec<Held> = vec![];
    let mut expected_dropped: BTreeSet<u32> = BTreeSet::new();
    let mut summary = String::new();

    for (si, st) in steps.iter().enumerate() {
        let i = st.inst as usize;
        let before = ledger.next_id.load(Ordering::SeqCst);
        let new_held: Option<Held> = match st.op {
            Op::Ref1 => {
                let r: &P1 = insts[i].make_ref(P1::new(&ledger));
                Some(Held { id: r.id, owner: Owner::Chain(st.inst), ptr: Ptr::P1(r) })
            }
            Op::Ref2 => {
                let r: &P2 = insts[i].make_ref(P2::new(&ledger));
                Some(Held { id: r.id, owner: Owner::Chain(st.inst), ptr: Ptr::P2(r) })
            }
            Op::Lent => {
                let r: &P1 = <Unimock as L>::lent(&insts[i]);
                Some(Held { id: r.id, owner: Owner::Shared, ptr: Ptr::P1(r) })
            }
            Op::Ans => {
                let r: &P1 = <Unimock as L>::ans(&insts[i]);
                Some(Held { id: r.id, owner: Owner::Chain(st.inst), ptr: Ptr::P1(r) })
            }
            Op::Prov => {
                let r: &P1 = <Unimock as L>::prov(&insts[i]);
                Some(Held { id: r.id, owner: Owner::Helper(st.inst), ptr: Ptr::P1(r) })
            }
            Op::MProv => {
                // an exclusive call that lends nothing and must release nothing
                let v = <Unimock as L>::mprov(&mut *insts[i]);
                if v != 5 {
                    return Err(format!("step {si}: provided method returned {v}"));
                }
                None
            }
            Op::PProv => {
                let v = <Unimock as L>::pprov(core::pin::Pin::new(&mut *insts[i]));
                if v != 6 {
                    return Err(format!("step {si}: pinned provided method returned {v}"));
                }
                None
            }
            Op::Mut1 | Op::MAns => {
                // exclusive access to instance i: every value of its own chain may be released
                for h in held.iter().filter(|h| h.owner == Owner::Chain(st.inst)) {
                    expected_dropped.insert(h.id);
                }
                held.retain(|h| h.owner != Owner::Chain(st.inst));
                let r: &mut P1 = if st.op == Op::Mut1 {
                    insts[i].make_mut(P1::new(&ledger))
                } else {
                    <Unimock as L>::mans(&mut *insts[i])
                };
                let id = r.id;
                if !r.intact(id) {
                    return Err(format!("step {si}: value behind the fresh &mut is corrupt"));
                }
                // write through the exclusive reference and read it back
                r.body[0] = id;
                Some(Held { id, owner: Owner::Chain(st.inst), ptr: Ptr::P1(r as *const P1) })
            }
        };
        let created = ledger.next_id.load(Ordering::SeqCst) - before;
        if let Some(h) = new_held {
            match st.op {
                Op::Lent => {
                    if created != 0 || h.id != lent_id {
                        return Err(format!("step {si}: borrowed returns() handed out value {} (configured: {lent_id}), {created} values created", h.id));
                    }
                }
                _ => {
                    if created != 1 || h.id != before + 1 {
                        return Err(format!("step {si}: {:?} handed back value {} but the value just lent is {}", st.op, h.id, before + 1));
                    }
                }
            }
            held.push(h);
        }
        // nothing but what exclusive operations released has been dropped
        let dropped = ledger.dropped();
        if dropped.values().any(|n| *n != 1) {
            return Err(format!("step {si}: a value was dropped more than once: {dropped:?}"));
        }
        let dropped_ids: BTreeSet<u32> = dropped.keys().copied().collect();
        // values released by an exclusive operation that the harness never held (the previous
        // make_mut value of that instance is held, so this only concerns nothing) must be a subset
        if !dropped_ids.is_subset(&expected_dropped) {
            return Err(format!(
                "step {si} ({st:?}): values {:?} were dropped while still lent (only {expected_dropped:?} may have been released)",
                dropped_ids.difference(&expected_dropped).collect::<Vec<_>>()
            ));
        }
        for h in &held {
            if dropped_ids.contains(&h.id) {
                return Err(format!("step {si}: value {} was dropped while a reference to it is held", h.id));
            }
        }
        // every reference still lent points at its own intact value
        for h in &held {
            if !h.intact() {
                return Err(format!("step {si} ({:?}): reference to value {} no longer reads its original contents", st, h.id));
            }
        }
        // distinct values live at distinct addresses
        let mut by_addr: BTreeMap<usize, u32> = BTreeMap::new();
        for h in &held {
            if let Some(other) = by_addr.insert(h.addr(), h.id) {
                if other != h.id {
                    return Err(format!("step {si}: values {other} and {} share an address", h.id));
                }
            }
        }
        summary.push(match st.op {
            Op::Ref1 => 'r',
            Op::Ref2 => 'R',
            Op::Lent => 'l',
            Op::Ans => 'a',
            Op::Prov => 'p',
            Op::Mut1 => 'm',
            Op::MAns => 'M',
            Op::MProv => 'x',
            Op::PProv => 'y',
        });
    }
    // tear down: clone first; its values (and its helper's) go, the original's stay
    let total = ledger.next_id.load(Ordering::SeqCst);
    let clone = insts.pop().unwrap();
    // (the way an instance ends is chosen by the sequence: all ways are met by many sequences)
    let way = steps.iter().enumerate().map(|(k, s)| (k + 1) * (s.op as usize * 2 + s.inst as usize + 1)).sum::<usize>();
    if way % 3 == 2 {
        // the clone ends inside a by-value provided method: while its body runs nothing the clone
        // lent has been dropped yet
        let seen = <Unimock as L>::fin(clone.take());
        if seen as usize != expected_dropped.len() {
            return Err(format!("a by-value provided method on the clone: its body saw {seen} dropped values, only the {} released by exclusive operations may be gone while the instance is alive", expected_dropped.len()));
        }
    } else {
        drop(clone);
    }
    let after_clone: BTreeSet<u32> = ledger.dropped().keys().copied().collect();
    for h in &held {
        let must_live = matches!(h.owner, Owner::Chain(0) | Owner::Helper(0) | Owner::Shared);
        if must_live && after_clone.contains(&h.id) {
            return Err(format!("dropping the clone dropped value {} owned by {:?}", h.id, h.owner));
        }
        if !must_live && !after_clone.contains(&h.id) {
            return Err(format!("dropping the clone did not drop its value {}", h.id));
        }
        if must_live && !h.intact() {
            return Err(format!("after dropping the clone value {} is corrupt", h.id));
        }
    }
    let original = insts.pop().unwrap();
    // the instance is finished by an explicit verify() for every other sequence (its verdict is
    // not the subject here: what it lent and what it was configured with is released all the same)
    let dropped_with_clone = ledger.dropped().len();
    match (way / 3) % 4 {
        1 => {
            let u = original.take();
            let _ = catch(move || u.verify());
        }
        #[cfg(feature = "std")]
        2 => {
            // finished the way the test harness finishes a `fn test() -> Unimock`
            let u = original.take();
            let _ = catch(move || std::process::Termination::report(u));
        }
        3 => {
            let u = original.take();
            match catch(move || <Unimock as L>::fin(u)) {
                Ok(seen) if seen as usize != dropped_with_clone => {
                    return Err(format!("a by-value provided method on the original: its body saw {seen} dropped values, {dropped_with_clone} were gone before the call"));
                }
                _ => {}
            }
        }
        _ => drop(original),
    }
    let dropped = ledger.dropped();
    if dropped.len() as u32 != total || dropped.values().any(|n| *n != 1) {
        return Err(format!("after teardown {} of {total} values were dropped (each exactly once expected): {dropped:?}", dropped.len()));
    }
    Ok(summary)
}


thread_local! {
    static Z_DROPS: std::cell::Cell<u32> = const { std::cell::Cell::new(0) };
}

/// A zero-sized lent value whose only observable is its `Drop`.
struct Z;

impl Drop for Z {
    fn drop(&mut self) {
        Z_DROPS.with(|c| c.set(c.get() + 1));
    }
}

/// Values of type-erased and other unusual types: what is lent is what was passed, whatever its type.
fn type_variety_cells(ctx: &vh::explore::Ctx, stats: &mut Stats) {
    use std::any::Any;
    type Erased = Box<dyn Any + Send + Sync>;
    let mut cell = |name: &str, r: Result<Result<(), String>, String>| {
        stats.add("traces_validated_against_impl", 1);
        stats.add("transitions", 2);
        stats.add("type_variety_cells", 1);
        let r = r.and_then(|r| r);
        if let Err(what) = r {
            ctx.violation(
                &format!("lent-type/{name}"),
                &format!("lent-type/{name}: {what}"),
                J::obj().set("type_cell", name),
            );
        }
    };
    for via_clone in [false, true] {
        for exclusive in [false, true] {
            let label = |t: &str| format!("{t}/{}/{}", if via_clone { "clone" } else { "original" }, if exclusive { "make_mut" } else { "make_ref" });
            macro_rules! lend {
                ($name:expr, $value:expr, $ty:ty, $check:expr) => {
                    cell(
                        &label($name),
                        catch(|| -> Result<(), String> {
                            let mut original = Quiet::new(Unimock::new(()));
                            let mut clone = Quiet::new(original.clone());
                            let inst: &mut Quiet = if via_clone { &mut clone } else { &mut original };
                            let first: &$ty = inst.make_ref($value);
                            let check: fn(&$ty) -> bool = $check;
                            if !check(first) {
                                return Err("the reference handed back by make_ref does not read the value that was lent".into());
                            }
                            if exclusive {
                                let second: &mut $ty = inst.make_mut($value);
                                if !check(second) {
                                    return Err("the reference handed back by make_mut does not read the value that was lent".into());
                                }
                            } else {
                                let second: &$ty = inst.make_ref($value);
                                if !check(second) || !check(first) || core::ptr::eq(first, second) {
                                    return Err("two values lent one after the other are not both intact and distinct".into());
                                }
                            }
                            drop(clone);
                            drop(original);
                            Ok(())
                        }),
                    );
                };
            }
            lend!("u8", 41u8, u8, |v| *v == 41);
            lend!("String", "forty-one".to_string(), String, |v| v == "forty-one");
            lend!("Box<u8>", Box::new(41u8), Box<u8>, |v| **v == 41);
            lend!("Arc<dyn Any>", std::sync::Arc::new(41u32) as std::sync::Arc<dyn Any + Send + Sync>, std::sync::Arc<dyn Any + Send + Sync>, |v| v.downcast_ref::<u32>() == Some(&41));
            lend!("Box<dyn Any>", Box::new(41u32) as Erased, Erased, |v| v.downcast_ref::<u32>() == Some(&41));
            lend!(
                "Box<dyn Any> holding a Box<dyn Any>",
                Box::new(Box::new(41u32) as Erased) as Erased,
                Erased,
                |v| v.downcast_ref::<Erased>().and_then(|inner| inner.downcast_ref::<u32>()) == Some(&41)
            );
            lend!("Option<Box<dyn Any>>", Some(Box::new(41u32) as Erased), Option<Erased>, |v| v.as_ref().and_then(|b| b.downcast_ref::<u32>()) == Some(&41));
        }
    }
}

/// Zero-sized values with drop glue: n0 lent by the original, n1 by a clone, optionally followed by
/// a `make_mut` on the original; dropped exactly once each, never before teardown (except what the
/// exclusive operation may release).
fn zst_cells(ctx: &vh::explore::Ctx, stats: &mut Stats) {
    for n0 in 0..4u32 {
        for n1 in 0..4u32 {
            for with_mut in [false, true] {
                let cell = format!("zst/{n0}-on-original/{n1}-on-clone/{}", if with_mut { "then-make_mut" } else { "refs-only" });
                stats.add("traces_validated_against_impl", 1);
                stats.add("transitions", (n0 + n1 + 3) as u64);
                stats.add("zst_cells", 1);
                let r = catch(|| -> Result<(), String> {
                    Z_DROPS.with(|c| c.set(0));
                    let mut original = Quiet::new(Unimock::new(()));
                    let clone = Quiet::new(original.clone());
                    for _ in 0..n0 {
                        let _: &Z = original.make_ref(Z);
                    }
                    for _ in 0..n1 {
                        let _: &Z = clone.make_ref(Z);
                    }
                    let drops = Z_DROPS.with(|c| c.get());
                    if drops != 0 {
                        return Err(format!("{drops} zero-sized values were dropped while still lent"));
                    }
                    let mut made0 = n0;
                    if with_mut {
                        let _: &mut Z = original.make_mut(Z);
                        made0 += 1;
                        let drops = Z_DROPS.with(|c| c.get());
                        if drops > n0 {
                            return Err(format!("make_mut on the original released {drops} values, it lent {n0} before"));
                        }
                    }
                    let before = Z_DROPS.with(|c| c.get());
                    drop(clone);
                    let after_clone = Z_DROPS.with(|c| c.get());
                    if after_clone - before != n1 {
                        return Err(format!("dropping the clone dropped {} of the {n1} zero-sized values it lent", after_clone - before));
                    }
                    drop(original);
                    let total = Z_DROPS.with(|c| c.get());
                    if total != made0 + n1 {
                        return Err(format!("after teardown {total} of {} zero-sized values were dropped (each exactly once expected)", made0 + n1));
                    }
                    Ok(())
                });
                let r = match r {
                    Ok(r) => r,
                    Err(msg) => Err(format!("a lending operation panicked: {msg}")),
                };
                if let Err(what) = r {
                    ctx.violation("zst", &format!("{cell}: {what}"), J::obj().set("zst_cell", cell.as_str()));
                }
            }
        }
    }
}

/// Instances that go away while their thread unwinds: what they lent is dropped exactly once all
/// the same (the original, a clone, and a clone with a delegation helper that lent a value).
fn unwind_cells(ctx: &vh::explore::Ctx, stats: &mut Stats) {
    for who in ["original", "clone", "clone-with-helper"] {
        for n in [1usize, 3] {
            let cell = format!("unwound/{who}/{n}-values");
            stats.add("traces_validated_against_impl", 1);
            stats.add("transitions", n as u64 + 2);
            stats.add("unwind_cells", 1);
            let ledger = Arc::new(Ledger::default());
            let (original, _) = build(&ledger);
            let l2 = ledger.clone();
            let r = catch(move || {
                let original = Quiet::new(original);
                let clone = Quiet::new(original.clone());
                let inst: &Unimock = if who == "original" { &original } else { &clone };
                for _ in 0..n {
                    let _: &P1 = inst.make_ref(P1::new(&l2));
                }
                if who == "clone-with-helper" {
                    let _: &P1 = <Unimock as L>::prov(inst);
                }
                // the clone is declared last, so it unwinds first; then the original
                panic!("user panic while values are lent");
            });
            if r.is_ok() {
                machinery("the unwinding cell did not panic");
            }
            let total = ledger.next_id.load(Ordering::SeqCst);
            let dropped = ledger.dropped();
            if dropped.len() as u32 != total || dropped.values().any(|k| *k != 1) {
                ctx.violation(
                    "unwound",
                    &format!("{cell}: after the instances were dropped by unwinding, {} of {total} lent / configured values were dropped (each exactly once expected): {dropped:?}", dropped.len()),
                    J::obj().set("unwind_cell", cell.as_str()),
                );
            }
        }
    }
}

/// `no_verify_in_drop()` is a configuration call: whatever the instance has lent so far (also through
/// its delegation helper) stays alive until the instance itself goes away.
fn config_call_cells(ctx: &vh::explore::Ctx, stats: &mut Stats) {
    for through in ["own-chain", "helper", "both"] {
        let cell = format!("no_verify_in_drop-after-lending/{through}");
        stats.add("traces_validated_against_impl", 1);
        stats.add("transitions", 4);
        stats.add("config_call_cells", 1);
        let ledger = Arc::new(Ledger::default());
        let (original, lent_id) = build(&ledger);
        let r = catch(|| -> Result<(), String> {
            if through != "helper" {
                let _: &P1 = original.make_ref(P1::new(&ledger));
            }
            if through != "own-chain" {
                let _: &P1 = <Unimock as L>::prov(&original);
            }
            let lent_so_far: Vec<u32> = (1..=ledger.next_id.load(Ordering::SeqCst)).filter(|id| *id != lent_id).collect();
            let original = original.no_verify_in_drop();
            let dropped = ledger.dropped();
            if let Some(id) = lent_so_far.iter().find(|id| dropped.contains_key(id)) {
                return Err(format!("no_verify_in_drop() dropped the lent value {id} although the instance is still alive"));
            }
            drop(original);
            let total = ledger.next_id.load(Ordering::SeqCst);
            let dropped = ledger.dropped();
            if dropped.len() as u32 != total || dropped.values().any(|k| *k != 1) {
                return Err(format!("after the instance was dropped, {} of {total} values were dropped (each exactly once expected)", dropped.len()));
            }
            Ok(())
        });
        let r = match r {
            Ok(r) => r,
            Err(msg) => Err(format!("panicked: {msg}")),
        };
        if let Err(what) = r {
            ctx.violation("config-call", &format!("{cell}: {what}"), J::obj().set("config_call_cell", cell.as_str()));
        }
    }
}

fn long_chain(n: usize, stack: usize) -> Result<(), String> {
    let r = std::thread::Builder::new()
        .stack_size(stack)
        .spawn(move || {
            let ledger = Arc::new(Ledger::default());
            let (u, _) = build(&ledger);
            let u = Quiet::new(u);
            let mut held: Vec<Held> = vec![];
            for k in 0..n {
                if k % 2 == 0 {
                    let r: &P1 = u.make_ref(P1::new(&ledger));
                    held.push(Held { id: r.id, owner: Owner::Chain(0), ptr: Ptr::P1(r) });
                } else {
                    let r: &P2 = u.make_ref(P2::new(&ledger));
                    held.push(Held { id: r.id, owner: Owner::Chain(0), ptr: Ptr::P2(r) });
                }
            }
            let addrs: BTreeSet<usize> = held.iter().map(|h| h.addr()).collect();
            if addrs.len() != n {
                return Err(format!("{n} values but {} distinct addresses", addrs.len()));
            }
            for h in &held {
                if !h.intact() {
                    return Err(format!("value {} corrupt in the long chain", h.id));
                }
            }
            if ledger.dropped().len() != 0 {
                return Err("values dropped while lent".to_string());
            }
            let total = ledger.next_id.load(Ordering::SeqCst);
            drop(u);
            let dropped = ledger.dropped();
            if dropped.len() as u32 != total || dropped.values().any(|c| *c != 1) {
                return Err(format!("{} of {total} values dropped after teardown", dropped.len()));
            }
            Ok(())
        })
        .unwrap()
        .join();
    match r {
        Ok(r) => r,
        Err(p) => Err(format!("long chain thread died: {}", payload_to_string(p))),
    }
}

// ---------------------------------------------------------------------------------------------
// concurrent pushes through a shared reference
// ---------------------------------------------------------------------------------------------

type TOut = Result<Vec<(u32, usize)>, String>;

fn t_once(n_threads: usize, pushes: usize, prefix: &[u8]) -> (Vec<TOut>, Result<(), String>, Trace) {
    let ledger = Arc::new(Ledger::default());
    let (u, _) = build(&ledger);
    let shared = Arc::new(u);
    let mut closures: Vec<Box<dyn FnOnce() -> TOut + Send>> = vec![];
    for t in 0..n_threads {
        let handle = shared.clone();
        let ledger = ledger.clone();
        closures.push(Box::new(move || {
            let u: &Unimock = &handle;
            let mut mine: Vec<Held> = vec![];
            for k in 0..pushes {
                if (t + k) % 2 == 0 {
                    let v = P1::new(&ledger);
                    let id = v.id;
                    let r: &P1 = u.make_ref(v);
                    if r.id != id {
                        return Err(format!("thread {t}: lent value {id} but got a reference to value {}", r.id));
                    }
                    mine.push(Held { id, owner: Owner::Chain(0), ptr: Ptr::P1(r) });
                } else {
                    let v = P2::new(&ledger);
                    let id = v.id;
                    let r: &P2 = u.make_ref(v);
                    if r.id != id {
                        return Err(format!("thread {t}: lent value {id} but got a reference to value {}", r.id));
                    }
                    mine.push(Held { id, owner: Owner::Chain(0), ptr: Ptr::P2(r) });
                }
                for h in &mine {
                    if !h.intact() {
                        return Err(format!("thread {t}: value {} corrupt after a later push", h.id));
                    }
                }
            }
            Ok(mine.iter().map(|h| (h.id, h.addr())).collect())
        }));
    }
    let (results, trace) = run_once(prefix, closures);
    let results: Vec<TOut> = results
        .into_iter()
        .map(|r| r.unwrap_or_else(|m| Err(format!("thread died: {m}"))))
        .collect();
    // after join
    let check = (|| {
        let u = Quiet::new(Arc::try_unwrap(shared).map_err(|_| "shared handle still alive".to_string())?);
        let len = unimock::verif::instance(&u).value_chain_len;
        if len != n_threads * pushes {
            return Err(format!("{} values were lent but the chain holds {len}", n_threads * pushes));
        }
        if !ledger.dropped().is_empty() {
            return Err(format!("values dropped while the instance is alive: {:?}", ledger.dropped()));
        }
        let mut addrs = BTreeSet::new();
        for r in &results {
            if let Ok(v) = r {
                for (_, a) in v {
                    addrs.insert(*a);
                }
            }
        }
        if addrs.len() != n_threads * pushes {
            return Err(format!("{} distinct addresses for {} values", addrs.len(), n_threads * pushes));
        }
        let total = ledger.next_id.load(Ordering::SeqCst);
        drop(u);
        let dropped = ledger.dropped();
        if dropped.len() as u32 != total || dropped.values().any(|c| *c != 1) {
            return Err(format!("{} of {total} values dropped exactly once after teardown", dropped.len()));
        }
        Ok(())
    })();
    (results, check, trace)
}

fn steps_json(s: &[Step]) -> J {
    J::Arr(s.iter().map(|s| J::from(format!("{:?}@{}", s.op, s.inst))).collect())
}

fn parse_steps(j: &J) -> Option<Vec<Step>> {
    j.as_arr()?
        .iter()
        .map(|x| {
            let s = x.as_str()?;
            let (op, inst) = s.split_once('@')?;
            let op = *OPS.iter().find(|o| format!("{o:?}") == op)?;
            Some(Step { op, inst: inst.parse().ok()? })
        })
        .collect()
}

/// Run a long chain in a child process (a stack overflow kills the process, not the explorer).
fn long_chain_child(n: usize, stack: usize) -> Result<(), String> {
    use std::os::unix::process::ExitStatusExt;
    let out = std::process::Command::new(std::env::current_exe().unwrap())
        .arg("--long-chain")
        .arg(n.to_string())
        .arg(stack.to_string())
        .output()
        .map_err(|e| format!("cannot spawn child: {e}"))?;
    if let Some(sig) = out.status.signal() {
        return Err(format!(
            "the process died by signal {sig} while lending / releasing {n} values on a {stack} byte stack: {}",
            String::from_utf8_lossy(&out.stderr).lines().last().unwrap_or("")
        ));
    }
    if !out.status.success() {
        return Err(String::from_utf8_lossy(&out.stdout).trim().to_string());
    }
    Ok(())
}

fn main() {
    let args: Vec<String> = std::env::args().collect();
    if args.len() == 4 && args[1] == "--long-chain" {
        silence_panics();
        let n: usize = args[2].parse().unwrap();
        let stack: usize = args[3].parse().unwrap();
        match long_chain(n, stack) {
            Ok(()) => std::process::exit(0),
            Err(what) => {
                println!("{what}");
                std::process::exit(3);
            }
        }
    }
    silence_panics();
    let ctx: &'static vh::explore::Ctx = Box::leak(Box::new(vh::explore::Ctx::from_args("C13")));
    if let Some(replay) = &ctx.replay {
        let case = replay.get("case").unwrap_or(replay);
        if let Some(steps) = case.get("steps").and_then(parse_steps) {
            match run_sequence(&steps) {
                Ok(s) => {
                    println!("replay: property holds ({s})");
                    std::process::exit(0);
                }
                Err(what) => {
                    ctx.violation("replay", &what, case.clone());
                    std::process::exit(1);
                }
            }
        }
        machinery("only sequential C13 cases can be replayed individually; re-run the check for the others");
    }
    let quick = ctx.quick() || ctx.variant != "std";
    // 9 operations x 2 instances: length 4 (quick) / 6 (thorough); thorough adds length 7 with
    // the last three steps on the original only
    let len = if quick { 4 } else { 6 };
    ctx.watchdog(180, || J::Str("no progress in the C13 explorer".into()));
    let mut alphabet = vec![];
    for op in OPS {
        for inst in 0..2u8 {
            alphabet.push(Step { op, inst });
        }
    }
    // partition by the first two steps for parallelism
    let heads = sequences(&alphabet, 2);
    let heads7: Vec<Vec<Step>> = if quick { vec![] } else { sequences(&alphabet, 4) };
    let parts = par_map(&heads, |_, head| {
        let mut st = Stats::default();
        for tail in sequences(&alphabet, len - 2) {
            if ctx.stopped() {
                break;
            }
            ctx.tick();
            let mut steps = head.clone();
            steps.extend(tail);
            st.add("traces_validated_against_impl", 1);
            st.add("transitions", steps.len() as u64);
            match run_sequence(&steps) {
                Ok(summary) => {
                    if st.set_len("shapes") < 5000 {
                        st.note("shapes", summary);
                    }
                }
                Err(what) => {
                    let kinds: BTreeSet<String> = steps.iter().map(|s| format!("{:?}", s.op)).collect();
                    ctx.violation(
                        &format!("sequence:{}", kinds.into_iter().collect::<Vec<_>>().join("+")),
                        &format!("sequence {}: {what}", steps_json(&steps).to_string()),
                        J::obj().set("steps", steps_json(&steps)),
                    );
                }
            }
        }
        st
    });
    let mut stats = Stats::default();
    for p in parts {
        stats.merge(p);
    }
    // thorough: length 7 = every 4 free steps followed by every 3 steps on the original
    let on_original: Vec<Step> = OPS.iter().map(|op| Step { op: *op, inst: 0 }).collect();
    let parts7 = par_map(&heads7, |_, head| {
        let mut st = Stats::default();
        for tail in sequences(&on_original, 3) {
            if ctx.stopped() {
                break;
            }
            ctx.tick();
            let mut steps = head.clone();
            steps.extend(tail);
            st.add("traces_validated_against_impl", 1);
            st.add("transitions", steps.len() as u64);
            if let Err(what) = run_sequence(&steps) {
                let kinds: BTreeSet<String> = steps.iter().map(|s| format!("{:?}", s.op)).collect();
                ctx.violation(
                    &format!("sequence:{}", kinds.into_iter().collect::<Vec<_>>().join("+")),
                    &format!("sequence {}: {what}", steps_json(&steps).to_string()),
                    J::obj().set("steps", steps_json(&steps)),
                );
            }
        }
        st
    });
    for p in parts7 {
        stats.merge(p);
    }
    stats.add("sequential_sequences", stats.get("traces_validated_against_impl"));
    zst_cells(ctx, &mut stats);
    type_variety_cells(ctx, &mut stats);
    unwind_cells(ctx, &mut stats);
    config_call_cells(ctx, &mut stats);
    // long chains at the stated bound
    // (thousands of values; small stacks make recursion in lending or releasing visible)
    for (n, stack) in [(1024usize, 64 * 1024usize), (4096, 64 * 1024), (4096, 2 * 1024 * 1024), (9000, 128 * 1024), (20000, 64 * 1024)] {
        stats.add("traces_validated_against_impl", 1);
        stats.add("transitions", n as u64);
        if let Err(what) = long_chain_child(n, stack) {
            ctx.violation("long-chain", &format!("{n} values on a {stack} byte stack: {what}"), J::obj().set("long_chain", n).set("stack", stack));
        }
    }
    // concurrent pushes
    if ctx.variant == "std" {
        let jobs: Vec<(usize, usize, usize)> = if quick {
            vec![(2, 1, 2), (2, 2, 2), (3, 1, 2)]
        } else {
            vec![(2, 1, 99), (2, 2, 4), (3, 1, 4), (3, 2, 2), (2, 3, 3)]
        };
        let parts = par_map(&jobs, |_, (threads, pushes, bound)| {
            let mut st = Stats::default();
            let mut reported = false;
            let mut orders = BTreeSet::new();
            let mut nodes = 0u64;
            let b = if *bound >= 99 { None } else { Some(*bound) };
            let ex = explore(
                b,
                1_500_000,
                |prefix| {
                    ctx.tick();
                    let (results, check, trace) = t_once(*threads, *pushes, prefix);
                    nodes += (trace.points.len().saturating_sub(prefix.len()) + 1) as u64;
                    // which thread's values sit where in address order is the observable outcome
                    let mut all: Vec<(usize, usize)> = vec![];
                    for (t, r) in results.iter().enumerate() {
                        if let Ok(v) = r {
                            all.extend(v.iter().map(|(id, _)| (*id as usize, t)));
                        }
                    }
                    all.sort();
                    orders.insert(format!("{:?}", all.iter().map(|(_, t)| *t).collect::<Vec<_>>()));
                    let failure = if trace.deadlock {
                        Some("deadlock".to_string())
                    } else if let Some(e) = results.iter().find_map(|r| r.as_ref().err()) {
                        Some(e.clone())
                    } else {
                        check.err()
                    };
                    if let Some(what) = failure {
                        if !reported {
                            reported = true;
                            ctx.violation(
                                &format!("concurrent:{threads}x{pushes}"),
                                &format!("{threads} threads x {pushes} make_ref on a shared &Unimock under schedule {:?}: {what}", trace.choices()),
                                J::obj().set("threads", *threads).set("pushes", *pushes).set("schedule", J::Arr(trace.choices().iter().map(|c| J::from(*c)).collect())),
                            );
                        }
                    }
                    trace
                },
                || !ctx.stopped(),
            );
            if ex.divergences > 0 {
                machinery("schedule divergence in the C13 exploration");
            }
            st.add("schedules", ex.executions);
            st.add("traces_validated_against_impl", ex.executions);
            st.add("transitions", ex.choice_points);
            st.add("states", nodes);
            st.add("t_scenarios", 1);
            st.add("distinct_interleaving_outcomes", orders.len() as u64);
            if ex.capped {
                st.add("capped_scenarios", 1);
            }
            st.sample(J::obj().set("concurrent", format!("{threads} threads x {pushes} pushes")).set("schedules", ex.executions).set("preemption_bound", if *bound >= 99 { J::from("unbounded") } else { J::from(*bound) }).set("distinct_creation_orders", orders.len()));
            st
        });
        for p in parts {
            stats.merge(p);
        }
        if stats.get("distinct_interleaving_outcomes") <= stats.get("t_scenarios") {
            vacuous("vacuous concurrent exploration in C13");
        }
    }
    if stats.set_len("shapes") < 50 {
        vacuous("vacuous sequential exploration in C13");
    }
    stats.add("states", stats.set_len("shapes") as u64);
    let mut cov = stats.to_json();
    let mut samples = stats.samples.clone();
    samples.push(J::obj().set("sequence", steps_json(&[Step { op: Op::Ref1, inst: 0 }, Step { op: Op::Prov, inst: 1 }, Step { op: Op::Mut1, inst: 0 }, Step { op: Op::Lent, inst: 0 }])));
    cov.put("samples", J::Arr(samples));
    cov.put("exhaustive", !ctx.stopped() && stats.get("capped_scenarios") == 0);
    cov.put(
        "bounds",
        J::obj()
            .set("sequence_length", len)
            .set("operations", "make_ref<P1>, make_ref<P2>, borrowed returns() call, answer using make_ref, provided method through the delegation helper, make_mut<P1>, answer using make_mut, &mut-receiver provided method; each on original or clone")
            .set("long_chains", "1024 .. 20000 values of alternating types on 64 KiB .. 2 MiB stacks, each in a child process (lending and releasing must need constant stack)")
            .set("concurrent", "2-3 threads x 1-3 make_ref on one shared &Unimock, all schedules at the OnceCell insertion points within the preemption bound"),
    );
    ctx.finish(
        "model_checking",
        cov,
        &[
            "memory safety itself is the compiler's (forbid(unsafe_code)); checked here: right value, unchanged contents, distinct addresses, drop exactly once and not early",
            "once_cell's own synchronisation is trusted; scheduling points are the announced insertion attempts",
        ],
    );
}

//! C08 – a mock-induced panic anywhere makes final verification fail with that error.
//!
//! Sequential half (engine S): histories over an alphabet with one call per reachable mock error
//! kind, per user-panic origin and accepted calls; each call issued on the original or a clone,
//! caught on the creator thread or propagated to the boundary of a thread spawned for it. After
//! dropping the clones, verifying the original must fail iff a mock-induced panic happened, with
//! the text of every such panic, in order; user panics leave the verdict to the counts.
//!
//! Concurrent half (engine T): 2-3 threads making panicking calls on clones under the controlled
//! scheduler, every schedule up to the preemption bound; same oracle after joining.

use std::collections::BTreeSet;

use unimock::Unimock;
use vh::engine_s::*;
use vh::explore::*;
use vh::json::J;
use vh::lockstep::*;
use vh::model::*;
use vh::obs::*;
use vh::sched::*;
use vh::spec::*;
use vh::universe::*;

fn seg(resp: Resp, quant: Quant) -> Seg {
    Seg { resp, quant }
}

fn pat(mask: u8, segs: Vec<Seg>) -> PatSpec {
    PatSpec { mask, segs }
}

fn config() -> Config {
    Config {
        partial: false,
        clauses: vec![
            ClauseSpec::Stub {
                m: M::A,
                pats: vec![
                    pat(1, vec![seg(Resp::Ret(100), Quant::Open)]),
                    pat(2, vec![seg(Resp::AnsArc(PANICKING_ANSWER_ID + 1), Quant::Open)]),
                    pat(4, vec![seg(Resp::Panics(5), Quant::Open)]),
                ],
            },
            ClauseSpec::Single {
                m: M::B,
                entry: Entry::SomeCall,
                pat: pat(7, vec![seg(Resp::Ret(200), Quant::Open)]),
            },
            ClauseSpec::Single {
                m: M::C,
                entry: Entry::NextCall,
                pat: pat(1, vec![seg(Resp::Ret(300), Quant::Open)]),
            },
            ClauseSpec::Single {
                m: M::E,
                entry: Entry::NextCall,
                pat: pat(7, vec![seg(Resp::Ret(301), Quant::Open)]),
            },
            ClauseSpec::Stub {
                m: M::Plain,
                pats: vec![
                    pat(1, vec![seg(Resp::Unmock, Quant::Open)]),
                    pat(2, vec![seg(Resp::DefaultImpl, Quant::Open)]),
                ],
            },
            ClauseSpec::Stub {
                m: M::Def,
                pats: vec![
                    pat(1, vec![]),
                    pat(MASK_NO_MATCHER_FN, vec![seg(Resp::Ret(400), Quant::Open)]),
                ],
            },
            ClauseSpec::Stub {
                m: M::Both,
                pats: vec![
                    pat(6, vec![seg(Resp::Unmock, Quant::Open)]),
                    pat(MASK_PANICKING_MATCHER, vec![seg(Resp::Ret(401), Quant::Open)]),
                ],
            },
        ],
    }
}

fn base_calls() -> Vec<(M, u8)> {
    vec![
        (M::A, 0),     // accepted
        (M::A, 1),     // user panic in the answer function
        (M::A, 2),     // explicit panics()
        (M::B, 0),     // single-use value: ok once, then "more than once"
        (M::C, 0),     // ordered: ok in slot 1, wrong order / out of range later
        (M::C, 1),     // ordered: inputs not matched in slot 1
        (M::E, 0),     // ordered: wrong order in slot 1, ok in slot 2
        (M::Plain, 0), // cannot unmock
        (M::Plain, 1), // no default impl
        (M::Plain, 2), // no matching call patterns
        (M::Unm, 0),   // no mock implementation
        (M::Def, 0),   // no output available
        (M::Def, 1),   // no matcher function
        (M::Both, 1),  // real function runs
        (M::Both, 2),  // user panic in the real function
        (M::Both, 0),  // user panic in a matcher
    ]
}

fn alphabet(routings: &[u8]) -> Vec<Call> {
    let mut out = vec![];
    for (m, x) in base_calls() {
        for via in routings {
            out.push(Call { m, x, via: *via });
        }
    }
    out
}

// ---------------------------------------------------------------------------------------------
// concurrent half
// ---------------------------------------------------------------------------------------------

struct TScenario {
    name: &'static str,
    threads: Vec<Vec<(M, u8)>>,
}

fn t_scenarios(quick: bool) -> Vec<TScenario> {
    let mut v = vec![
        TScenario {
            name: "2 threads x 1 panicking call",
            threads: vec![vec![(M::A, 2)], vec![(M::Plain, 2)]],
        },
        TScenario {
            name: "2 threads x 2 panicking calls",
            threads: vec![vec![(M::A, 2), (M::Unm, 0)], vec![(M::Plain, 0), (M::Def, 0)]],
        },
        TScenario {
            name: "3 threads x 1 panicking call",
            threads: vec![vec![(M::A, 2)], vec![(M::Plain, 2)], vec![(M::Unm, 0)]],
        },
        TScenario {
            name: "single-use race plus error",
            threads: vec![vec![(M::B, 0)], vec![(M::B, 1)], vec![(M::A, 2)]],
        },
    ];
    if !quick {
        v.push(TScenario {
            name: "3 threads x 2 panicking calls",
            threads: vec![
                vec![(M::A, 2), (M::Unm, 0)],
                vec![(M::Plain, 0), (M::Def, 0)],
                vec![(M::Plain, 1), (M::Def, 1)],
            ],
        });
        v.push(TScenario {
            name: "ordered deviations racing",
            threads: vec![vec![(M::E, 0), (M::C, 0)], vec![(M::C, 1)]],
        });
    }
    v
}

fn run_t(sc: &TScenario, prefix: &[u8]) -> (Vec<Vec<Obs>>, Vec<String>, Verdict, Trace) {
    let original = build_mock(&config());
    let mut closures: Vec<Box<dyn FnOnce() -> Vec<Obs> + Send>> = vec![];
    for calls in &sc.threads {
        let handle = original.clone();
        let calls = calls.clone();
        closures.push(Box::new(move || {
            set_user_panic_arg(Some(2));
            calls
                .iter()
                .map(|(m, x)| observe_call(&handle, *m, *x).obs)
                .collect()
        }));
    }
    // points after an operation: in every 2-thread scenario (3 threads: points before operations)
    let (results, trace) = run_once_with(prefix, closures, sc.threads.len() <= 2);
    let per_thread: Vec<Vec<Obs>> = results
        .into_iter()
        .map(|r| r.unwrap_or_else(|msg| vec![Obs::Panic(format!("thread died: {msg}"))]))
        .collect();
    let recorded = unimock::verif::snapshot(&original).panic_reasons;
    let verdict = verify_by(original, VerifyHow::Drop);
    (per_thread, recorded, verdict, trace)
}

/// The calls of `base_calls()` in which user code panics (answer function, real function, matcher).
const USER_PANIC_CALLS: [(M, u8); 3] = [(M::A, 1), (M::Both, 2), (M::Both, 0)];

fn check_t(sc: &TScenario, per_thread: &[Vec<Obs>], recorded: &[String], verdict: &Verdict, trace: &Trace) -> Result<(), String> {
    if trace.deadlock {
        return Err("deadlock: no enabled thread although some are unfinished".into());
    }
    // a call in which no user code panics either returns or raises a mock-induced panic: any other
    // panic comes from the mock itself and is recorded nowhere
    for (t, calls) in sc.threads.iter().enumerate() {
        for (k, call) in calls.iter().enumerate() {
            if let Some(Obs::Panic(msg)) = per_thread.get(t).and_then(|v| v.get(k)) {
                if classify(msg) == PanicClass::Other && !USER_PANIC_CALLS.contains(call) && !msg.starts_with("thread died") {
                    return Err(format!("call {call:?} of thread {t} panicked with a message that is neither a mock-induced error nor a user panic: {msg:?}"));
                }
            }
        }
    }
    let mut mock_msgs: Vec<Vec<String>> = vec![];
    for t in per_thread {
        let mut v = vec![];
        for o in t {
            if let Obs::Panic(msg) = o {
                if msg.starts_with("thread died") {
                    return Err(msg.clone());
                }
                if classify(msg) != PanicClass::Other {
                    v.push(msg.trim_end().to_string());
                }
            }
        }
        mock_msgs.push(v);
    }
    let total: usize = mock_msgs.iter().map(|v| v.len()).sum();
    if recorded.len() != total {
        return Err(format!(
            "{total} mock-induced panics happened but {} errors are recorded: {recorded:?}",
            recorded.len()
        ));
    }
    let Verdict::Failed(lines) = verdict else {
        return Err(format!("{total} mock-induced panics happened but verification was silent"));
    };
    let text = lines.join("\n");
    for msgs in &mock_msgs {
        // each thread's errors appear in its program order
        let mut from = 0;
        for msg in msgs {
            match text[from..].find(msg.as_str()) {
                Some(pos) => from += pos + msg.len(),
                None => {
                    return Err(format!(
                        "verification message lacks the error {msg:?} (in the program order of its thread); got {text:?}"
                    ))
                }
            }
        }
    }
    Ok(())
}

fn explore_t(ctx: &vh::explore::Ctx, sc: &TScenario, bound: usize, cap: u64) -> Stats {
    let mut stats = Stats::default();
    let mut outcomes: BTreeSet<String> = BTreeSet::new();
    let mut reported = false;
    let mut nodes = 0u64;
    let st = explore(
        Some(bound),
        cap,
        |prefix| {
            ctx.tick();
            let (per_thread, recorded, verdict, trace) = run_t(sc, prefix);
            nodes += (trace.points.len().saturating_sub(prefix.len()) + 1) as u64;
            outcomes.insert(format!("{recorded:?}"));
            if let Err(what) = check_t(sc, &per_thread, &recorded, &verdict, &trace) {
                if !reported {
                    let choices = trace.choices();
                    let (p2, r2, v2, t2) = run_t(sc, &choices);
                    if p2 != per_thread || r2 != recorded || v2 != verdict || t2.choices() != choices {
                        machinery(&format!("replay divergence in T scenario {}", sc.name));
                    }
                    reported = true;
                    ctx.violation(
                        &format!("concurrent:{}", sc.name),
                        &format!(
                            "scenario {:?} under schedule {choices:?} ({} preemptions): {what}",
                            sc.name,
                            trace.preemptions()
                        ),
                        J::obj()
                            .set("t_scenario", sc.name)
                            .set("schedule", J::Arr(choices.iter().map(|c| J::from(*c)).collect())),
                    );
                }
            }
            trace
        },
        || !ctx.stopped(),
    );
    if st.divergences > 0 {
        machinery("schedule divergence in C08 T exploration");
    }
    stats.add("schedules", st.executions);
    stats.add("traces_validated_against_impl", st.executions);
    stats.add("transitions", st.choice_points);
    stats.add("states", nodes);
    stats.add("t_scenarios", 1);
    stats.add("distinct_recorded_error_orders", outcomes.len() as u64);
    if st.capped {
        stats.add("capped_scenarios", 1);
    }
    stats.sample(
        J::obj()
            .set("t_scenario", sc.name)
            .set("schedules", st.executions)
            .set("preemption_bound", bound)
            .set("distinct_recorded_error_orders", outcomes.len())
            .set("completed", !st.capped),
    );
    stats
}

/// Mock-induced panics of zero-argument methods, raised through original / clone, caught or on
/// another thread: verification of the original must fail with their text.
fn zero_arg_cells(ctx: &vh::explore::Ctx, stats: &mut Stats) {
    use unimock::*;
    let kinds: [(&str, &str); 4] = [
        ("no-impl", "Z::ping(): No mock implementation found."),
        ("explicit", "Z::ping(): Explicit panic from"),
        ("wrong-order", "Z::ping(): Method matched in wrong order."),
        ("more-than-once", "Z::ping(): Cannot return value more than once"),
    ];
    for (kind, needle) in kinds {
        for via_clone in [false, true] {
            // without std a mock-induced panic on the original disables its verification (documented)
            if !via_clone && ctx.variant != "std" {
                continue;
            }
            for on_thread in [false, true] {
                let cell = format!("zero-arg/{kind}/{}/{}", if via_clone { "clone" } else { "original" }, if on_thread { "thread" } else { "caught" });
                let original = match kind {
                    "no-impl" => Unimock::new(()),
                    "explicit" => Unimock::new(ZMock::ping.each_call(matching!()).panics("zero")),
                    "wrong-order" => Unimock::new((
                        ZMock::pong.next_call(matching!()).returns(1u32),
                        ZMock::ping.next_call(matching!()).returns(2u32),
                    )),
                    _ => Unimock::new(ZMock::ping.some_call(matching!()).returns(3u32)),
                };
                let inst = if via_clone { original.clone() } else { original.clone() };
                let target: &Unimock = if via_clone { &inst } else { &original };
                if kind == "more-than-once" {
                    let _ = catch(|| <Unimock as Z>::ping(target));
                }
                let r = if on_thread {
                    std::thread::scope(|s| s.spawn(|| <Unimock as Z>::ping(target)).join()).map_err(payload_to_string)
                } else {
                    catch(|| <Unimock as Z>::ping(target))
                };
                drop(inst);
                stats.add("transitions", 1);
                stats.add("traces_validated_against_impl", 1);
                stats.add("zero_arg_cells", 1);
                let verdict = verify_by(original, VerifyHow::Drop);
                let ok_call = matches!(&r, Err(msg) if msg.contains(needle));
                let ok_verdict = matches!(&verdict, Verdict::Failed(lines) if lines.join("\n").contains(needle));
                if !ok_call || !ok_verdict {
                    ctx.violation(
                        &cell,
                        &format!("{cell}: the call gave {r:?}; verification of the original gave {verdict:?}; both must carry {needle:?}"),
                        vh::json::J::obj().set("zero_arg_cell", cell.as_str()),
                    );
                }
            }
        }
    }
}

/// Calls into the mock made by destructors: of a value the mock itself holds (released inside the
/// final verification), and of a guard that is dropped while its thread unwinds from a user panic.
/// The call is refused, the destructor swallows the panic; verifying the original reports it.
mod delegated {
    use unimock::*;

    #[unimock(api = DgMock)]
    pub trait Dg {
        fn dreq(&self, x: u8) -> u32;
        fn dprov(&self, x: u8) -> u32 {
            self.dreq(x) + 1
        }
        fn prov_mut(&mut self, x: u8) -> u32 {
            self.dreq(x) + 1
        }
        fn prov_pin(self: core::pin::Pin<&mut Self>, x: u8) -> u32 {
            self.dreq(x) + 1
        }
        fn big(&self, payload: Vec<u16>) -> u32;
    }
}

/// A mock error raised inside a default body (i.e. through the internal helper instance), and an
/// error whose text is long: both are remembered in full like any other.
fn delegated_and_long_cells(ctx: &vh::explore::Ctx, stats: &mut Stats) {
    use delegated::*;
    use unimock::*;
    let mut cell = |name: String, needle: &str, verdict: Verdict| {
        ctx.tick();
        stats.add("traces_validated_against_impl", 1);
        stats.add("transitions", 2);
        stats.add("delegated_and_long_cells", 1);
        let ok = matches!(&verdict, Verdict::Failed(lines) if lines.join("\n").contains(needle));
        if !ok {
            ctx.violation(
                &format!("delegated-or-long/{name}"),
                &format!("{name}: the swallowed mock error must be carried by the verification of the original in full ({} bytes, starting {:?}); verification gave {:?}", needle.len(), &needle[..needle.len().min(60)], verdict),
                vh::json::J::obj().set("cell", name.as_str()),
            );
        }
    };
    for receiver in 0..3usize {
        for via_clone in [false, true] {
            for on_thread in [false, true] {
                if on_thread && (!via_clone || ctx.variant != "std") {
                    continue;
                }
                let original = Unimock::new(DgMock::dreq.each_call(matching!(0)).returns(1u32));
                let _ = original.dreq(0);
                let act = move |mut u: Unimock| {
                    let _ = catch(std::panic::AssertUnwindSafe(|| match receiver {
                        0 => u.dprov(5),
                        1 => u.prov_mut(5),
                        _ => core::pin::Pin::new(&mut u).prov_pin(5),
                    }));
                    u
                };
                let original = if via_clone {
                    let c = original.clone();
                    if on_thread {
                        let _ = std::thread::spawn(move || drop(act(c))).join();
                    } else {
                        drop(act(c));
                    }
                    original
                } else {
                    act(original)
                };
                cell(
                    format!("error-inside-default-body/{}/{}{}", ["&self", "&mut self", "Pin<&mut Self>"][receiver], if via_clone { "clone" } else { "original" }, if on_thread { "/worker-thread" } else { "" }),
                    "Dg::dreq(5): No matching call patterns.",
                    verify_by(original, VerifyHow::Drop),
                );
            }
        }
    }
    for len in [8usize, 300, 2000] {
        let original = Unimock::new(DgMock::dreq.each_call(matching!(0)).returns(1u32));
        let _ = original.dreq(0);
        let payload: Vec<u16> = (0..len as u16).map(|k| 1000 + k).collect();
        // (in the no_std feature sets a mock error raised through the original itself switches its
        // verification off: there the call goes through a clone)
        let caller = if ctx.variant == "std" { None } else { Some(original.clone()) };
        let text = match catch(|| caller.as_ref().unwrap_or(&original).big(payload)) {
            Err(msg) => msg,
            Ok(v) => format!("UNEXPECTED VALUE {v}"),
        };
        drop(caller);
        cell(format!("long-error-text/{len}-elements"), text.trim_end(), verify_by(original, VerifyHow::Drop));
    }
}

fn destructor_cells(ctx: &vh::explore::Ctx, stats: &mut Stats) {
    use unimock::*;
    struct CallsOnDrop(Unimock);
    impl Drop for CallsOnDrop {
        fn drop(&mut self) {
            let _ = catch(|| <Unimock as A>::b(&self.0, 7));
        }
    }
    let needle = "A::b(7): No mock implementation found";
    let mut cell = |name: &str, verdict: Verdict| {
        stats.add("traces_validated_against_impl", 1);
        stats.add("transitions", 2);
        stats.add("destructor_cells", 1);
        let ok = matches!(&verdict, Verdict::Failed(lines) if lines.join("\n").contains(needle));
        if !ok {
            ctx.violation(
                &format!("destructor/{name}"),
                &format!("destructor/{name}: a destructor made the refused call A::b(7) and swallowed the panic; verification of the original gave {verdict:?}, it must carry {needle:?}"),
                vh::json::J::obj().set("destructor_cell", name),
            );
        }
    };
    // (1) the value sits in the original's own value chain and is released by its teardown
    for how in [VerifyHow::Drop, VerifyHow::Verify] {
        let original = Unimock::new(AMock::a.each_call(matching!(_)).returns(1u32));
        let _ = <Unimock as A>::a(&original, 0);
        let _lent: &CallsOnDrop = original.make_ref(CallsOnDrop(original.clone()));
        cell(&format!("lent-value-released-by-teardown/{how:?}"), verify_by(original, how));
    }
    if ctx.variant == "std" {
        // (2) a guard on a worker thread, dropped by the unwinding of a user panic
        let original = Unimock::new(AMock::a.each_call(matching!(_)).returns(1u32));
        let _ = <Unimock as A>::a(&original, 0);
        let clone = original.clone();
        let r = std::thread::spawn(move || {
            let _guard = CallsOnDrop(clone);
            panic!("user panic on the worker");
        })
        .join();
        assert!(r.is_err());
        cell("guard-dropped-while-unwinding/worker-thread", verify_by(original, VerifyHow::Drop));
        // (3) the same on the creator thread, contained by catch_unwind
        let original = Unimock::new(AMock::a.each_call(matching!(_)).returns(1u32));
        let _ = <Unimock as A>::a(&original, 0);
        let clone = original.clone();
        let r = catch(move || {
            let _guard = CallsOnDrop(clone);
            panic!("user panic");
        });
        assert!(r.is_err());
        cell("guard-dropped-while-unwinding/caught", verify_by(original, VerifyHow::Drop));
    }
}

/// Many mock-induced panics on one mock (more than any fixed small number): every one of them is
/// in the verification message, in the order in which they were raised.
fn many_errors_cells(ctx: &vh::explore::Ctx, stats: &mut Stats) {
    use unimock::*;
    for n in [9usize, 12, 40] {
        for routing in 0..3u8 {
            let cell = format!("many-errors/{n}/{}", ["original", "clone", "clone-on-thread"][routing as usize]);
            if routing == 0 && ctx.variant != "std" {
                continue;
            }
            stats.add("traces_validated_against_impl", 1);
            stats.add("transitions", n as u64);
            stats.add("many_errors_cells", 1);
            let original = Unimock::new(AMock::a.each_call(matching!(0)).returns(1u32));
            let clone = original.clone();
            let mut texts = vec![];
            for k in 0..n {
                let x = (k + 1) as u8;
                let r = match routing {
                    0 => catch(|| <Unimock as A>::a(&original, x)),
                    1 => catch(|| <Unimock as A>::a(&clone, x)),
                    _ => std::thread::scope(|s| s.spawn(|| <Unimock as A>::a(&clone, x)).join()).map_err(payload_to_string),
                };
                match r {
                    Err(msg) if msg.starts_with(&format!("A::a({x}): No matching call patterns")) => texts.push(msg),
                    other => {
                        ctx.violation(&cell, &format!("{cell}: call a({x}) gave {other:?}"), vh::json::J::obj().set("many_errors_cell", cell.as_str()));
                        return;
                    }
                }
            }
            drop(clone);
            let verdict = verify_by(original, VerifyHow::Drop);
            let ok = match &verdict {
                Verdict::Failed(lines) => {
                    let text = lines.join("\n");
                    let mut from = 0;
                    texts.iter().all(|t| match text[from..].find(t.trim_end()) {
                        Some(pos) => {
                            from += pos + t.trim_end().len();
                            true
                        }
                        None => false,
                    })
                }
                Verdict::Silent => false,
            };
            if !ok {
                ctx.violation(
                    &cell,
                    &format!("{cell}: {n} mock-induced panics were raised, the verification message does not contain all of them in order: {verdict:?}"),
                    vh::json::J::obj().set("many_errors_cell", cell.as_str()),
                );
            }
        }
    }
}

/// The verdict oracle, plus (std, histories of at most two calls): the same history verified through
/// `Termination::report()` gives FAILURE exactly when verification by drop / verify() fails.
fn c08_extra(case: &Case, history: &[Call], out: &RunOut) -> Result<(), (&'static str, String)> {
    verdict_extra(case, history, out)?;
    #[cfg(feature = "std")]
    if history.len() <= 2 {
        if let Some(verdict) = &out.verdict {
            let original = vh::spec::build_mock(&case.config);
            let n_clones = history.iter().map(|c| c.via & 0x7f).max().unwrap_or(0) as usize;
            let clones: Vec<unimock::Unimock> = (0..n_clones).map(|_| original.clone()).collect();
            for c in history {
                let inst = if c.via & 0x7f == 0 { &original } else { &clones[(c.via & 0x7f) as usize - 1] };
                if c.via & 0x80 != 0 {
                    let _ = observe_call_on_thread(inst, c.m, c.x);
                } else {
                    let _ = observe_call(inst, c.m, c.x);
                }
            }
            drop(clones);
            let failed = matches!(verdict, Verdict::Failed(_));
            match catch(move || std::process::Termination::report(original)) {
                Ok(code) => {
                    let is_failure = format!("{code:?}") == format!("{:?}", std::process::ExitCode::FAILURE);
                    if is_failure != failed {
                        return Err(("verdict-report()", format!("report() returned {code:?} but verification otherwise gave {verdict:?}")));
                    }
                }
                Err(msg) => return Err(("verdict-report()", format!("report() panicked: {msg}"))),
            }
        }
    }
    Ok(())
}

fn main() {
    silence_panics();
    set_user_panic_arg(Some(2));
    let ctx: &'static vh::explore::Ctx = Box::leak(Box::new(vh::explore::Ctx::from_args("C08")));
    let opts = RunOpts {
        has_mutex: !cfg!(feature = "nolock"),
        verify: Some(VerifyHow::Drop),
        ..RunOpts::default()
    };
    if let Some(replay) = &ctx.replay {
        let case = replay.get("case").unwrap_or(replay);
        if let Some(name) = case.get("t_scenario").and_then(|s| s.as_str()) {
            let sc = t_scenarios(false)
                .into_iter()
                .find(|s| s.name == name)
                .unwrap_or_else(|| machinery("unknown T scenario"));
            let choices: Vec<u8> = case
                .get("schedule")
                .and_then(|s| s.as_arr())
                .map(|a| a.iter().filter_map(|x| x.as_i64()).map(|x| x as u8).collect())
                .unwrap_or_default();
            let (per_thread, recorded, verdict, trace) = run_t(&sc, &choices);
            println!("per-thread {per_thread:?}\nrecorded {recorded:?}\nverdict {verdict:?}");
            match check_t(&sc, &per_thread, &recorded, &verdict, &trace) {
                Ok(()) => {
                    println!("replay: property holds on this schedule");
                    std::process::exit(0);
                }
                Err(what) => {
                    ctx.violation("replay", &what, case.clone());
                    std::process::exit(1);
                }
            }
        }
    }
    handle_replay(ctx, opts, &c08_extra);

    let quick = ctx.quick() || ctx.variant != "std";
    // worker threads of par_map need the user-panic switch too
    let cfg = config();
    let mut cases = vec![];
    let all_routes = [0u8, 1, 0x80, 0x81];
    let two_routes = [0u8, 0x81];
    cases.push(Case {
        label: "depth2/all-routings".into(),
        config: cfg.clone(),
        histories: HistGen::All {
            alphabet: alphabet(&all_routes),
            depth: 2,
        },
    });
    // deeper histories are split by their first call so that they run in parallel
    let (deep_routes, deep_depth): (&[u8], usize) = if quick { (&two_routes[..1], 3) } else { (&all_routes, 3) };
    for first in alphabet(deep_routes) {
        let alpha = alphabet(deep_routes);
        let mut hs = vec![];
        for rest in sequences(&alpha, deep_depth - 1) {
            let mut h = vec![first];
            h.extend(rest);
            hs.push(h);
        }
        cases.push(Case {
            label: format!("depth{deep_depth}/first={}", first.to_json().to_string()),
            config: cfg.clone(),
            histories: HistGen::List(hs),
        });
    }
    if !quick {
        for first in alphabet(&two_routes) {
            let alpha = alphabet(&two_routes);
            let mut hs = vec![];
            for rest in sequences(&alpha, 3) {
                let mut h = vec![first];
                h.extend(rest);
                hs.push(h);
            }
            cases.push(Case {
                label: format!("depth4/first={}", first.to_json().to_string()),
                config: cfg.clone(),
                histories: HistGen::List(hs),
            });
        }
    }
    ctx.watchdog(180, || J::Str("no progress in the C08 explorer".into()));
    let parts = par_map(&cases, |_, case| {
        set_user_panic_arg(Some(2));
        explore_case(ctx, case, opts, &c08_extra)
    });
    let mut stats = Stats::default();
    for p in parts {
        stats.merge(p);
    }
    // the same depth-2 space on a mock configured with no_verify_in_drop() from the start and
    // verified by an explicit verify(): the errors are remembered all the same
    let opts_nv = RunOpts {
        no_verify_in_drop_first: true,
        verify: Some(VerifyHow::Verify),
        ..opts
    };
    let nv_cases: Vec<Case> = cases
        .iter()
        .take(1)
        .map(|c| Case {
            label: format!("no_verify_in_drop-first/{}", c.label),
            config: c.config.clone(),
            histories: HistGen::All {
                alphabet: alphabet(&all_routes),
                depth: 2,
            },
        })
        .collect();
    let parts = par_map(&nv_cases, |_, case| {
        set_user_panic_arg(Some(2));
        explore_case(ctx, case, opts_nv, &c08_extra)
    });
    for p in parts {
        stats.merge(p);
    }
    many_errors_cells(ctx, &mut stats);
    destructor_cells(ctx, &mut stats);
    delegated_and_long_cells(ctx, &mut stats);
    guard(&stats, 12, true);
    let s_traces = stats.get("traces_validated_against_impl");

    // concurrent half (std build only: the scheduler needs the hook-instrumented std mutex)
    if ctx.variant == "std" {
        let bound = if quick { 2 } else { 3 };
        let scs = t_scenarios(quick);
        let parts = par_map(&scs, |_, sc| {
            set_user_panic_arg(Some(2));
            explore_t(ctx, sc, bound, 1_500_000)
        });
        for p in parts {
            stats.merge(p);
        }
    }
    // methods without arguments: every error kind that renders the call must be recorded as well
    zero_arg_cells(ctx, &mut stats);
    let mut cov = coverage(
        ctx,
        &stats,
        J::obj()
            .set("sequential", format!("all histories of depth 2 over 16 calls x 4 routings; depth {deep_depth} with {} routing(s); depth 4 with 2 routings in the thorough tier", deep_routes.len()))
            .set("error_kinds", "no mock implementation, no matching pattern, wrong order, inputs not matched in order, out of range, value more than once, explicit panics(), cannot unmock, no default impl, no output, no matcher function")
            .set("user_panic_origins", "answer function, matcher, real function")
            .set("routings", "original / clone x caught on the creator thread / propagated to the boundary of a spawned thread")
            .set("concurrent", "2-3 threads x 1-2 panicking calls on clones, all schedules within the preemption bound (quick 2, thorough 3)"),
    );
    cov.put("sequential_histories", s_traces);
    cov.put("exhaustive", !ctx.stopped() && stats.get("capped_scenarios") == 0);
    ctx.finish(
        "model_checking",
        cov,
        &[
            "a panic is mock-induced iff the reference model predicts one of unimock's call-time errors for that call",
            "without std only errors induced through clones are covered (a mock-induced panic on the original disables its verification there, as documented)",
            "concurrent half: sequentially consistent interleavings at hook-announced scheduling points",
        ],
    );
}

//! C02 – the k-th match of a pattern yields the response its quantifier chain assigns.
//!
//! Engine S: one catch-all pattern; every chain of up to N segments over all response kinds and
//! quantifiers (including zero counts), in every entry form (some_call, each_call, next_call,
//! stub), on a method with / without real function and default body; match counts from 0 to beyond
//! the chain's end; every routing of the first calls over {original, clone}.

use vh::engine_s::*;
use vh::explore::*;
use vh::json::J;
use vh::lockstep::*;
use vh::model::{PanicClass, Pred};
use vh::spec::*;
use vh::universe::*;

#[derive(Clone, Copy, Debug, PartialEq, Eq)]
enum EntryForm {
    Some,
    Each,
    Next,
    Stub,
}


fn resp_kinds(seg_index: usize) -> Vec<Resp> {
    let id = 100 + 10 * seg_index as u32;
    vec![
        Resp::Ret(id),
        Resp::RetDefault,
        Resp::Ans(id + 1),
        Resp::AnsArc(id + 2),
        Resp::Panics(id + 3),
        Resp::Unmock,
        Resp::DefaultImpl,
    ]
}

fn chains(max_segs: usize, ordered: bool) -> Vec<Vec<Seg>> {
    let inner = [Quant::Once, Quant::N(0), Quant::N(1), Quant::N(2), Quant::N(3)];
    let mut last = inner.to_vec();
    last.push(Quant::Open);
    if !ordered {
        last.extend([Quant::AtLeast(0), Quant::AtLeast(1), Quant::AtLeast(2)]);
    }
    let mut out = vec![];
    let mut prefixes: Vec<Vec<Seg>> = vec![vec![]];
    for n in 1..=max_segs {
        // chains of exactly n segments = prefixes of n-1 inner segments + one last segment
        for p in &prefixes {
            for resp in resp_kinds(n - 1) {
                for q in &last {
                    let mut c = p.clone();
                    c.push(Seg { resp, quant: *q });
                    out.push(c);
                }
            }
        }
        if n < max_segs {
            let mut next = vec![];
            for p in &prefixes {
                for resp in resp_kinds(n - 1) {
                    for q in &inner {
                        let mut c = p.clone();
                        c.push(Seg { resp, quant: *q });
                        next.push(c);
                    }
                }
            }
            prefixes = next;
        }
    }
    out
}

fn total(chain: &[Seg]) -> usize {
    chain
        .iter()
        .map(|s| match s.quant {
            Quant::Once => 1,
            Quant::N(n) | Quant::AtLeast(n) => n,
            Quant::Open => 0,
        })
        .sum()
}

/// C02 covers which response a counted match receives. Calls that are rejected before a pattern is
/// selected (ordered out-of-range) belong to C04.
fn c02_scope(p: &Pred) -> bool {
    !matches!(
        p,
        Pred::MockPanic(PanicClass::OutOfRange, _)
            | Pred::MockPanic(PanicClass::WrongOrder, _)
            | Pred::MockPanic(PanicClass::InputsNotMatched, _)
    )
}

fn main() {
    vh::obs::silence_panics();
    let ctx: &'static vh::explore::Ctx = Box::leak(Box::new(vh::explore::Ctx::from_args("C02")));
    let opts = RunOpts {
        has_mutex: !cfg!(feature = "nolock"),
        in_scope: c02_scope,
        ..RunOpts::default()
    };
    handle_replay(ctx, opts, &no_extra);

    let nostd = ctx.variant != "std";
    let max_segs = if ctx.quick() || nostd { 2 } else { 3 };
    let routing_depth = if ctx.quick() { 3 } else { 6 };
    let mut cases = vec![];
    for m in [M::Both, M::Plain] {
        for form in [EntryForm::Some, EntryForm::Each, EntryForm::Next, EntryForm::Stub] {
            for chain in chains(max_segs, form == EntryForm::Next) {
                let pat = PatSpec {
                    mask: 7,
                    segs: chain.clone(),
                };
                let clause = match form {
                    EntryForm::Some => ClauseSpec::Single {
                        m,
                        entry: Entry::SomeCall,
                        pat,
                    },
                    EntryForm::Each => ClauseSpec::Single {
                        m,
                        entry: Entry::EachCall,
                        pat,
                    },
                    EntryForm::Next => ClauseSpec::Single {
                        m,
                        entry: Entry::NextCall,
                        pat,
                    },
                    EntryForm::Stub => ClauseSpec::Stub { m, pats: vec![pat] },
                };
                let kmax = (total(&chain) + 2).max(3);
                // one long history through the original covers every k; all routings of the first
                // calls over {original, clone 1} cover "counted over the original and all clones"
                let mut histories = vec![(0..kmax)
                    .map(|i| Call::new(m, (i % 3) as u8))
                    .collect::<Vec<_>>()];
                let r = routing_depth.min(kmax);
                for bits in 1u32..(1 << r) {
                    histories.push(
                        (0..r)
                            .map(|i| Call {
                                m,
                                x: (i % 3) as u8,
                                via: ((bits >> i) & 1) as u8,
                            })
                            .collect(),
                    );
                }
                if form == EntryForm::Next {
                    // the same chain on a pattern that accepts only argument 0: a call with another
                    // argument in between is refused (it is not a match: it takes no response of
                    // the chain); the matches after it get the responses of their own positions
                    let picky = ClauseSpec::Single {
                        m,
                        entry: Entry::NextCall,
                        pat: PatSpec {
                            mask: 1,
                            segs: chain.clone(),
                        },
                    };
                    let c = |x: u8| Call::new(m, x);
                    cases.push(Case {
                        label: format!("{}/{form:?}-refusal-in-between/segs{}", m.name(), chain.len()),
                        config: Config {
                            partial: false,
                            clauses: vec![picky],
                        },
                        histories: HistGen::List(vec![
                            vec![c(0), c(1), c(0), c(0), c(0)],
                            vec![c(1), c(0), c(0), c(0)],
                            vec![c(0), c(0), c(2), c(0), c(0)],
                        ]),
                    });
                    // the same chain behind another ordered clause: its range does not start at
                    // global slot 0 (one accepted call to O::e comes first)
                    let lead = ClauseSpec::Single {
                        m: M::E,
                        entry: Entry::NextCall,
                        pat: PatSpec {
                            mask: 7,
                            segs: vec![Seg {
                                resp: Resp::Ret(900),
                                quant: Quant::N(2),
                            }],
                        },
                    };
                    let mut shifted: Vec<Vec<Call>> = vec![];
                    for h in histories.iter().take(1 + 3) {
                        let mut s = vec![Call::new(M::E, 0), Call::new(M::E, 1)];
                        s.extend(h.iter().cloned());
                        shifted.push(s);
                    }
                    cases.push(Case {
                        label: format!("{}/{form:?}-shifted/segs{}", m.name(), chain.len()),
                        config: Config {
                            partial: false,
                            clauses: vec![lead, clause.clone()],
                        },
                        histories: HistGen::List(shifted),
                    });
                }
                cases.push(Case {
                    label: format!("{}/{form:?}/segs{}", m.name(), chain.len()),
                    config: Config {
                        partial: false,
                        clauses: vec![clause],
                    },
                    histories: HistGen::List(histories),
                });
            }
        }
    }
    ctx.watchdog(120, || J::Str("no progress in the C02 explorer".into()));
    let mut stats = explore_cases(ctx, &cases, opts, &no_extra);
    guard(&stats, 6, true);
    // single-use vs repeatable responses of composite output types
    if ctx.variant == "std" {
        vh::composite::cells(ctx, &mut stats);
    }
    let cov = coverage(
        ctx,
        &stats,
        J::obj()
            .set("segments_max", max_segs)
            .set("response_kinds", "returns, returns_default, answers, answers_arc, panics, applies_unmocked, applies_default_impl")
            .set("quantifiers", "once, n_times(0..3), at_least_times(0..2) (last, unordered), unquantified (last)")
            .set("entry_forms", "some_call, each_call, next_call, stub")
            .set("methods", "F::both (real fn + default body), F::plain (neither)")
            .set("match_counts", "0 .. sum of counts + 2")
            .set("routing", format!("all assignments of the first {routing_depth} calls to {{original, clone}}")),
    );
    ctx.finish(
        "model_checking",
        cov,
        &[
            "reference model of DESIGN.md section 0.1 is the oracle",
            "which response a match beyond the end of an exactly quantified chain receives is not specified and not compared (only its counting is)",
            "repeat counts above 3 and chains longer than the bound are not covered",
        ],
    );
}

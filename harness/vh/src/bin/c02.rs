//! C02 – the k-th match of a pattern yields the response its quantifier chain assigns.
//!
//! Engine S: one catch-all pattern; every chain of up to N segments over all response kinds and
//! quantifiers (including zero counts), in every entry form (some_call, each_call, next_call,
//! stub), on a method with / without real function and default body; match counts from 0 to beyond
//! the chain's end; every routing of the first calls over {original, clone}.

use vh::engine_s::*;
use vh::explore::*;
use vh::json::J;
use vh::lockstep::*;
use vh::model::{PanicClass, Pred};
use vh::spec::*;
use vh::universe::*;

#[derive(Clone, Copy, Debug, PartialEq, Eq)]
enum EntryForm {
    Some,
    Each,
    Next,
    Stub,
}


// ---------------------------------------------------------------------------------------------
// Composite outputs: single-use vs repeatable responses beyond plain integers
// ---------------------------------------------------------------------------------------------

mod composite {
    use core::task::Poll;
    use unimock::*;
    use vh::explore::{Ctx, Stats};
    use vh::obs::{catch, Quiet};

    #[unimock(api = CompMock)]
    pub trait Comp {
        fn opt(&self) -> Option<u32>;
        fn res(&self) -> Result<u32, u32>;
        fn vecs(&self) -> Vec<u32>;
        fn optres(&self) -> Option<Result<&u32, u32>>;
        fn poll(&self) -> Poll<Result<&u32, u32>>;
        fn tup(&self) -> (u32, &u32);
        fn text(&self) -> String;
    }

    /// One method with a value that contains an owned leaf: how to configure it through a path,
    /// and how to request it (rendered for comparison).
    macro_rules! cells_for {
        ($ctx:expr, $stats:expr, $name:literal, $f:ident, $value:expr) => {{
            for path in ["some", "some-once", "next", "each", "some-2x", "stub"] {
                let built = catch(|| match path {
                    "some" => Unimock::new(CompMock::$f.some_call(matching!()).returns($value)),
                    "some-once" => Unimock::new(CompMock::$f.some_call(matching!()).returns($value).once()),
                    "next" => Unimock::new(CompMock::$f.next_call(matching!()).returns($value)),
                    "each" => Unimock::new(CompMock::$f.each_call(matching!()).returns($value)),
                    "some-2x" => Unimock::new(CompMock::$f.some_call(matching!()).returns($value).n_times(2)),
                    _ => Unimock::new(CompMock::$f.stub(|each| {
                        each.call(matching!()).returns($value);
                    })),
                });
                let cell = format!("composite/{}/{}", $name, path);
                $stats.add("composite_cells", 1);
                $stats.add("traces_validated_against_impl", 1);
                let u = match built {
                    Ok(u) => Quiet::new(u.no_verify_in_drop()),
                    Err(msg) => {
                        $ctx.violation(&cell, &format!("{cell}: construction panicked: {msg}"), vh::json::J::obj().set("composite_cell", cell.as_str()));
                        continue;
                    }
                };
                let want = format!("{:?}", $value);
                // number of requests that must yield the configured value; the next one must panic
                // for a single-use path and yield the value again for a repeatable one
                let single_use = matches!(path, "some" | "some-once" | "next");
                for k in 0..3 {
                    $stats.add("transitions", 1);
                    let got = catch(|| format!("{:?}", <Unimock as Comp>::$f(&u)));
                    let ok = match (&got, single_use, k) {
                        (Ok(v), _, 0) => *v == want,
                        (Ok(_), true, _) => false,
                        (Err(msg), true, _) => msg.contains("Comp::"),
                        (Ok(v), false, _) => *v == want,
                        (Err(_), false, _) => false,
                    };
                    if !ok {
                        $ctx.violation(
                            &cell,
                            &format!("{cell}: request {} gave {got:?}; configured value {want}, {}", k + 1, if single_use { "single-use: only the first request may yield it, later ones must panic" } else { "repeatable: every request yields it" }),
                            vh::json::J::obj().set("composite_cell", cell.as_str()),
                        );
                        break;
                    }
                }
            }
        }};
    }

    pub fn cells(ctx: &Ctx, stats: &mut Stats) {
        cells_for!(ctx, stats, "Option<u32>/Some", opt, Some(7u32));
        cells_for!(ctx, stats, "Result<u32,u32>/Ok", res, Ok::<u32, u32>(7));
        cells_for!(ctx, stats, "Result<u32,u32>/Err", res, Err::<u32, u32>(8));
        cells_for!(ctx, stats, "Vec<u32>", vecs, vec![1u32, 2, 3]);
        cells_for!(ctx, stats, "Option<Result<&u32,u32>>/SomeErr", optres, Some(Err::<u32, u32>(9)));
        cells_for!(ctx, stats, "Poll<Result<&u32,u32>>/ReadyErr", poll, Poll::Ready(Err::<u32, u32>(9)));
        cells_for!(ctx, stats, "(u32,&u32)", tup, (4u32, 5u32));
        cells_for!(ctx, stats, "String", text, String::from("s"));
    }
}

fn resp_kinds(seg_index: usize) -> Vec<Resp> {
    let id = 100 + 10 * seg_index as u32;
    vec![
        Resp::Ret(id),
        Resp::RetDefault,
        Resp::Ans(id + 1),
        Resp::AnsArc(id + 2),
        Resp::Panics(id + 3),
        Resp::Unmock,
        Resp::DefaultImpl,
    ]
}

fn chains(max_segs: usize, ordered: bool) -> Vec<Vec<Seg>> {
    let inner = [Quant::Once, Quant::N(0), Quant::N(1), Quant::N(2), Quant::N(3)];
    let mut last = inner.to_vec();
    last.push(Quant::Open);
    if !ordered {
        last.extend([Quant::AtLeast(0), Quant::AtLeast(1), Quant::AtLeast(2)]);
    }
    let mut out = vec![];
    let mut prefixes: Vec<Vec<Seg>> = vec![vec![]];
    for n in 1..=max_segs {
        // chains of exactly n segments = prefixes of n-1 inner segments + one last segment
        for p in &prefixes {
            for resp in resp_kinds(n - 1) {
                for q in &last {
                    let mut c = p.clone();
                    c.push(Seg { resp, quant: *q });
                    out.push(c);
                }
            }
        }
        if n < max_segs {
            let mut next = vec![];
            for p in &prefixes {
                for resp in resp_kinds(n - 1) {
                    for q in &inner {
                        let mut c = p.clone();
                        c.push(Seg { resp, quant: *q });
                        next.push(c);
                    }
                }
            }
            prefixes = next;
        }
    }
    out
}

fn total(chain: &[Seg]) -> usize {
    chain
        .iter()
        .map(|s| match s.quant {
            Quant::Once => 1,
            Quant::N(n) | Quant::AtLeast(n) => n,
            Quant::Open => 0,
        })
        .sum()
}

/// C02 covers which response a counted match receives. Calls that are rejected before a pattern is
/// selected (ordered out-of-range) belong to C04.
fn c02_scope(p: &Pred) -> bool {
    !matches!(
        p,
        Pred::MockPanic(PanicClass::OutOfRange, _)
            | Pred::MockPanic(PanicClass::WrongOrder, _)
            | Pred::MockPanic(PanicClass::InputsNotMatched, _)
    )
}

fn main() {
    vh::obs::silence_panics();
    let ctx: &'static vh::explore::Ctx = Box::leak(Box::new(vh::explore::Ctx::from_args("C02")));
    let opts = RunOpts {
        has_mutex: !cfg!(feature = "nolock"),
        in_scope: c02_scope,
        ..RunOpts::default()
    };
    handle_replay(ctx, opts, &no_extra);

    let nostd = ctx.variant != "std";
    let max_segs = if ctx.quick() || nostd { 2 } else { 3 };
    let routing_depth = if ctx.quick() { 3 } else { 4 };
    let mut cases = vec![];
    for m in [M::Both, M::Plain] {
        for form in [EntryForm::Some, EntryForm::Each, EntryForm::Next, EntryForm::Stub] {
            for chain in chains(max_segs, form == EntryForm::Next) {
                let pat = PatSpec {
                    mask: 7,
                    segs: chain.clone(),
                };
                let clause = match form {
                    EntryForm::Some => ClauseSpec::Single {
                        m,
                        entry: Entry::SomeCall,
                        pat,
                    },
                    EntryForm::Each => ClauseSpec::Single {
                        m,
                        entry: Entry::EachCall,
                        pat,
                    },
                    EntryForm::Next => ClauseSpec::Single {
                        m,
                        entry: Entry::NextCall,
                        pat,
                    },
                    EntryForm::Stub => ClauseSpec::Stub { m, pats: vec![pat] },
                };
                let kmax = (total(&chain) + 2).max(3);
                // one long history through the original covers every k; all routings of the first
                // calls over {original, clone 1} cover "counted over the original and all clones"
                let mut histories = vec![(0..kmax)
                    .map(|i| Call::new(m, (i % 3) as u8))
                    .collect::<Vec<_>>()];
                let r = routing_depth.min(kmax);
                for bits in 1u32..(1 << r) {
                    histories.push(
                        (0..r)
                            .map(|i| Call {
                                m,
                                x: (i % 3) as u8,
                                via: ((bits >> i) & 1) as u8,
                            })
                            .collect(),
                    );
                }
                if form == EntryForm::Next {
                    // the same chain behind another ordered clause: its range does not start at
                    // global slot 0 (one accepted call to O::e comes first)
                    let lead = ClauseSpec::Single {
                        m: M::E,
                        entry: Entry::NextCall,
                        pat: PatSpec {
                            mask: 7,
                            segs: vec![Seg {
                                resp: Resp::Ret(900),
                                quant: Quant::N(2),
                            }],
                        },
                    };
                    let mut shifted: Vec<Vec<Call>> = vec![];
                    for h in histories.iter().take(1 + 3) {
                        let mut s = vec![Call::new(M::E, 0), Call::new(M::E, 1)];
                        s.extend(h.iter().cloned());
                        shifted.push(s);
                    }
                    cases.push(Case {
                        label: format!("{}/{form:?}-shifted/segs{}", m.name(), chain.len()),
                        config: Config {
                            partial: false,
                            clauses: vec![lead, clause.clone()],
                        },
                        histories: HistGen::List(shifted),
                    });
                }
                cases.push(Case {
                    label: format!("{}/{form:?}/segs{}", m.name(), chain.len()),
                    config: Config {
                        partial: false,
                        clauses: vec![clause],
                    },
                    histories: HistGen::List(histories),
                });
            }
        }
    }
    ctx.watchdog(120, || J::Str("no progress in the C02 explorer".into()));
    let mut stats = explore_cases(ctx, &cases, opts, &no_extra);
    guard(&stats, 6, true);
    // single-use vs repeatable responses of composite output types
    if ctx.variant == "std" {
        composite::cells(ctx, &mut stats);
    }
    let cov = coverage(
        ctx,
        &stats,
        J::obj()
            .set("segments_max", max_segs)
            .set("response_kinds", "returns, returns_default, answers, answers_arc, panics, applies_unmocked, applies_default_impl")
            .set("quantifiers", "once, n_times(0..3), at_least_times(0..2) (last, unordered), unquantified (last)")
            .set("entry_forms", "some_call, each_call, next_call, stub")
            .set("methods", "F::both (real fn + default body), F::plain (neither)")
            .set("match_counts", "0 .. sum of counts + 2")
            .set("routing", format!("all assignments of the first {routing_depth} calls to {{original, clone}}")),
    );
    ctx.finish(
        "model_checking",
        cov,
        &[
            "reference model of DESIGN.md section 0.1 is the oracle",
            "which response a match beyond the end of an exactly quantified chain receives is not specified and not compared (only its counting is)",
            "repeat counts above 3 and chains longer than the bound are not covered",
        ],
    );
}

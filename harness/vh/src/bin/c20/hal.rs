//! C20 composition checks for the embedded-hal mirrors.

use std::sync::Arc;

use embedded_hal::delay::DelayNs;
use embedded_hal::digital::{self, OutputPin, PinState, StatefulOutputPin};
use embedded_hal::i2c::{self, I2c, SevenBitAddress};
use embedded_hal::pwm::{self, SetDutyCycle};
use embedded_hal::spi::{self, SpiDevice};
use unimock::mock::embedded_hal_1 as m;
use unimock::*;
use vh::explore::sequences;
use vh::obs::catch;

use super::{log_of, next, script, Ans, Sh, Tally};

#[derive(Debug)]
pub struct PErr;

impl digital::Error for PErr {
    fn kind(&self) -> digital::ErrorKind {
        digital::ErrorKind::Other
    }
}
impl i2c::Error for PErr {
    fn kind(&self) -> i2c::ErrorKind {
        i2c::ErrorKind::Other
    }
}
impl pwm::Error for PErr {
    fn kind(&self) -> pwm::ErrorKind {
        pwm::ErrorKind::Other
    }
}
impl spi::Error for PErr {
    fn kind(&self) -> spi::ErrorKind {
        spi::ErrorKind::Other
    }
}

fn shape<T: std::fmt::Debug, E>(r: &Result<T, E>) -> String {
    match r {
        Ok(v) => format!("Ok({v:?})"),
        Err(_) => "Err".to_string(),
    }
}

/// Scripted unit result: `Other` = error, anything else = ok.
fn unit(sh: &Sh, what: String) -> bool {
    !matches!(next(sh, what), Some(Ans::Other))
}

fn flag(sh: &Sh, what: String, default: bool) -> Option<bool> {
    match next(sh, what) {
        Some(Ans::Flag(b)) => Some(b),
        Some(Ans::Other) => None,
        _ => Some(default),
    }
}

// ------------------------------------------------------------------------------------- DelayNs

pub struct PDelay(Sh);

/// A plain delay replaying `sh` (for cells outside this module).
pub fn plain_delay(sh: &Sh) -> PDelay {
    PDelay(sh.clone())
}

impl DelayNs for PDelay {
    fn delay_ns(&mut self, ns: u32) {
        next(&self.0, format!("delay_ns({ns})"));
    }
}

fn mock_delay(sh: &Sh) -> Unimock {
    let a = sh.clone();
    Unimock::new(m::delay::DelayNsMock::delay_ns.each_call(matching!(_)).answers_arc(Arc::new(
        move |_: &mut Unimock, ns: u32| {
            next(&a, format!("delay_ns({ns})"));
        },
    )))
    .no_verify_in_drop()
}

// ------------------------------------------------------------------------------------- pins

struct PPin(Sh);

impl digital::ErrorType for PPin {
    type Error = PErr;
}

impl OutputPin for PPin {
    fn set_low(&mut self) -> Result<(), PErr> {
        if unit(&self.0, "set_low()".into()) {
            Ok(())
        } else {
            Err(PErr)
        }
    }
    fn set_high(&mut self) -> Result<(), PErr> {
        if unit(&self.0, "set_high()".into()) {
            Ok(())
        } else {
            Err(PErr)
        }
    }
}

impl StatefulOutputPin for PPin {
    fn is_set_high(&mut self) -> Result<bool, PErr> {
        flag(&self.0, "is_set_high()".into(), true).ok_or(PErr)
    }
    fn is_set_low(&mut self) -> Result<bool, PErr> {
        flag(&self.0, "is_set_low()".into(), false).ok_or(PErr)
    }
}

fn mock_pin(sh: &Sh) -> Unimock {
    let (a, b, c, d) = (sh.clone(), sh.clone(), sh.clone(), sh.clone());
    Unimock::new((
        m::digital::OutputPinMock::set_low.each_call(matching!()).answers_arc(Arc::new(move |_: &mut Unimock| {
            if unit(&a, "set_low()".into()) {
                Ok(())
            } else {
                Err(Unimock::new(()))
            }
        })),
        m::digital::OutputPinMock::set_high.each_call(matching!()).answers_arc(Arc::new(move |_: &mut Unimock| {
            if unit(&b, "set_high()".into()) {
                Ok(())
            } else {
                Err(Unimock::new(()))
            }
        })),
        m::digital::StatefulOutputPinMock::is_set_high
            .each_call(matching!())
            .answers_arc(Arc::new(move |_: &mut Unimock| flag(&c, "is_set_high()".into(), true).ok_or_else(|| Unimock::new(())))),
        m::digital::StatefulOutputPinMock::is_set_low
            .each_call(matching!())
            .answers_arc(Arc::new(move |_: &mut Unimock| flag(&d, "is_set_low()".into(), false).ok_or_else(|| Unimock::new(())))),
    ))
    .no_verify_in_drop()
}

fn drive_pin<P: StatefulOutputPin>(p: &mut P, driver: usize) -> String {
    match driver {
        0 => shape(&p.set_state(PinState::Low)),
        1 => shape(&p.set_state(PinState::High)),
        _ => shape(&p.toggle()),
    }
}

// ------------------------------------------------------------------------------------- I2c

fn i2c_transaction(sh: &Sh, address: u8, ops: &mut [i2c::Operation<'_>]) -> bool {
    let mut desc = vec![];
    for op in ops.iter_mut() {
        match op {
            i2c::Operation::Read(buf) => {
                for (i, b) in buf.iter_mut().enumerate() {
                    *b = 0xA0 + i as u8;
                }
                desc.push(format!("R{}", buf.len()));
            }
            i2c::Operation::Write(buf) => desc.push(format!("W{buf:?}")),
        }
    }
    unit(sh, format!("transaction({address}, [{}])", desc.join(", ")))
}

struct PI2c(Sh);

impl i2c::ErrorType for PI2c {
    type Error = PErr;
}

impl I2c<SevenBitAddress> for PI2c {
    fn transaction(&mut self, address: u8, ops: &mut [i2c::Operation<'_>]) -> Result<(), PErr> {
        if i2c_transaction(&self.0, address, ops) {
            Ok(())
        } else {
            Err(PErr)
        }
    }
}

fn mock_i2c(sh: &Sh) -> Unimock {
    let a = sh.clone();
    Unimock::new(
        m::i2c::I2cMock::transaction
            .with_types::<SevenBitAddress>()
            .each_call(matching!(_, _))
            .answers_arc(Arc::new(move |_: &mut Unimock, address: u8, ops: &mut [i2c::Operation<'_>]| {
                if i2c_transaction(&a, address, ops) {
                    Ok(())
                } else {
                    Err(Unimock::new(()))
                }
            })),
    )
    .no_verify_in_drop()
}

fn drive_i2c<P: I2c<SevenBitAddress>>(p: &mut P, driver: usize) -> String {
    match driver {
        0 => {
            let mut buf = [0u8; 3];
            let r = p.read(0x42, &mut buf);
            format!("{} {buf:?}", shape(&r))
        }
        1 => shape(&p.write(0x43, &[1, 2])),
        _ => {
            let mut buf = [0u8; 2];
            let r = p.write_read(0x44, &[9], &mut buf);
            format!("{} {buf:?}", shape(&r))
        }
    }
}

// ------------------------------------------------------------------------------------- pwm

fn max_duty(sh: &Sh) -> u16 {
    match next(sh, "max_duty_cycle()".into()) {
        Some(Ans::N(n)) => n as u16,
        _ => 100,
    }
}

struct PPwm(Sh);

impl pwm::ErrorType for PPwm {
    type Error = PErr;
}

impl SetDutyCycle for PPwm {
    fn max_duty_cycle(&self) -> u16 {
        max_duty(&self.0)
    }
    fn set_duty_cycle(&mut self, duty: u16) -> Result<(), PErr> {
        if unit(&self.0, format!("set_duty_cycle({duty})")) {
            Ok(())
        } else {
            Err(PErr)
        }
    }
}

fn mock_pwm(sh: &Sh) -> Unimock {
    let (a, b) = (sh.clone(), sh.clone());
    Unimock::new((
        m::pwm::SetDutyCycleMock::max_duty_cycle
            .each_call(matching!())
            .answers_arc(Arc::new(move |_: &Unimock| max_duty(&a))),
        m::pwm::SetDutyCycleMock::set_duty_cycle
            .each_call(matching!(_))
            .answers_arc(Arc::new(move |_: &mut Unimock, duty: u16| {
                if unit(&b, format!("set_duty_cycle({duty})")) {
                    Ok(())
                } else {
                    Err(Unimock::new(()))
                }
            })),
    ))
    .no_verify_in_drop()
}

fn drive_pwm<P: SetDutyCycle>(p: &mut P, driver: usize) -> String {
    match driver {
        0 => shape(&p.set_duty_cycle_fully_off()),
        1 => shape(&p.set_duty_cycle_fully_on()),
        2 => shape(&p.set_duty_cycle_fraction(1, 3)),
        3 => shape(&p.set_duty_cycle_fraction(2, 2)),
        4 => shape(&p.set_duty_cycle_percent(50)),
        _ => shape(&p.set_duty_cycle_percent(100)),
    }
}

// ------------------------------------------------------------------------------------- spi

fn spi_transaction(sh: &Sh, ops: &mut [spi::Operation<'_, u8>]) -> bool {
    let mut desc = vec![];
    for op in ops.iter_mut() {
        match op {
            spi::Operation::Read(buf) => {
                for (i, b) in buf.iter_mut().enumerate() {
                    *b = 0xB0 + i as u8;
                }
                desc.push(format!("R{}", buf.len()));
            }
            spi::Operation::Write(buf) => desc.push(format!("W{buf:?}")),
            spi::Operation::Transfer(r, w) => {
                for (i, b) in r.iter_mut().enumerate() {
                    *b = 0xC0 + i as u8;
                }
                desc.push(format!("T{}/{w:?}", r.len()));
            }
            spi::Operation::TransferInPlace(buf) => {
                desc.push(format!("P{buf:?}"));
                for b in buf.iter_mut() {
                    *b = b.wrapping_add(1);
                }
            }
            spi::Operation::DelayNs(ns) => desc.push(format!("D{ns}")),
        }
    }
    unit(sh, format!("transaction([{}])", desc.join(", ")))
}

struct PSpi(Sh);

impl spi::ErrorType for PSpi {
    type Error = PErr;
}

impl SpiDevice<u8> for PSpi {
    fn transaction(&mut self, ops: &mut [spi::Operation<'_, u8>]) -> Result<(), PErr> {
        if spi_transaction(&self.0, ops) {
            Ok(())
        } else {
            Err(PErr)
        }
    }
}

fn mock_spi(sh: &Sh) -> Unimock {
    let a = sh.clone();
    Unimock::new(
        m::spi::SpiDeviceMock::transaction
            .with_types::<u8>()
            .each_call(matching!(_))
            .answers_arc(Arc::new(move |_: &mut Unimock, ops: &mut [spi::Operation<'_, u8>]| {
                if spi_transaction(&a, ops) {
                    Ok(())
                } else {
                    Err(Unimock::new(()))
                }
            })),
    )
    .no_verify_in_drop()
}

fn drive_spi<P: SpiDevice<u8>>(p: &mut P, driver: usize) -> String {
    match driver {
        0 => {
            let mut buf = [0u8; 2];
            let r = p.read(&mut buf);
            format!("{} {buf:?}", shape(&r))
        }
        1 => shape(&p.write(&[5, 6, 7])),
        2 => {
            let mut buf = [0u8; 3];
            let r = p.transfer(&mut buf, &[1, 2]);
            format!("{} {buf:?}", shape(&r))
        }
        _ => {
            let mut buf = [10u8, 20];
            let r = p.transfer_in_place(&mut buf);
            format!("{} {buf:?}", shape(&r))
        }
    }
}

pub fn run(t: &mut Tally<'_>, quick: bool) {
    // DelayNs: the upstream default bodies split large delays into several delay_ns calls
    for (driver, val) in [(0usize, 0u32), (0, 1), (0, 5), (0, 4_294_968), (0, 9_000_000), (1, 0), (1, 1), (1, 4_295), (1, 5_000)] {
        let desc = format!("delay_{}({val})", if driver == 0 { "us" } else { "ms" });
        let sh = script(&[]);
        let mut p = PDelay(sh.clone());
        if driver == 0 {
            p.delay_us(val)
        } else {
            p.delay_ms(val)
        }
        let plain = ("()".to_string(), log_of(&sh));
        let sh2 = script(&[]);
        let mock = catch(|| {
            let mut u = mock_delay(&sh2);
            if driver == 0 {
                u.delay_us(val)
            } else {
                u.delay_ms(val)
            }
            "()".to_string()
        })
        .map(|r| (r, log_of(&sh2)));
        t.compare(&format!("DelayNs/{desc}"), "[]", mock, plain);
    }
    let unit_alpha = [Ans::N(0), Ans::Other, Ans::Flag(true), Ans::Flag(false)];
    let len = if quick { 2 } else { 4 };
    let mut scripts = vec![];
    for l in 0..=len {
        scripts.extend(sequences(&unit_alpha, l));
    }
    for sc in &scripts {
        let desc = format!("{sc:?}");
        for driver in 0..3 {
            let sh = script(sc);
            let pr = drive_pin(&mut PPin(sh.clone()), driver);
            let plain = (pr, log_of(&sh));
            let sh2 = script(sc);
            let mock = catch(|| drive_pin(&mut mock_pin(&sh2), driver)).map(|r| (r, log_of(&sh2)));
            t.compare(&format!("Pin/driver{driver}"), &desc, mock, plain);
        }
        for driver in 0..3 {
            let sh = script(sc);
            let pr = drive_i2c(&mut PI2c(sh.clone()), driver);
            let plain = (pr, log_of(&sh));
            let sh2 = script(sc);
            let mock = catch(|| drive_i2c(&mut mock_i2c(&sh2), driver)).map(|r| (r, log_of(&sh2)));
            t.compare(&format!("I2c/driver{driver}"), &desc, mock, plain);
        }
        for driver in 0..4 {
            let sh = script(sc);
            let pr = drive_spi(&mut PSpi(sh.clone()), driver);
            let plain = (pr, log_of(&sh));
            let sh2 = script(sc);
            let mock = catch(|| drive_spi(&mut mock_spi(&sh2), driver)).map(|r| (r, log_of(&sh2)));
            t.compare(&format!("SpiDevice/driver{driver}"), &desc, mock, plain);
        }
    }
    let pwm_alpha = [Ans::N(0), Ans::N(7), Ans::N(1000), Ans::Other];
    let mut scripts = vec![];
    for l in 0..=2 {
        scripts.extend(sequences(&pwm_alpha, l));
    }
    for sc in &scripts {
        let desc = format!("{sc:?}");
        for driver in 0..6 {
            let sh = script(sc);
            let pr = drive_pwm(&mut PPwm(sh.clone()), driver);
            let plain = (pr, log_of(&sh));
            let sh2 = script(sc);
            let mock = catch(|| drive_pwm(&mut mock_pwm(&sh2), driver)).map(|r| (r, log_of(&sh2)));
            t.compare(&format!("SetDutyCycle/driver{driver}"), &desc, mock, plain);
        }
    }
}

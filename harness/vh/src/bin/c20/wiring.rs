//! C20 wiring: every method of every mirrored trait is served by its own mock entry point.
//!
//! For each trait a mock is built with a clause on *every* method (each answer logs the method's
//! name); each method is then called through the upstream trait and must log exactly its own name.

use std::io::{BufRead, IoSlice, IoSliceMut, Read, Seek, SeekFrom, Write};
use std::pin::Pin;
use std::task::Poll;

use unimock::mock::{core as mcore, embedded_hal_1 as mhal, futures_0_3 as mfut, std as mstd, tokio_1 as mtok};
use unimock::*;
use vh::gsupport::{ev, take_events, with_cx};
use vh::json::J;
use vh::obs::catch;

use super::Tally;

fn expect(t: &mut Tally<'_>, tr: &str, method: &str, r: Result<(), String>) {
    t.ctx.tick();
    t.stats.add("wiring_methods", 1);
    t.stats.add("traces_validated_against_impl", 1);
    t.stats.add("transitions", 1);
    let events = take_events();
    let ok = r.is_ok() && events == vec![method.to_string()];
    if !ok {
        t.ctx.violation(
            &format!("wiring:{tr}::{method}"),
            &format!("calling {tr}::{method} on a mock whose every method logs its own name logged {events:?} (call result {r:?})"),
            J::obj().set("trait", tr).set("method", method),
        );
    }
}

macro_rules! call {
    ($t:expr, $tr:expr, $m:expr, $body:expr) => {{
        let _ = take_events();
        let r = catch(|| {
            let _ = $body;
        });
        expect($t, $tr, $m, r);
    }};
}

pub fn run(t: &mut Tally<'_>) {
    fmt_hash(t);
    std_io(t);
    tokio_io(t);
    futures_io(t);
    hal(t);
}

fn fmt_hash(t: &mut Tally<'_>) {
    use core::hash::Hasher;
    use mcore::fmt::{DebugMock, DisplayMock};
    use mcore::hash::HasherMock;
    let u = Unimock::new((
        DisplayMock::fmt.each_call(matching!(_)).answers(&|_, _| {
            ev("Display::fmt");
            Ok(())
        }),
        DebugMock::fmt.each_call(matching!(_)).answers(&|_, _| {
            ev("Debug::fmt");
            Ok(())
        }),
    ))
    .no_verify_in_drop();
    call!(t, "Display", "Display::fmt", format!("{u}"));
    call!(t, "Debug", "Debug::fmt", format!("{u:?}"));

    let mut u = Unimock::new((
        HasherMock::finish.each_call(matching!()).answers(&|_| {
            ev("finish");
            0
        }),
        HasherMock::write.each_call(matching!(_)).answers(&|_, _| ev("write")),
        HasherMock::write_u8.each_call(matching!(_)).answers(&|_, _| ev("write_u8")),
        HasherMock::write_u16.each_call(matching!(_)).answers(&|_, _| ev("write_u16")),
        HasherMock::write_u32.each_call(matching!(_)).answers(&|_, _| ev("write_u32")),
        HasherMock::write_u64.each_call(matching!(_)).answers(&|_, _| ev("write_u64")),
        HasherMock::write_u128.each_call(matching!(_)).answers(&|_, _| ev("write_u128")),
        HasherMock::write_usize.each_call(matching!(_)).answers(&|_, _| ev("write_usize")),
        HasherMock::write_i8.each_call(matching!(_)).answers(&|_, _| ev("write_i8")),
        HasherMock::write_i16.each_call(matching!(_)).answers(&|_, _| ev("write_i16")),
        HasherMock::write_i32.each_call(matching!(_)).answers(&|_, _| ev("write_i32")),
        HasherMock::write_i64.each_call(matching!(_)).answers(&|_, _| ev("write_i64")),
        HasherMock::write_i128.each_call(matching!(_)).answers(&|_, _| ev("write_i128")),
        HasherMock::write_isize.each_call(matching!(_)).answers(&|_, _| ev("write_isize")),
    ))
    .no_verify_in_drop();
    call!(t, "Hasher", "finish", u.finish());
    call!(t, "Hasher", "write", Hasher::write(&mut u, &[1]));
    call!(t, "Hasher", "write_u8", u.write_u8(1));
    call!(t, "Hasher", "write_u16", u.write_u16(1));
    call!(t, "Hasher", "write_u32", u.write_u32(1));
    call!(t, "Hasher", "write_u64", u.write_u64(1));
    call!(t, "Hasher", "write_u128", u.write_u128(1));
    call!(t, "Hasher", "write_usize", u.write_usize(1));
    call!(t, "Hasher", "write_i8", u.write_i8(1));
    call!(t, "Hasher", "write_i16", u.write_i16(1));
    call!(t, "Hasher", "write_i32", u.write_i32(1));
    call!(t, "Hasher", "write_i64", u.write_i64(1));
    call!(t, "Hasher", "write_i128", u.write_i128(1));
    call!(t, "Hasher", "write_isize", u.write_isize(1));
}

fn std_io(t: &mut Tally<'_>) {
    use mstd::error::ErrorMock;
    use mstd::io::{BufReadMock, ReadMock, SeekMock, WriteMock};
    // std::error::Error needs Display + Debug
    let u = Unimock::new(ErrorMock::source.each_call(matching!()).answers(&|_| {
        ev("source");
        None
    }))
    .no_verify_in_drop();
    call!(t, "Error", "source", std::error::Error::source(&u).is_none());

    let mut u = Unimock::new((
        ReadMock::read.each_call(matching!(_)).answers(&|_, _| {
            ev("read");
            Ok(0)
        }),
        ReadMock::read_vectored.each_call(matching!(_)).answers(&|_, _| {
            ev("read_vectored");
            Ok(0)
        }),
        ReadMock::read_to_end.each_call(matching!(_)).answers(&|_, _| {
            ev("read_to_end");
            Ok(0)
        }),
        ReadMock::read_to_string.each_call(matching!(_)).answers(&|_, _| {
            ev("read_to_string");
            Ok(0)
        }),
        ReadMock::read_exact.each_call(matching!(_)).answers(&|_, _| {
            ev("read_exact");
            Ok(())
        }),
        BufReadMock::fill_buf.each_call(matching!()).answers(&|_| {
            ev("fill_buf");
            Ok(&[])
        }),
        BufReadMock::consume.each_call(matching!(_)).answers(&|_, _| ev("consume")),
        BufReadMock::read_until.each_call(matching!(_, _)).answers(&|_, _, _| {
            ev("read_until");
            Ok(0)
        }),
        BufReadMock::read_line.each_call(matching!(_)).answers(&|_, _| {
            ev("read_line");
            Ok(0)
        }),
    ))
    .no_verify_in_drop();
    call!(t, "Read", "read", u.read(&mut [0u8; 2]));
    call!(t, "Read", "read_vectored", u.read_vectored(&mut [IoSliceMut::new(&mut [0u8; 2])]));
    call!(t, "Read", "read_to_end", u.read_to_end(&mut vec![]));
    call!(t, "Read", "read_to_string", u.read_to_string(&mut String::new()));
    call!(t, "Read", "read_exact", u.read_exact(&mut [0u8; 2]));
    call!(t, "BufRead", "fill_buf", u.fill_buf().map(|b| b.len()));
    call!(t, "BufRead", "consume", u.consume(1));
    call!(t, "BufRead", "read_until", u.read_until(b'x', &mut vec![]));
    call!(t, "BufRead", "read_line", u.read_line(&mut String::new()));

    let mut u = Unimock::new((
        SeekMock::seek.each_call(matching!(_)).answers(&|_, _| {
            ev("seek");
            Ok(0)
        }),
        SeekMock::rewind.each_call(matching!()).answers(&|_| {
            ev("rewind");
            Ok(())
        }),
        SeekMock::stream_position.each_call(matching!()).answers(&|_| {
            ev("stream_position");
            Ok(0)
        }),
        WriteMock::write.each_call(matching!(_)).answers(&|_, _| {
            ev("write");
            Ok(0)
        }),
        WriteMock::flush.each_call(matching!()).answers(&|_| {
            ev("flush");
            Ok(())
        }),
        WriteMock::write_vectored.each_call(matching!(_)).answers(&|_, _| {
            ev("write_vectored");
            Ok(0)
        }),
        WriteMock::write_all.each_call(matching!(_)).answers(&|_, _| {
            ev("write_all");
            Ok(())
        }),
    ))
    .no_verify_in_drop();
    call!(t, "Seek", "seek", u.seek(SeekFrom::Start(1)));
    call!(t, "Seek", "rewind", u.rewind());
    call!(t, "Seek", "stream_position", u.stream_position());
    call!(t, "Write", "write", u.write(b"a"));
    call!(t, "Write", "flush", u.flush());
    call!(t, "Write", "write_vectored", u.write_vectored(&[IoSlice::new(b"a")]));
    call!(t, "Write", "write_all", u.write_all(b"a"));
}

fn tokio_io(t: &mut Tally<'_>) {
    use mtok::io::{AsyncBufReadMock, AsyncReadMock, AsyncSeekMock, AsyncWriteMock};
    use tokio::io::{AsyncBufRead, AsyncRead, AsyncSeek, AsyncWrite, ReadBuf};
    let mut u = Unimock::new((
        AsyncBufReadMock::poll_fill_buf.each_call(matching!(_)).answers(&|_, _| {
            ev("poll_fill_buf");
            Poll::Ready(Ok(&[]))
        }),
        AsyncBufReadMock::consume.each_call(matching!(_)).answers(&|_, _| ev("consume")),
        AsyncReadMock::poll_read.each_call(matching!(_, _)).answers(&|_, _, _| {
            ev("poll_read");
            Poll::Ready(Ok(()))
        }),
        AsyncSeekMock::start_seek.each_call(matching!(_)).answers(&|_, _| {
            ev("start_seek");
            Ok(())
        }),
        AsyncSeekMock::poll_complete.each_call(matching!(_)).answers(&|_, _| {
            ev("poll_complete");
            Poll::Ready(Ok(0))
        }),
        AsyncWriteMock::poll_write.each_call(matching!(_, _)).answers(&|_, _, _| {
            ev("poll_write");
            Poll::Ready(Ok(0))
        }),
        AsyncWriteMock::poll_flush.each_call(matching!(_)).answers(&|_, _| {
            ev("poll_flush");
            Poll::Ready(Ok(()))
        }),
        AsyncWriteMock::poll_shutdown.each_call(matching!(_)).answers(&|_, _| {
            ev("poll_shutdown");
            Poll::Ready(Ok(()))
        }),
        AsyncWriteMock::poll_write_vectored.each_call(matching!(_, _)).answers(&|_, _, _| {
            ev("poll_write_vectored");
            Poll::Ready(Ok(0))
        }),
        AsyncWriteMock::is_write_vectored.each_call(matching!()).answers(&|_| {
            ev("is_write_vectored");
            true
        }),
    ))
    .no_verify_in_drop();
    call!(t, "tokio::AsyncBufRead", "poll_fill_buf", with_cx(|cx| AsyncBufRead::poll_fill_buf(Pin::new(&mut u), cx).is_ready()));
    call!(t, "tokio::AsyncBufRead", "consume", AsyncBufRead::consume(Pin::new(&mut u), 1));
    call!(t, "tokio::AsyncRead", "poll_read", with_cx(|cx| {
        let mut b = [0u8; 2];
        let mut rb = ReadBuf::new(&mut b);
        AsyncRead::poll_read(Pin::new(&mut u), cx, &mut rb).is_ready()
    }));
    call!(t, "tokio::AsyncSeek", "start_seek", AsyncSeek::start_seek(Pin::new(&mut u), SeekFrom::Start(0)));
    call!(t, "tokio::AsyncSeek", "poll_complete", with_cx(|cx| AsyncSeek::poll_complete(Pin::new(&mut u), cx).is_ready()));
    call!(t, "tokio::AsyncWrite", "poll_write", with_cx(|cx| AsyncWrite::poll_write(Pin::new(&mut u), cx, b"a").is_ready()));
    call!(t, "tokio::AsyncWrite", "poll_flush", with_cx(|cx| AsyncWrite::poll_flush(Pin::new(&mut u), cx).is_ready()));
    call!(t, "tokio::AsyncWrite", "poll_shutdown", with_cx(|cx| AsyncWrite::poll_shutdown(Pin::new(&mut u), cx).is_ready()));
    call!(t, "tokio::AsyncWrite", "poll_write_vectored", with_cx(|cx| AsyncWrite::poll_write_vectored(Pin::new(&mut u), cx, &[IoSlice::new(b"a")]).is_ready()));
    call!(t, "tokio::AsyncWrite", "is_write_vectored", AsyncWrite::is_write_vectored(&u));
}

fn futures_io(t: &mut Tally<'_>) {
    use futures_io::{AsyncBufRead, AsyncRead, AsyncSeek, AsyncWrite};
    use mfut::io::{AsyncBufReadMock, AsyncReadMock, AsyncSeekMock, AsyncWriteMock};
    let mut u = Unimock::new((
        AsyncBufReadMock::poll_fill_buf.each_call(matching!(_)).answers(&|_, _| {
            ev("poll_fill_buf");
            Poll::Ready(Ok(&[]))
        }),
        AsyncBufReadMock::consume.each_call(matching!(_)).answers(&|_, _| ev("consume")),
        AsyncReadMock::poll_read.each_call(matching!(_, _)).answers(&|_, _, _| {
            ev("poll_read");
            Poll::Ready(Ok(0))
        }),
        AsyncReadMock::poll_read_vectored.each_call(matching!(_, _)).answers(&|_, _, _| {
            ev("poll_read_vectored");
            Poll::Ready(Ok(0))
        }),
        AsyncSeekMock::poll_seek.each_call(matching!(_, _)).answers(&|_, _, _| {
            ev("poll_seek");
            Poll::Ready(Ok(0))
        }),
        AsyncWriteMock::poll_write.each_call(matching!(_, _)).answers(&|_, _, _| {
            ev("poll_write");
            Poll::Ready(Ok(0))
        }),
        AsyncWriteMock::poll_flush.each_call(matching!(_)).answers(&|_, _| {
            ev("poll_flush");
            Poll::Ready(Ok(()))
        }),
        AsyncWriteMock::poll_close.each_call(matching!(_)).answers(&|_, _| {
            ev("poll_close");
            Poll::Ready(Ok(()))
        }),
        AsyncWriteMock::poll_write_vectored.each_call(matching!(_, _)).answers(&|_, _, _| {
            ev("poll_write_vectored");
            Poll::Ready(Ok(0))
        }),
    ))
    .no_verify_in_drop();
    call!(t, "futures::AsyncBufRead", "poll_fill_buf", with_cx(|cx| AsyncBufRead::poll_fill_buf(Pin::new(&mut u), cx).is_ready()));
    call!(t, "futures::AsyncBufRead", "consume", AsyncBufRead::consume(Pin::new(&mut u), 1));
    call!(t, "futures::AsyncRead", "poll_read", with_cx(|cx| AsyncRead::poll_read(Pin::new(&mut u), cx, &mut [0u8; 2]).is_ready()));
    call!(t, "futures::AsyncRead", "poll_read_vectored", with_cx(|cx| AsyncRead::poll_read_vectored(Pin::new(&mut u), cx, &mut [IoSliceMut::new(&mut [0u8; 2])]).is_ready()));
    call!(t, "futures::AsyncSeek", "poll_seek", with_cx(|cx| AsyncSeek::poll_seek(Pin::new(&mut u), cx, SeekFrom::Start(0)).is_ready()));
    call!(t, "futures::AsyncWrite", "poll_write", with_cx(|cx| AsyncWrite::poll_write(Pin::new(&mut u), cx, b"a").is_ready()));
    call!(t, "futures::AsyncWrite", "poll_flush", with_cx(|cx| AsyncWrite::poll_flush(Pin::new(&mut u), cx).is_ready()));
    call!(t, "futures::AsyncWrite", "poll_close", with_cx(|cx| AsyncWrite::poll_close(Pin::new(&mut u), cx).is_ready()));
    call!(t, "futures::AsyncWrite", "poll_write_vectored", with_cx(|cx| AsyncWrite::poll_write_vectored(Pin::new(&mut u), cx, &[IoSlice::new(b"a")]).is_ready()));
}

fn hal(t: &mut Tally<'_>) {
    use embedded_hal::delay::DelayNs;
    use embedded_hal::digital::{InputPin, OutputPin, PinState, StatefulOutputPin};
    use embedded_hal::i2c::{I2c, SevenBitAddress};
    use embedded_hal::pwm::SetDutyCycle;
    use embedded_hal::spi::{SpiBus, SpiDevice};
    use mhal::delay::DelayNsMock;
    use mhal::digital::{InputPinMock, OutputPinMock, StatefulOutputPinMock};
    use mhal::i2c::I2cMock;
    use mhal::pwm::SetDutyCycleMock;
    use mhal::spi::{SpiBusMock, SpiDeviceMock};

    let mut u = Unimock::new((
        DelayNsMock::delay_ns.each_call(matching!(_)).answers(&|_, _| ev("delay_ns")),
        DelayNsMock::delay_us.each_call(matching!(_)).answers(&|_, _| ev("delay_us")),
        DelayNsMock::delay_ms.each_call(matching!(_)).answers(&|_, _| ev("delay_ms")),
        InputPinMock::is_high.each_call(matching!()).answers(&|_| {
            ev("is_high");
            Ok(true)
        }),
        InputPinMock::is_low.each_call(matching!()).answers(&|_| {
            ev("is_low");
            Ok(true)
        }),
        OutputPinMock::set_low.each_call(matching!()).answers(&|_| {
            ev("set_low");
            Ok(())
        }),
        OutputPinMock::set_high.each_call(matching!()).answers(&|_| {
            ev("set_high");
            Ok(())
        }),
        OutputPinMock::set_state.each_call(matching!(_)).answers(&|_, _| {
            ev("set_state");
            Ok(())
        }),
        StatefulOutputPinMock::is_set_high.each_call(matching!()).answers(&|_| {
            ev("is_set_high");
            Ok(true)
        }),
        StatefulOutputPinMock::is_set_low.each_call(matching!()).answers(&|_| {
            ev("is_set_low");
            Ok(true)
        }),
        StatefulOutputPinMock::toggle.each_call(matching!()).answers(&|_| {
            ev("toggle");
            Ok(())
        }),
    ))
    .no_verify_in_drop();
    call!(t, "DelayNs", "delay_ns", u.delay_ns(1));
    call!(t, "DelayNs", "delay_us", u.delay_us(1));
    call!(t, "DelayNs", "delay_ms", u.delay_ms(1));
    call!(t, "InputPin", "is_high", u.is_high().is_ok());
    call!(t, "InputPin", "is_low", u.is_low().is_ok());
    call!(t, "OutputPin", "set_low", u.set_low().is_ok());
    call!(t, "OutputPin", "set_high", u.set_high().is_ok());
    call!(t, "OutputPin", "set_state", u.set_state(PinState::High).is_ok());
    call!(t, "StatefulOutputPin", "is_set_high", u.is_set_high().is_ok());
    call!(t, "StatefulOutputPin", "is_set_low", u.is_set_low().is_ok());
    call!(t, "StatefulOutputPin", "toggle", u.toggle().is_ok());

    let mut u = Unimock::new((
        I2cMock::transaction.with_types::<SevenBitAddress>().each_call(matching!(_, _)).answers(&|_, _, _| {
            ev("transaction");
            Ok(())
        }),
        I2cMock::read.with_types::<SevenBitAddress>().each_call(matching!(_, _)).answers(&|_, _, _| {
            ev("read");
            Ok(())
        }),
        I2cMock::write.with_types::<SevenBitAddress>().each_call(matching!(_, _)).answers(&|_, _, _| {
            ev("write");
            Ok(())
        }),
        I2cMock::write_read.with_types::<SevenBitAddress>().each_call(matching!(_, _, _)).answers(&|_, _, _, _| {
            ev("write_read");
            Ok(())
        }),
        SetDutyCycleMock::max_duty_cycle.each_call(matching!()).answers(&|_| {
            ev("max_duty_cycle");
            10
        }),
        SetDutyCycleMock::set_duty_cycle.each_call(matching!(_)).answers(&|_, _| {
            ev("set_duty_cycle");
            Ok(())
        }),
        SetDutyCycleMock::set_duty_cycle_fully_off.each_call(matching!()).answers(&|_| {
            ev("set_duty_cycle_fully_off");
            Ok(())
        }),
        SetDutyCycleMock::set_duty_cycle_fully_on.each_call(matching!()).answers(&|_| {
            ev("set_duty_cycle_fully_on");
            Ok(())
        }),
        SetDutyCycleMock::set_duty_cycle_fraction.each_call(matching!(_, _)).answers(&|_, _, _| {
            ev("set_duty_cycle_fraction");
            Ok(())
        }),
        SetDutyCycleMock::set_duty_cycle_percent.each_call(matching!(_)).answers(&|_, _| {
            ev("set_duty_cycle_percent");
            Ok(())
        }),
    ))
    .no_verify_in_drop();
    call!(t, "I2c", "transaction", I2c::<SevenBitAddress>::transaction(&mut u, 1, &mut []).is_ok());
    call!(t, "I2c", "read", I2c::<SevenBitAddress>::read(&mut u, 1, &mut [0u8; 1]).is_ok());
    call!(t, "I2c", "write", I2c::<SevenBitAddress>::write(&mut u, 1, &[1]).is_ok());
    call!(t, "I2c", "write_read", I2c::<SevenBitAddress>::write_read(&mut u, 1, &[1], &mut [0u8; 1]).is_ok());
    call!(t, "SetDutyCycle", "max_duty_cycle", u.max_duty_cycle());
    call!(t, "SetDutyCycle", "set_duty_cycle", u.set_duty_cycle(1).is_ok());
    call!(t, "SetDutyCycle", "set_duty_cycle_fully_off", u.set_duty_cycle_fully_off().is_ok());
    call!(t, "SetDutyCycle", "set_duty_cycle_fully_on", u.set_duty_cycle_fully_on().is_ok());
    call!(t, "SetDutyCycle", "set_duty_cycle_fraction", u.set_duty_cycle_fraction(1, 2).is_ok());
    call!(t, "SetDutyCycle", "set_duty_cycle_percent", u.set_duty_cycle_percent(5).is_ok());

    let mut u = Unimock::new((
        SpiBusMock::read.with_types::<u8>().each_call(matching!(_)).answers(&|_, _| {
            ev("bus.read");
            Ok(())
        }),
        SpiBusMock::write.with_types::<u8>().each_call(matching!(_)).answers(&|_, _| {
            ev("bus.write");
            Ok(())
        }),
        SpiBusMock::transfer.with_types::<u8>().each_call(matching!(_, _)).answers(&|_, _, _| {
            ev("bus.transfer");
            Ok(())
        }),
        SpiBusMock::transfer_in_place.with_types::<u8>().each_call(matching!(_)).answers(&|_, _| {
            ev("bus.transfer_in_place");
            Ok(())
        }),
        SpiBusMock::flush.with_types::<u8>().each_call(matching!()).answers(&|_| {
            ev("bus.flush");
            Ok(())
        }),
        SpiDeviceMock::transaction.with_types::<u8>().each_call(matching!(_)).answers(&|_, _| {
            ev("dev.transaction");
            Ok(())
        }),
        SpiDeviceMock::read.with_types::<u8>().each_call(matching!(_)).answers(&|_, _| {
            ev("dev.read");
            Ok(())
        }),
        SpiDeviceMock::write.with_types::<u8>().each_call(matching!(_)).answers(&|_, _| {
            ev("dev.write");
            Ok(())
        }),
        SpiDeviceMock::transfer.with_types::<u8>().each_call(matching!(_, _)).answers(&|_, _, _| {
            ev("dev.transfer");
            Ok(())
        }),
        SpiDeviceMock::transfer_in_place.with_types::<u8>().each_call(matching!(_)).answers(&|_, _| {
            ev("dev.transfer_in_place");
            Ok(())
        }),
    ))
    .no_verify_in_drop();
    call!(t, "SpiBus", "bus.read", SpiBus::<u8>::read(&mut u, &mut [0u8; 1]).is_ok());
    call!(t, "SpiBus", "bus.write", SpiBus::<u8>::write(&mut u, &[1]).is_ok());
    call!(t, "SpiBus", "bus.transfer", SpiBus::<u8>::transfer(&mut u, &mut [0u8; 1], &[1]).is_ok());
    call!(t, "SpiBus", "bus.transfer_in_place", SpiBus::<u8>::transfer_in_place(&mut u, &mut [0u8; 1]).is_ok());
    call!(t, "SpiBus", "bus.flush", SpiBus::<u8>::flush(&mut u).is_ok());
    call!(t, "SpiDevice", "dev.transaction", SpiDevice::<u8>::transaction(&mut u, &mut []).is_ok());
    call!(t, "SpiDevice", "dev.read", SpiDevice::<u8>::read(&mut u, &mut [0u8; 1]).is_ok());
    call!(t, "SpiDevice", "dev.write", SpiDevice::<u8>::write(&mut u, &[1]).is_ok());
    call!(t, "SpiDevice", "dev.transfer", SpiDevice::<u8>::transfer(&mut u, &mut [0u8; 1], &[1]).is_ok());
    call!(t, "SpiDevice", "dev.transfer_in_place", SpiDevice::<u8>::transfer_in_place(&mut u, &mut [0u8; 1]).is_ok());
}

//! C20 composition checks for the tokio and futures-io mirrors (provided poll methods).

use std::io::{self, IoSlice, IoSliceMut};
use std::pin::Pin;
use std::sync::Arc;
use std::task::{Context, Poll};

use unimock::*;
use vh::explore::sequences;
use vh::gsupport::with_cx;
use vh::obs::catch;

use super::{log_of, next, script, Ans, Sh, Tally};

fn poll_io(sh: &Sh, what: String, len: usize) -> Poll<io::Result<usize>> {
    match next(sh, what) {
        Some(Ans::N(n)) => Poll::Ready(Ok(n.min(len))),
        Some(Ans::Interrupted) => Poll::Pending,
        Some(Ans::Other) => Poll::Ready(Err(io::Error::new(io::ErrorKind::Other, "other"))),
        _ => Poll::Ready(Ok(len)),
    }
}

fn show(p: &Poll<io::Result<usize>>) -> String {
    match p {
        Poll::Pending => "Pending".into(),
        Poll::Ready(Ok(n)) => format!("Ready(Ok({n}))"),
        Poll::Ready(Err(e)) => format!("Ready(Err({:?}))", e.kind()),
    }
}

// ------------------------------------------------------------------------------------- tokio

struct TW(Sh);

impl tokio::io::AsyncWrite for TW {
    fn poll_write(self: Pin<&mut Self>, _: &mut Context<'_>, buf: &[u8]) -> Poll<io::Result<usize>> {
        poll_io(&self.0, format!("poll_write({buf:?})"), buf.len())
    }
    fn poll_flush(self: Pin<&mut Self>, _: &mut Context<'_>) -> Poll<io::Result<()>> {
        next(&self.0, "poll_flush()".into());
        Poll::Ready(Ok(()))
    }
    fn poll_shutdown(self: Pin<&mut Self>, _: &mut Context<'_>) -> Poll<io::Result<()>> {
        next(&self.0, "poll_shutdown()".into());
        Poll::Ready(Ok(()))
    }
}

fn mock_tw(sh: &Sh) -> Unimock {
    use unimock::mock::tokio_1::io::AsyncWriteMock;
    let a = sh.clone();
    Unimock::new(AsyncWriteMock::poll_write.each_call(matching!(_, _)).answers_arc(Arc::new(
        move |_: &mut Unimock, _: &mut Context<'_>, buf: &[u8]| poll_io(&a, format!("poll_write({buf:?})"), buf.len()),
    )))
    .no_verify_in_drop()
}

fn drive_tw<W: tokio::io::AsyncWrite + Unpin>(w: &mut W, driver: usize) -> String {
    match driver {
        0 => with_cx(|cx| show(&Pin::new(&mut *w).poll_write_vectored(cx, &[IoSlice::new(b""), IoSlice::new(b"ab"), IoSlice::new(b"cde")]))),
        1 => with_cx(|cx| show(&Pin::new(&mut *w).poll_write_vectored(cx, &[]))),
        _ => format!("{}", w.is_write_vectored()),
    }
}

// ------------------------------------------------------------------------------------- futures-io

struct FW(Sh);

impl futures_io::AsyncWrite for FW {
    fn poll_write(self: Pin<&mut Self>, _: &mut Context<'_>, buf: &[u8]) -> Poll<io::Result<usize>> {
        poll_io(&self.0, format!("poll_write({buf:?})"), buf.len())
    }
    fn poll_flush(self: Pin<&mut Self>, _: &mut Context<'_>) -> Poll<io::Result<()>> {
        next(&self.0, "poll_flush()".into());
        Poll::Ready(Ok(()))
    }
    fn poll_close(self: Pin<&mut Self>, _: &mut Context<'_>) -> Poll<io::Result<()>> {
        next(&self.0, "poll_close()".into());
        Poll::Ready(Ok(()))
    }
}

fn mock_fw(sh: &Sh) -> Unimock {
    use unimock::mock::futures_0_3::io::AsyncWriteMock;
    let a = sh.clone();
    Unimock::new(AsyncWriteMock::poll_write.each_call(matching!(_, _)).answers_arc(Arc::new(
        move |_: &mut Unimock, _: &mut Context<'_>, buf: &[u8]| poll_io(&a, format!("poll_write({buf:?})"), buf.len()),
    )))
    .no_verify_in_drop()
}

fn drive_fw<W: futures_io::AsyncWrite + Unpin>(w: &mut W, driver: usize) -> String {
    match driver {
        0 => with_cx(|cx| show(&Pin::new(&mut *w).poll_write_vectored(cx, &[IoSlice::new(b""), IoSlice::new(b"ab"), IoSlice::new(b"cde")]))),
        _ => with_cx(|cx| show(&Pin::new(&mut *w).poll_write_vectored(cx, &[]))),
    }
}

struct FR(Sh);

fn fr_read(sh: &Sh, buf: &mut [u8]) -> Poll<io::Result<usize>> {
    let r = poll_io(sh, format!("poll_read(len {})", buf.len()), buf.len());
    if let Poll::Ready(Ok(n)) = &r {
        for b in buf[..*n].iter_mut() {
            *b = b'z';
        }
    }
    r
}

impl futures_io::AsyncRead for FR {
    fn poll_read(self: Pin<&mut Self>, _: &mut Context<'_>, buf: &mut [u8]) -> Poll<io::Result<usize>> {
        fr_read(&self.0, buf)
    }
}

fn mock_fr(sh: &Sh) -> Unimock {
    use unimock::mock::futures_0_3::io::AsyncReadMock;
    let a = sh.clone();
    Unimock::new(AsyncReadMock::poll_read.each_call(matching!(_, _)).answers_arc(Arc::new(
        move |_: &mut Unimock, _: &mut Context<'_>, buf: &mut [u8]| fr_read(&a, buf),
    )))
    .no_verify_in_drop()
}

fn drive_fr<R: futures_io::AsyncRead + Unpin>(r: &mut R) -> String {
    let (mut a, mut b, mut c) = ([0u8; 0], [0u8; 2], [0u8; 3]);
    let res = with_cx(|cx| {
        Pin::new(&mut *r).poll_read_vectored(cx, &mut [IoSliceMut::new(&mut a), IoSliceMut::new(&mut b), IoSliceMut::new(&mut c)])
    });
    format!("{} {b:?} {c:?}", show(&res))
}

pub fn run(t: &mut Tally<'_>, _quick: bool) {
    let alpha = [Ans::N(0), Ans::N(1), Ans::N(5), Ans::Interrupted, Ans::Other];
    let mut scripts = vec![];
    for l in 0..=2 {
        scripts.extend(sequences(&alpha, l));
    }
    for sc in &scripts {
        let desc = format!("{sc:?}");
        for driver in 0..3 {
            let sh = script(sc);
            let pr = drive_tw(&mut TW(sh.clone()), driver);
            let plain = (pr, log_of(&sh));
            let sh2 = script(sc);
            let mock = catch(|| drive_tw(&mut mock_tw(&sh2), driver)).map(|r| (r, log_of(&sh2)));
            t.compare(&format!("tokio::AsyncWrite/driver{driver}"), &desc, mock, plain);
        }
        for driver in 0..2 {
            let sh = script(sc);
            let pr = drive_fw(&mut FW(sh.clone()), driver);
            let plain = (pr, log_of(&sh));
            let sh2 = script(sc);
            let mock = catch(|| drive_fw(&mut mock_fw(&sh2), driver)).map(|r| (r, log_of(&sh2)));
            t.compare(&format!("futures::AsyncWrite/driver{driver}"), &desc, mock, plain);
        }
        let sh = script(sc);
        let pr = drive_fr(&mut FR(sh.clone()));
        let plain = (pr, log_of(&sh));
        let sh2 = script(sc);
        let mock = catch(|| drive_fr(&mut mock_fr(&sh2))).map(|r| (r, log_of(&sh2)));
        t.compare("futures::AsyncRead/poll_read_vectored", &desc, mock, plain);
    }
}

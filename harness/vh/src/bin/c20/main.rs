//! C20 – bundled std / core / tokio / futures / embedded-hal mocks act like hand-written impls.
//!
//! (1) Wiring: for every method of every mirrored trait, a mock with a clause on *every* method of
//!     that trait (each answer logs its own name): calling a method through the upstream trait logs
//!     exactly that method's entry point.
//! (2) Composition: environment-answer enumeration. Every script (bounded length) of chunk sizes,
//!     payloads and errors is replayed by a Unimock whose *required* methods answer from the script
//!     and by a plain struct implementing the upstream trait with the same script; both are driven
//!     through the upstream *provided* methods. Results, buffers and the sequence of required-method
//!     calls (with arguments) must be identical.

use std::collections::VecDeque;
use std::io::{self, BufRead, IoSlice, IoSliceMut, Read, Seek, SeekFrom, Write};
use std::sync::{Arc, Mutex};

use unimock::*;
use vh::explore::*;
use vh::json::J;
use vh::obs::*;

mod asyncio;
mod hal;
mod wiring;

#[derive(Clone, Debug, PartialEq)]
pub enum Ans {
    N(usize),
    Bytes(Vec<u8>),
    Interrupted,
    Other,
    Flag(bool),
}

#[derive(Default, Debug)]
pub struct Script {
    pub answers: VecDeque<Ans>,
    pub log: Vec<String>,
    /// BufRead emulation
    pub buf: Vec<u8>,
    pub pos: usize,
}

pub type Sh = Arc<Mutex<Script>>;

pub fn script(answers: &[Ans]) -> Sh {
    Arc::new(Mutex::new(Script {
        answers: answers.iter().cloned().collect(),
        ..Script::default()
    }))
}

pub fn next(sh: &Sh, what: String) -> Option<Ans> {
    let mut s = sh.lock().unwrap();
    s.log.push(what);
    s.answers.pop_front()
}

pub fn log_of(sh: &Sh) -> Vec<String> {
    sh.lock().unwrap().log.clone()
}

fn io_err(a: &Ans) -> io::Error {
    match a {
        Ans::Interrupted => io::Error::new(io::ErrorKind::Interrupted, "interrupted"),
        _ => io::Error::new(io::ErrorKind::Other, "other"),
    }
}

fn show<T: std::fmt::Debug>(r: &io::Result<T>) -> String {
    match r {
        Ok(v) => format!("Ok({v:?})"),
        Err(e) => format!("Err({:?})", e.kind()),
    }
}

// ------------------------------------------------------------------------------------- Write

fn respond_write(sh: &Sh, buf: &[u8]) -> io::Result<usize> {
    match next(sh, format!("write({buf:?})")) {
        Some(Ans::N(n)) => Ok(n.min(buf.len())),
        Some(a @ (Ans::Interrupted | Ans::Other)) => Err(io_err(&a)),
        _ => Ok(buf.len()),
    }
}

fn respond_flush(sh: &Sh) -> io::Result<()> {
    match next(sh, "flush()".to_string()) {
        Some(a @ (Ans::Interrupted | Ans::Other)) => Err(io_err(&a)),
        _ => Ok(()),
    }
}

struct PlainWrite(Sh);

impl Write for PlainWrite {
    fn write(&mut self, buf: &[u8]) -> io::Result<usize> {
        respond_write(&self.0, buf)
    }
    fn flush(&mut self) -> io::Result<()> {
        respond_flush(&self.0)
    }
}

fn mock_write(sh: &Sh, partial: bool) -> Unimock {
    use unimock::mock::std::io::WriteMock;
    let (a, b) = (sh.clone(), sh.clone());
    let clause = (
        WriteMock::write
            .each_call(matching!(_))
            .answers_arc(Arc::new(move |_: &mut Unimock, buf: &[u8]| respond_write(&a, buf))),
        WriteMock::flush
            .each_call(matching!())
            .answers_arc(Arc::new(move |_: &mut Unimock| respond_flush(&b))),
    );
    if partial {
        Unimock::new_partial(clause).no_verify_in_drop()
    } else {
        Unimock::new(clause).no_verify_in_drop()
    }
}

fn drive_write(w: &mut dyn Write, driver: usize) -> String {
    match driver {
        0 => show(&w.write_all(b"abcde")),
        1 => show(&w.write_vectored(&[IoSlice::new(b""), IoSlice::new(b"ab"), IoSlice::new(b"cde")])),
        2 => show(&write!(w, "x{}y{}", 12, "zz")),
        _ => show(&w.write_all(b"").and_then(|_| w.flush())),
    }
}

// ------------------------------------------------------------------------------------- Read

fn respond_read(sh: &Sh, buf: &mut [u8]) -> io::Result<usize> {
    match next(sh, format!("read(len {})", buf.len())) {
        Some(Ans::Bytes(b)) => {
            let n = b.len().min(buf.len());
            buf[..n].copy_from_slice(&b[..n]);
            Ok(n)
        }
        Some(a @ (Ans::Interrupted | Ans::Other)) => Err(io_err(&a)),
        _ => Ok(0),
    }
}

struct PlainRead(Sh);

impl Read for PlainRead {
    fn read(&mut self, buf: &mut [u8]) -> io::Result<usize> {
        respond_read(&self.0, buf)
    }
}

fn mock_read(sh: &Sh, partial: bool) -> Unimock {
    use unimock::mock::std::io::ReadMock;
    let a = sh.clone();
    let clause = ReadMock::read
        .each_call(matching!(_))
        .answers_arc(Arc::new(move |_: &mut Unimock, buf: &mut [u8]| respond_read(&a, buf)));
    if partial {
        Unimock::new_partial(clause).no_verify_in_drop()
    } else {
        Unimock::new(clause).no_verify_in_drop()
    }
}

fn drive_read(r: &mut dyn Read, driver: usize) -> String {
    match driver {
        0 => {
            let mut buf = [0u8; 4];
            let res = r.read_exact(&mut buf);
            format!("{} {buf:?}", show(&res))
        }
        1 => {
            let mut v = vec![9u8];
            let res = r.read_to_end(&mut v);
            format!("{} {v:?}", show(&res))
        }
        2 => {
            let mut s = String::from("p");
            let res = r.read_to_string(&mut s);
            format!("{} {s:?}", show(&res))
        }
        _ => {
            let (mut a, mut b) = ([0u8; 2], [0u8; 2]);
            let res = r.read_vectored(&mut [IoSliceMut::new(&mut a), IoSliceMut::new(&mut b)]);
            format!("{} {a:?} {b:?}", show(&res))
        }
    }
}

// ------------------------------------------------------------------------------------- BufRead

fn refill(sh: &Sh) -> io::Result<Vec<u8>> {
    let mut s = sh.lock().unwrap();
    s.log.push("fill_buf()".to_string());
    if s.pos >= s.buf.len() {
        match s.answers.pop_front() {
            Some(Ans::Bytes(b)) => {
                s.buf = b;
                s.pos = 0;
            }
            Some(a @ (Ans::Interrupted | Ans::Other)) => return Err(io_err(&a)),
            _ => {
                s.buf = vec![];
                s.pos = 0;
            }
        }
    }
    Ok(s.buf[s.pos..].to_vec())
}

fn do_consume(sh: &Sh, amt: usize) {
    let mut s = sh.lock().unwrap();
    s.log.push(format!("consume({amt})"));
    s.pos += amt;
}

struct PlainBufRead(Sh, Vec<u8>);

impl Read for PlainBufRead {
    fn read(&mut self, _: &mut [u8]) -> io::Result<usize> {
        self.0.lock().unwrap().log.push("read()".to_string());
        Ok(0)
    }
}

impl BufRead for PlainBufRead {
    fn fill_buf(&mut self) -> io::Result<&[u8]> {
        self.1 = refill(&self.0)?;
        Ok(&self.1)
    }
    fn consume(&mut self, amt: usize) {
        do_consume(&self.0, amt)
    }
}

fn fill_answer<F>(f: F) -> Arc<dyn for<'u> Fn(&'u mut Unimock) -> io::Result<&'u [u8]> + Send + Sync>
where
    F: for<'u> Fn(&'u mut Unimock) -> io::Result<&'u [u8]> + Send + Sync + 'static,
{
    Arc::new(f)
}

fn mock_bufread(sh: &Sh) -> Unimock {
    use unimock::mock::std::io::BufReadMock;
    let (a, b) = (sh.clone(), sh.clone());
    Unimock::new((
        BufReadMock::fill_buf.each_call(matching!()).answers_arc(fill_answer(move |u| {
            let v = refill(&a)?;
            Ok(u.make_ref(v).as_slice())
        })),
        BufReadMock::consume
            .each_call(matching!(_))
            .answers_arc(Arc::new(move |_: &mut Unimock, amt: usize| do_consume(&b, amt))),
    ))
    .no_verify_in_drop()
}

fn drive_bufread(r: &mut dyn BufRead, driver: usize) -> String {
    match driver {
        0 => {
            let mut v = vec![];
            let res = r.read_until(b'\n', &mut v);
            let mut v2 = vec![];
            let res2 = r.read_until(b'\n', &mut v2);
            format!("{} {v:?} {} {v2:?}", show(&res), show(&res2))
        }
        _ => {
            let mut s = String::new();
            let res = r.read_line(&mut s);
            format!("{} {s:?}", show(&res))
        }
    }
}

// ------------------------------------------------------------------------------------- Seek

fn respond_seek(sh: &Sh, pos: SeekFrom) -> io::Result<u64> {
    match next(sh, format!("seek({pos:?})")) {
        Some(Ans::N(n)) => Ok(n as u64),
        Some(a @ (Ans::Interrupted | Ans::Other)) => Err(io_err(&a)),
        _ => Ok(77),
    }
}

struct PlainSeek(Sh);

impl Seek for PlainSeek {
    fn seek(&mut self, pos: SeekFrom) -> io::Result<u64> {
        respond_seek(&self.0, pos)
    }
}

fn mock_seek(sh: &Sh) -> Unimock {
    use unimock::mock::std::io::SeekMock;
    let a = sh.clone();
    Unimock::new(
        SeekMock::seek
            .each_call(matching!(_))
            .answers_arc(Arc::new(move |_: &mut Unimock, pos: SeekFrom| respond_seek(&a, pos))),
    )
    .no_verify_in_drop()
}

fn drive_seek(s: &mut dyn Seek, driver: usize) -> String {
    match driver {
        0 => show(&s.rewind()),
        _ => show(&s.stream_position()),
    }
}

// ------------------------------------------------------------------------------------- Hasher

struct PlainHasher(Sh);

impl core::hash::Hasher for PlainHasher {
    fn finish(&self) -> u64 {
        next(&self.0, "finish()".into());
        7
    }
    fn write(&mut self, bytes: &[u8]) {
        next(&self.0, format!("write({bytes:?})"));
    }
}

fn mock_hasher(sh: &Sh) -> Unimock {
    use unimock::mock::core::hash::HasherMock;
    let (a, b) = (sh.clone(), sh.clone());
    Unimock::new((
        HasherMock::finish.each_call(matching!()).answers_arc(Arc::new(move |_: &Unimock| {
            next(&a, "finish()".into());
            7
        })),
        HasherMock::write
            .each_call(matching!(_))
            .answers_arc(Arc::new(move |_: &mut Unimock, bytes: &[u8]| {
                next(&b, format!("write({bytes:?})"));
            })),
    ))
    .no_verify_in_drop()
}

fn drive_hasher(h: &mut dyn core::hash::Hasher) -> String {
    h.write_u8(1);
    h.write_u16(0x0203);
    h.write_u32(0x0405_0607);
    h.write_u64(0x0809_0a0b_0c0d_0e0f);
    h.write_u128(0x1011_1213_1415_1617_1819_1a1b_1c1d_1e1f);
    h.write_usize(0x20);
    h.write_i8(-1);
    h.write_i16(-2);
    h.write_i32(-3);
    h.write_i64(-4);
    h.write_i128(-5);
    h.write_isize(-6);
    format!("{}", h.finish())
}

// ------------------------------------------------------------------------------------- Display

struct PlainDisplay(Sh);

fn respond_fmt(sh: &Sh, f: &mut core::fmt::Formatter<'_>) -> core::fmt::Result {
    match next(sh, "fmt()".into()) {
        Some(Ans::Bytes(b)) => write!(f, "{}", String::from_utf8_lossy(&b)),
        Some(Ans::Other) => Err(core::fmt::Error),
        _ => write!(f, "dflt"),
    }
}

impl core::fmt::Display for PlainDisplay {
    fn fmt(&self, f: &mut core::fmt::Formatter<'_>) -> core::fmt::Result {
        respond_fmt(&self.0, f)
    }
}

fn mock_display(sh: &Sh) -> Unimock {
    use unimock::mock::core::fmt::{DebugMock, DisplayMock};
    let (a, b) = (sh.clone(), sh.clone());
    Unimock::new((
        DisplayMock::fmt
            .each_call(matching!(_))
            .answers_arc(Arc::new(move |_: &Unimock, f: &mut core::fmt::Formatter<'_>| respond_fmt(&a, f))),
        DebugMock::fmt
            .each_call(matching!(_))
            .answers_arc(Arc::new(move |_: &Unimock, f: &mut core::fmt::Formatter<'_>| respond_fmt(&b, f))),
    ))
    .no_verify_in_drop()
}


// ------------------------------------------- mirrored traits reached from a user trait's default body

/// A user trait whose default body formats `self` both ways: through the delegation helper the two
/// renderings still go to the mirrored `Debug` and `Display` entry points respectively.
#[unimock(api = NamedMock)]
pub trait Named: core::fmt::Debug + core::fmt::Display {
    fn describe(&self) -> String {
        format!("{self:?}|{self}|{self:?}")
    }
}

struct PlainNamed;

impl core::fmt::Debug for PlainNamed {
    fn fmt(&self, f: &mut core::fmt::Formatter<'_>) -> core::fmt::Result {
        write!(f, "DBG")
    }
}

impl core::fmt::Display for PlainNamed {
    fn fmt(&self, f: &mut core::fmt::Formatter<'_>) -> core::fmt::Result {
        write!(f, "DSP")
    }
}

impl Named for PlainNamed {}

fn lifecycle_cells(t: &mut Tally<'_>) {
    use unimock::mock::core::fmt::{DebugMock, DisplayMock};
    use unimock::mock::std::error::ErrorMock;
    use unimock::mock::std::io::WriteMock;
    let mut cell = |name: &str, got: Result<String, String>, want: &str| {
        t.ctx.tick();
        t.stats.add("traces_validated_against_impl", 1);
        t.stats.add("transitions", 1);
        t.stats.add("lifecycle_cells", 1);
        if got.as_deref() != Ok(want) {
            t.ctx.violation(
                &format!("bundled-lifecycle:{name}"),
                &format!("{name}: a plain implementation gives {want:?}, the mock gave {got:?}"),
                J::obj().set("what", name),
            );
        }
    };
    // Debug and Display of self inside a delegated default body
    let got = catch(|| {
        let u = Unimock::new((
            DebugMock::fmt.each_call(matching!(_)).answers(&|_, f| write!(f, "DBG")).n_times(2),
            DisplayMock::fmt.each_call(matching!(_)).answers(&|_, f| write!(f, "DSP")).n_times(1),
        ));
        let text = u.describe();
        let direct = format!("{u:?}/{u}");
        let verdict = catch(move || drop(u.no_verify_in_drop()));
        format!("{text} {direct} {verdict:?}")
    });
    cell("Debug+Display in a delegated default body", got, &format!("{} DBG/DSP Ok(())", PlainNamed.describe()));
    // counts are judged as usual after delegation (the helper is released first)
    let got = catch(|| {
        let u = Unimock::new((
            DebugMock::fmt.each_call(matching!(_)).answers(&|_, f| write!(f, "DBG")).n_times(2),
            DisplayMock::fmt.each_call(matching!(_)).answers(&|_, f| write!(f, "DSP")).n_times(1),
        ));
        let text = u.describe();
        let verdict = catch(move || u.verify());
        format!("{text} {verdict:?}")
    });
    cell("explicit verify() after a delegated default body", got, &format!("{} Ok(())", PlainNamed.describe()));
    // no_verify_in_drop(), an un-mocked provided method (internal helper clone), then verify()
    for through_clone in [false, true] {
        let got = catch(|| {
            let mut u = Unimock::new(WriteMock::write.each_call(matching!(_)).answers(&|_, buf| Ok(buf.len())).n_times(1)).no_verify_in_drop();
            let r = if through_clone {
                let mut c = u.clone();
                let r = c.write_all(b"ab");
                drop(c);
                r
            } else {
                u.write_all(b"ab")
            };
            let verdict = catch(move || u.verify());
            format!("{} {verdict:?}", show(&r))
        });
        cell(
            if through_clone { "no_verify_in_drop + provided method on a clone + verify()" } else { "no_verify_in_drop + provided method + verify()" },
            got,
            "Ok(()) Ok(())",
        );
    }
    // an error chain the natural way: source() lends a derived mock
    let got = catch(|| {
        use std::error::Error;
        let u = Unimock::new((
            ErrorMock::source
                .next_call(matching!())
                .answers(&|u| Some(u.make_ref(u.clone()) as &(dyn Error + 'static))),
            ErrorMock::source.next_call(matching!()).answers(&|_| None),
        ));
        let depth = {
            let first = u.source().map(|inner| inner.source().is_none());
            format!("{first:?}")
        };
        let verdict = catch(move || drop(u));
        format!("{depth} {verdict:?}")
    });
    cell("Error::source lending a derived mock", got, "Some(true) Ok(())");
}


// ----------------------------------------------------- scripts written as quantified clause chains

/// The script on a required method is not an answer closure here but what a user would write: a
/// chain of quantified responses. Driven through upstream provided methods, the results and the
/// number of required-method calls equal those of a plain struct replaying the same script.
fn clause_script_cells(t: &mut Tally<'_>) {
    use embedded_hal::delay::DelayNs;
    use unimock::mock::embedded_hal_1::delay::DelayNsMock;
    use unimock::mock::std::io::ReadMock;
    let mut cell = |name: &str, got: Result<String, String>, want: String| {
        t.ctx.tick();
        t.stats.add("traces_validated_against_impl", 1);
        t.stats.add("transitions", 1);
        t.stats.add("clause_script_cells", 1);
        if got.as_ref() != Ok(&want) {
            t.ctx.violation(
                &format!("clause-script:{name}"),
                &format!("{name}: a plain implementation gives {want:?}, the mock gave {got:?}"),
                J::obj().set("what", name),
            );
        }
    };
    // Read::read_exact over `k` interrupted reads followed by one-byte reads, ordered and unordered
    for k in 0..4usize {
        for ordered in [true, false] {
            let mut sc = vec![Ans::Interrupted; k];
            sc.push(Ans::Bytes(vec![7]));
            sc.push(Ans::Bytes(vec![8]));
            let sh = script(&sc);
            let mut p = PlainRead(sh.clone());
            let mut buf = [0u8; 2];
            let res = p.read_exact(&mut buf);
            let want = format!("{} {buf:?} calls={}", show(&res), log_of(&sh).len());
            let got = catch(|| {
                fn interrupted(_: &mut Unimock, _: &mut [u8]) -> io::Result<usize> {
                    Err(io::Error::new(io::ErrorKind::Interrupted, "interrupted"))
                }
                fn one(_: &mut Unimock, b: &mut [u8]) -> io::Result<usize> {
                    b[0] = 7;
                    Ok(1)
                }
                fn two(_: &mut Unimock, b: &mut [u8]) -> io::Result<usize> {
                    b[0] = 8;
                    Ok(1)
                }
                let mut u = if ordered {
                    Unimock::new(ReadMock::read.next_call(matching!(_)).answers(&interrupted).n_times(k).then().answers(&one).once().then().answers(&two))
                } else {
                    Unimock::new(ReadMock::read.some_call(matching!(_)).answers(&interrupted).n_times(k).then().answers(&one).once().then().answers(&two).at_least_times(1))
                };
                let mut buf = [0u8; 2];
                let res = u.read_exact(&mut buf);
                let calls = unimock::verif::snapshot(&u).methods.iter().map(|m| m.patterns.iter().map(|p| p.count).sum::<usize>()).sum::<usize>();
                let verdict = catch(move || drop(u));
                format!("{} {buf:?} calls={calls} {verdict:?}", show(&res))
            });
            cell(&format!("Read::read_exact/{k} interrupts/{}", if ordered { "next_call chain" } else { "some_call chain" }), got, format!("{want} Ok(())"));
        }
    }
    // a scripted tail that the provided method never asks for: the plain struct is left with an
    // unconsumed script entry, the mock with an unmet expectation (an any-order chain ending in an
    // unquantified response after then() expects at least one more call)
    for (len, tail_reached) in [(1usize, false), (2, true)] {
        let got = catch(|| {
            fn one(_: &mut Unimock, b: &mut [u8]) -> io::Result<usize> {
                b[0] = 7;
                Ok(1)
            }
            fn two(_: &mut Unimock, b: &mut [u8]) -> io::Result<usize> {
                b[0] = 8;
                Ok(1)
            }
            let mut u = Unimock::new(ReadMock::read.each_call(matching!(_)).answers(&one).once().then().answers(&two));
            let mut buf = vec![0u8; len];
            let res = u.read_exact(&mut buf);
            let verdict = catch(move || drop(u));
            let unmet = matches!(&verdict, Err(msg) if msg.contains("at least 2 calls") && msg.contains("matched 1 call"));
            format!("{} {buf:?} {}", show(&res), if verdict.is_ok() { "script consumed" } else if unmet { "script entry left over" } else { "other failure" })
        });
        let want = format!("Ok(()) {:?} {}", if len == 1 { vec![7u8] } else { vec![7u8, 8] }, if tail_reached { "script consumed" } else { "script entry left over" });
        cell(&format!("Read::read_exact({len} byte(s))/each_call once().then() open tail"), got, want);
    }
    // DelayNs::delay_ms over a delay_ns that is configured once with a value and a lower bound
    for ms in [1u32, 4_294, 10_000] {
        let sh = script(&[]);
        let mut p = hal::plain_delay(&sh);
        p.delay_ms(ms);
        let want = format!("calls={}", log_of(&sh).len());
        let got = catch(|| {
            let mut u = Unimock::new(DelayNsMock::delay_ns.some_call(matching!(_)).returns(()).at_least_times(1));
            u.delay_ms(ms);
            let calls = unimock::verif::snapshot(&u).methods.iter().map(|m| m.patterns.iter().map(|p| p.count).sum::<usize>()).sum::<usize>();
            let verdict = catch(move || drop(u));
            format!("calls={calls} {verdict:?}")
        });
        cell(&format!("DelayNs::delay_ms({ms})/some_call returns at_least_times(1)"), got, format!("{want} Ok(())"));
    }
}

/// One step of a clause script for Write::write: accepts exactly the buffers starting with byte `K`
/// and takes that one byte.
fn write_step<const K: u8>() -> impl Clause {
    use unimock::mock::std::io::WriteMock;
    fn one(_: &mut Unimock, _: &[u8]) -> io::Result<usize> {
        Ok(1)
    }
    WriteMock::write.next_call(matching!(([b, ..]) if *b == K)).answers(&one)
}

/// Scripts written as one flat tuple of n clauses, n = 2..16 (a script of n one-byte steps driven
/// by write_all over n distinct bytes: any two exchanged steps refuse the call), and scripts in
/// which a counted any-order clause is listed before the ordered steps.
fn flat_script_cells(t: &mut Tally<'_>) {
    use unimock::mock::std::io::WriteMock;
    let mut cell = |name: String, n: usize, got: Result<String, String>| {
        t.ctx.tick();
        t.stats.add("traces_validated_against_impl", 1);
        t.stats.add("transitions", n as u64);
        t.stats.add("clause_script_cells", 1);
        // the plain struct: a script of n one-byte answers
        let sh = script(&vec![Ans::N(1); n]);
        let bytes: Vec<u8> = (0..n as u8).collect();
        let res = PlainWrite(sh.clone()).write_all(&bytes);
        let want = format!("{} calls={} Ok(())", show(&res), log_of(&sh).len());
        if got.as_ref() != Ok(&want) {
            t.ctx.violation(
                &format!("clause-script:{name}"),
                &format!("{name}: a plain implementation gives {want:?}, the mock gave {got:?}"),
                J::obj().set("what", name.as_str()),
            );
        }
    };
    fn drive(u: Unimock, n: usize) -> String {
        let mut u = u;
        let bytes: Vec<u8> = (0..n as u8).collect();
        let res = u.write_all(&bytes);
        let calls = unimock::verif::snapshot(&u).method("Write::write").map(|m| m.patterns.iter().map(|p| p.count).sum::<usize>()).unwrap_or(0);
        let verdict = catch(move || drop(u));
        format!("{} calls={calls} {verdict:?}", show(&res))
    }
    macro_rules! flat {
        ($n:expr; $($k:literal),*) => {
            cell(format!("Write::write_all/flat tuple of {} clauses", $n), $n, catch(|| drive(Unimock::new(($(write_step::<$k>(),)*)), $n)));
        };
    }
    flat!(2; 0, 1);
    flat!(3; 0, 1, 2);
    flat!(4; 0, 1, 2, 3);
    flat!(5; 0, 1, 2, 3, 4);
    flat!(6; 0, 1, 2, 3, 4, 5);
    flat!(7; 0, 1, 2, 3, 4, 5, 6);
    flat!(8; 0, 1, 2, 3, 4, 5, 6, 7);
    flat!(9; 0, 1, 2, 3, 4, 5, 6, 7, 8);
    flat!(10; 0, 1, 2, 3, 4, 5, 6, 7, 8, 9);
    flat!(11; 0, 1, 2, 3, 4, 5, 6, 7, 8, 9, 10);
    flat!(12; 0, 1, 2, 3, 4, 5, 6, 7, 8, 9, 10, 11);
    flat!(13; 0, 1, 2, 3, 4, 5, 6, 7, 8, 9, 10, 11, 12);
    flat!(14; 0, 1, 2, 3, 4, 5, 6, 7, 8, 9, 10, 11, 12, 13);
    flat!(15; 0, 1, 2, 3, 4, 5, 6, 7, 8, 9, 10, 11, 12, 13, 14);
    flat!(16; 0, 1, 2, 3, 4, 5, 6, 7, 8, 9, 10, 11, 12, 13, 14, 15);
    // a nested script: 16 steps as a pair of flat tuples of 8
    cell(
        "Write::write_all/(8 clauses, 8 clauses)".to_string(),
        16,
        catch(|| {
            drive(
                Unimock::new((
                    (write_step::<0>(), write_step::<1>(), write_step::<2>(), write_step::<3>(), write_step::<4>(), write_step::<5>(), write_step::<6>(), write_step::<7>()),
                    (write_step::<8>(), write_step::<9>(), write_step::<10>(), write_step::<11>(), write_step::<12>(), write_step::<13>(), write_step::<14>(), write_step::<15>()),
                )),
                16,
            )
        }),
    );
    // "flush exactly once" (any order) listed before, between and after the ordered write steps
    for pos in 0..3usize {
        let got = catch(|| {
            let flush = || WriteMock::flush.some_call(matching!()).returns(Ok(()));
            let mut u = match pos {
                0 => Unimock::new((flush(), write_step::<0>(), write_step::<1>())),
                1 => Unimock::new((write_step::<0>(), flush(), write_step::<1>())),
                _ => Unimock::new((write_step::<0>(), write_step::<1>(), flush())),
            };
            let res = u.write_all(&[0, 1]).and_then(|_| u.flush());
            let calls = unimock::verif::snapshot(&u).method("Write::write").map(|m| m.patterns.iter().map(|p| p.count).sum::<usize>()).unwrap_or(0);
            let verdict = catch(move || drop(u));
            format!("{} calls={calls} {verdict:?}", show(&res))
        });
        cell(format!("Write::write_all + flush/counted any-order flush listed at position {pos}"), 2, got);
    }
}

// ------------------------------------------------------------------------------------- driver

pub struct Tally<'a> {
    pub ctx: &'a vh::explore::Ctx,
    pub stats: Stats,
}

impl Tally<'_> {
    /// Compare one (script, driver) run of the mock with the plain struct.
    pub fn compare(&mut self, what: &str, script_desc: &str, mock: Result<(String, Vec<String>), String>, plain: (String, Vec<String>)) {
        self.ctx.tick();
        self.stats.add("traces_validated_against_impl", 1);
        self.stats.add("transitions", plain.1.len() as u64 + 1);
        self.stats.note("outcomes", format!("{what}:{}", plain.0));
        let same = match &mock {
            Ok(m) => *m == plain,
            Err(_) => false,
        };
        if !same {
            self.ctx.violation(
                &format!("composition:{what}"),
                &format!("{what} with script {script_desc}: the plain struct gave result {:?} with required-method calls {:?}, the mock gave {:?}", plain.0, plain.1, mock),
                J::obj().set("what", what).set("script", script_desc),
            );
        }
    }
}

fn all_scripts(alphabet: &[Ans], max_len: usize) -> Vec<Vec<Ans>> {
    let mut out = vec![];
    for len in 0..=max_len {
        out.extend(sequences(alphabet, len));
    }
    out
}


// ------------------------------------------------------------------- long scripts, small stacks

/// One script of `n` one-byte chunks (no delimiter) read through `BufRead::read_until` on a thread
/// with a `stack` byte stack: every `fill_buf` lends one value through `make_ref`; the mock is
/// dropped on that thread. Runs in a child process (a stack overflow aborts).
fn long_script(n: usize, stack: usize) -> Result<(), String> {
    let r = std::thread::Builder::new()
        .stack_size(stack)
        .spawn(move || -> Result<(), String> {
            let chunks: Vec<Ans> = (0..n).map(|i| Ans::Bytes(vec![b'a' + (i % 7) as u8])).collect();
            let sh = script(&chunks);
            let mut p = PlainBufRead(sh.clone(), vec![]);
            let mut want = vec![];
            let want_res = show(&p.read_until(b'\n', &mut want));
            let want_log = log_of(&sh).len();
            let sh2 = script(&chunks);
            let mut u = mock_bufread(&sh2);
            let mut got = vec![];
            let got_res = show(&u.read_until(b'\n', &mut got));
            if got_res != want_res || got != want || log_of(&sh2).len() != want_log {
                return Err(format!("read_until over {n} chunks: plain {want_res} ({want_log} calls), mock {got_res} ({} calls)", log_of(&sh2).len()));
            }
            drop(u);
            Ok(())
        })
        .map_err(|e| format!("cannot spawn: {e}"))?
        .join();
    match r {
        Ok(r) => r,
        Err(p) => Err(format!("panicked: {}", payload_to_string(p))),
    }
}

fn long_script_child(n: usize, stack: usize) -> Result<(), String> {
    use std::os::unix::process::ExitStatusExt;
    let out = std::process::Command::new(std::env::current_exe().unwrap())
        .arg("--long-script")
        .arg(n.to_string())
        .arg(stack.to_string())
        .output()
        .map_err(|e| format!("cannot spawn child: {e}"))?;
    if let Some(sig) = out.status.signal() {
        return Err(format!(
            "the process died by signal {sig}: {}",
            String::from_utf8_lossy(&out.stderr).lines().last().unwrap_or("")
        ));
    }
    if !out.status.success() {
        return Err(String::from_utf8_lossy(&out.stdout).trim().to_string());
    }
    Ok(())
}

// ------------------------------------------------- provided methods that are mocked themselves

/// A provided method with clauses of its own is *mocked*: an input none of its patterns accepts
/// fails loudly on a strict mock instead of running the upstream body; a matching input gets the
/// configured response; in both cases no required method is called.
fn mocked_provided_cells(t: &mut Tally<'_>) {
    use embedded_hal::delay::DelayNs;
    use unimock::mock::embedded_hal_1::delay::DelayNsMock;
    use unimock::mock::std::io::{ReadMock, WriteMock};
    // formatting macros go through a write_all that is scripted itself, exactly as they go through
    // an overridden write_all of a hand-written impl
    {
        struct OverridesWriteAll(Vec<String>);
        impl Write for OverridesWriteAll {
            fn write(&mut self, buf: &[u8]) -> io::Result<usize> {
                self.0.push(format!("write({buf:?})"));
                Ok(buf.len())
            }
            fn flush(&mut self) -> io::Result<()> {
                Ok(())
            }
            fn write_all(&mut self, buf: &[u8]) -> io::Result<()> {
                self.0.push(format!("write_all({buf:?})"));
                Ok(())
            }
        }
        let mut plain = OverridesWriteAll(vec![]);
        let r = write!(plain, "a{}b", 7);
        let want = format!("{} {:?}", show(&r), plain.0);
        let sh = script(&[]);
        let (a, b) = (sh.clone(), sh.clone());
        let got = catch(|| {
            let mut u = Unimock::new((
                WriteMock::write_all.each_call(matching!(_)).answers_arc(Arc::new(move |_: &mut Unimock, buf: &[u8]| {
                    next(&a, format!("write_all({buf:?})"));
                    Ok(())
                })),
                WriteMock::write.each_call(matching!(_)).answers_arc(Arc::new(move |_: &mut Unimock, buf: &[u8]| {
                    next(&b, format!("write({buf:?})"));
                    Ok(buf.len())
                })),
            ))
            .no_verify_in_drop();
            show(&write!(u, "a{}b", 7))
        });
        let got = got.map(|r| format!("{r} {:?}", log_of(&sh)));
        t.ctx.tick();
        t.stats.add("traces_validated_against_impl", 1);
        t.stats.add("mocked_provided_cells", 1);
        if got.as_ref() != Ok(&want) {
            t.ctx.violation(
                "mocked-provided:write! over a scripted write_all",
                &format!("write! over a scripted write_all: a hand-written impl overriding write_all gives {want:?}, the mock gave {got:?}"),
                J::obj().set("what", "write! over a scripted write_all"),
            );
        }
    }
    // a provided method listed only to say "run the upstream body" is counted as called
    {
        let got = catch(|| {
            let mut u = Unimock::new((
                WriteMock::write_all.each_call(matching!(_)).applies_default_impl(),
                WriteMock::write.each_call(matching!(_)).answers(&|_, buf| Ok(buf.len())),
            ));
            let r = u.write_all(b"xy");
            let verdict = catch(move || drop(u));
            format!("{} {verdict:?}", show(&r))
        });
        t.ctx.tick();
        t.stats.add("traces_validated_against_impl", 1);
        t.stats.add("mocked_provided_cells", 1);
        if got.as_deref() != Ok("Ok(()) Ok(())") {
            t.ctx.violation(
                "mocked-provided:applies_default_impl listing is counted",
                &format!("write_all listed with an unquantified applies_default_impl() clause, called once, then verified: expected \"Ok(()) Ok(())\", the mock gave {got:?}"),
                J::obj().set("what", "applies_default_impl listing"),
            );
        }
    }
    let mut cell = |name: &str, got: Result<String, String>, log: Vec<String>, want_ok: Option<&str>, needle: &str| {
        t.ctx.tick();
        t.stats.add("traces_validated_against_impl", 1);
        t.stats.add("transitions", 1);
        t.stats.add("mocked_provided_cells", 1);
        let ok = match (&got, want_ok) {
            (Ok(v), Some(w)) => v == w,
            (Err(msg), None) => msg.contains(needle) && msg.contains("No matching call patterns"),
            _ => false,
        } && log.is_empty();
        if !ok {
            t.ctx.violation(
                &format!("mocked-provided:{name}"),
                &format!("{name}: observed {got:?} with required-method calls {log:?}; expected {} and no required-method call", match want_ok { Some(w) => format!("the configured response {w}"), None => format!("a panic naming {needle} (no pattern matches)") }),
                J::obj().set("what", name),
            );
        }
    };
    for matching_input in [true, false] {
        // Write::write_all
        let sh = script(&[]);
        let (a, b) = (sh.clone(), sh.clone());
        let got = catch(|| {
            let mut u = Unimock::new((
                WriteMock::write_all.each_call(matching!([1, 2])).answers(&|_, _| Ok(())),
                WriteMock::write.each_call(matching!(_)).answers_arc(Arc::new(move |_: &mut Unimock, buf: &[u8]| respond_write(&a, buf))),
                WriteMock::flush.each_call(matching!()).answers_arc(Arc::new(move |_: &mut Unimock| respond_flush(&b))),
            ))
            .no_verify_in_drop();
            show(&u.write_all(if matching_input { &[1, 2] } else { &[3] }))
        });
        cell(if matching_input { "Write::write_all/matching" } else { "Write::write_all/unmatched" }, got, log_of(&sh), if matching_input { Some("Ok(())") } else { None }, "Write::write_all");
        // Read::read_exact
        let sh = script(&[Ans::Bytes(vec![1, 2, 3, 4])]);
        let a = sh.clone();
        let got = catch(|| {
            let mut u = Unimock::new((
                ReadMock::read_exact.each_call(matching!([0, 0])).answers(&|_, _| Ok(())),
                ReadMock::read.each_call(matching!(_)).answers_arc(Arc::new(move |_: &mut Unimock, buf: &mut [u8]| respond_read(&a, buf))),
            ))
            .no_verify_in_drop();
            let mut small = [0u8; 2];
            let mut big = [0u8; 3];
            show(&if matching_input { u.read_exact(&mut small) } else { u.read_exact(&mut big) })
        });
        cell(if matching_input { "Read::read_exact/matching" } else { "Read::read_exact/unmatched" }, got, log_of(&sh), if matching_input { Some("Ok(())") } else { None }, "Read::read_exact");
        // DelayNs::delay_ms
        let sh = script(&[]);
        let a = sh.clone();
        let got = catch(|| {
            let mut u = Unimock::new((
                DelayNsMock::delay_ms.each_call(matching!(5)).returns(()),
                DelayNsMock::delay_ns.each_call(matching!(_)).answers_arc(Arc::new(move |_: &mut Unimock, ns: u32| {
                    next(&a, format!("delay_ns({ns})"));
                })),
            ))
            .no_verify_in_drop();
            u.delay_ms(if matching_input { 5 } else { 6 });
            "()".to_string()
        });
        cell(if matching_input { "DelayNs::delay_ms/matching" } else { "DelayNs::delay_ms/unmatched" }, got, log_of(&sh), if matching_input { Some("()") } else { None }, "DelayNs::delay_ms");
    }
}

fn main() {
    let args: Vec<String> = std::env::args().collect();
    if args.len() == 4 && args[1] == "--long-script" {
        silence_panics();
        match long_script(args[2].parse().unwrap(), args[3].parse().unwrap()) {
            Ok(()) => std::process::exit(0),
            Err(what) => {
                println!("{what}");
                std::process::exit(3);
            }
        }
    }
    silence_panics();
    let ctx: &'static vh::explore::Ctx = Box::leak(Box::new(vh::explore::Ctx::from_args("C20")));
    if ctx.replay.is_some() {
        machinery("C20 cases are reproduced by re-running ./check C20 quick (the failing script is in the replay file)");
    }
    let quick = ctx.quick();
    let max_len = if quick { 3 } else { 7 };
    let mut t = Tally {
        ctx,
        stats: Stats::default(),
    };

    // Write: chunk sizes {0,1,2,3}, errors, through write_all / write_vectored / write! / flush
    let walpha = [Ans::N(0), Ans::N(1), Ans::N(2), Ans::N(3), Ans::Interrupted, Ans::Other];
    for sc in all_scripts(&walpha, max_len) {
        for driver in 0..4 {
            for partial in [false, true] {
                let desc = format!("{sc:?}");
                let sh = script(&sc);
                let mut p = PlainWrite(sh.clone());
                let pr = drive_write(&mut p, driver);
                let plain = (pr, log_of(&sh));
                let sh2 = script(&sc);
                let mock = catch(|| {
                    let mut u = mock_write(&sh2, partial);
                    drive_write(&mut u, driver)
                })
                .map(|r| (r, log_of(&sh2)));
                t.compare(&format!("Write/driver{driver}/{}", if partial { "partial" } else { "strict" }), &desc, mock, plain);
            }
        }
    }
    // the same drivers on a clone that lives on another thread (and is dropped there), and with
    // the original finished through Termination::report() afterwards
    for sc in all_scripts(&walpha, 2) {
        for driver in 0..4 {
            let desc = format!("{sc:?}");
            let sh = script(&sc);
            let mut p = PlainWrite(sh.clone());
            let pr = drive_write(&mut p, driver);
            let plain = (format!("{pr} report=ExitCode(unix_exit_status(0))"), log_of(&sh));
            let sh2 = script(&sc);
            let mock = catch(|| {
                use std::process::Termination;
                let u = {
                    use unimock::mock::std::io::WriteMock;
                    let (a, b) = (sh2.clone(), sh2.clone());
                    Unimock::new((
                        WriteMock::write
                            .each_call(matching!(_))
                            .answers_arc(Arc::new(move |_: &mut Unimock, buf: &[u8]| respond_write(&a, buf))),
                        WriteMock::flush
                            .each_call(matching!())
                            .answers_arc(Arc::new(move |_: &mut Unimock| respond_flush(&b))),
                    ))
                };
                let mut c = u.clone();
                let r = std::thread::spawn(move || {
                    let r = drive_write(&mut c, driver);
                    drop(c);
                    r
                })
                .join()
                .map_err(payload_to_string);
                // every clause is an each_call without count: report() succeeds iff both were hit
                let mut orig = u;
                // a provided method on the original itself (creates its internal helper clone)
                let _ = orig.write_all(b"");
                let _ = orig.write(b"");
                let _ = orig.flush();
                let code = orig.report();
                format!("{} report={code:?}", r.unwrap_or_else(|e| format!("worker panicked: {e}")))
            })
            .map(|r| {
                let mut log = log_of(&sh2);
                // the two extra calls that make every clause count
                log.truncate(log.len().saturating_sub(2));
                (r, log)
            });
            t.compare(&format!("Write/driver{driver}/clone-on-thread+report"), &desc, mock, plain);
        }
    }
    // Read: payload chunks and errors through read_exact / read_to_end / read_to_string / read_vectored
    let ralpha = [
        Ans::Bytes(vec![]),
        Ans::Bytes(b"a".to_vec()),
        Ans::Bytes(b"b\n".to_vec()),
        Ans::Bytes(b"abc".to_vec()),
        Ans::Interrupted,
        Ans::Other,
    ];
    for sc in all_scripts(&ralpha, max_len) {
        for driver in 0..4 {
            for partial in [false, true] {
                let desc = format!("{sc:?}");
                let sh = script(&sc);
                let mut p = PlainRead(sh.clone());
                let pr = drive_read(&mut p, driver);
                let plain = (pr, log_of(&sh));
                let sh2 = script(&sc);
                let mock = catch(|| {
                    let mut u = mock_read(&sh2, partial);
                    drive_read(&mut u, driver)
                })
                .map(|r| (r, log_of(&sh2)));
                t.compare(&format!("Read/driver{driver}/{}", if partial { "partial" } else { "strict" }), &desc, mock, plain);
            }
        }
    }
    // BufRead
    let balpha = [
        Ans::Bytes(b"a".to_vec()),
        Ans::Bytes(b"b\n".to_vec()),
        Ans::Bytes(b"x\ny".to_vec()),
        Ans::Interrupted,
        Ans::Other,
    ];
    for sc in all_scripts(&balpha, max_len) {
        for driver in 0..2 {
            let desc = format!("{sc:?}");
            let sh = script(&sc);
            let mut p = PlainBufRead(sh.clone(), vec![]);
            let pr = drive_bufread(&mut p, driver);
            let plain = (pr, log_of(&sh));
            let sh2 = script(&sc);
            let mock = catch(|| {
                let mut u = mock_bufread(&sh2);
                drive_bufread(&mut u, driver)
            })
            .map(|r| (r, log_of(&sh2)));
            t.compare(&format!("BufRead/driver{driver}"), &desc, mock, plain);
        }
    }
    // Seek
    for sc in all_scripts(&[Ans::N(0), Ans::N(5), Ans::Interrupted, Ans::Other], 2) {
        for driver in 0..2 {
            let desc = format!("{sc:?}");
            let sh = script(&sc);
            let mut p = PlainSeek(sh.clone());
            let pr = drive_seek(&mut p, driver);
            let plain = (pr, log_of(&sh));
            let sh2 = script(&sc);
            let mock = catch(|| {
                let mut u = mock_seek(&sh2);
                drive_seek(&mut u, driver)
            })
            .map(|r| (r, log_of(&sh2)));
            t.compare(&format!("Seek/driver{driver}"), &desc, mock, plain);
        }
    }
    // Hasher
    {
        let sh = script(&[]);
        let mut p = PlainHasher(sh.clone());
        let pr = drive_hasher(&mut p);
        let plain = (pr, log_of(&sh));
        let sh2 = script(&[]);
        let mock = catch(|| {
            let mut u = mock_hasher(&sh2);
            drive_hasher(&mut u)
        })
        .map(|r| (r, log_of(&sh2)));
        t.compare("Hasher/write_*", "[]", mock, plain);
    }
    // Display / Debug through format!
    for sc in all_scripts(&[Ans::Bytes(b"hi".to_vec()), Ans::Bytes(vec![]), Ans::N(0)], 2) {
        let desc = format!("{sc:?}");
        let sh = script(&sc);
        let p = PlainDisplay(sh.clone());
        let pr = format!("{p}|{p:>6}|{}", p.to_string().len());
        let plain = (pr, log_of(&sh));
        let sh2 = script(&sc);
        let mock = catch(|| {
            let u = mock_display(&sh2);
            format!("{u}|{u:>6}|{}", u.to_string().len())
        })
        .map(|r| (r, log_of(&sh2)));
        t.compare("Display/format!", &desc, mock, plain);
        let sh3 = script(&sc);
        let mock_dbg = catch(|| {
            let u = mock_display(&sh3);
            format!("{u:?}")
        });
        let sh4 = script(&sc);
        let plain_dbg = format!("{}", PlainDisplay(sh4.clone()));
        t.compare("Debug/format!", &desc, mock_dbg.map(|r| (r, log_of(&sh3))), (plain_dbg, log_of(&sh4)));
    }
    mocked_provided_cells(&mut t);
    lifecycle_cells(&mut t);
    clause_script_cells(&mut t);
    flat_script_cells(&mut t);
    // long scripts: thousands of lent chunks, released on a small stack
    for (n, stack) in [(2_000usize, 64 * 1024usize), (12_000, 256 * 1024)] {
        t.ctx.tick();
        t.stats.add("traces_validated_against_impl", 1);
        t.stats.add("transitions", n as u64);
        if let Err(what) = long_script_child(n, stack) {
            t.ctx.violation("long-script", &format!("BufRead::read_until over {n} lent chunks on a {stack} byte stack: {what}"), J::obj().set("long_script", n).set("stack", stack));
        }
    }
    hal::run(&mut t, quick);
    asyncio::run(&mut t, quick);
    let composition_runs = t.stats.get("traces_validated_against_impl");
    wiring::run(&mut t);

    let stats = t.stats;
    if stats.set_len("outcomes") < 30 {
        vacuous("fewer than 30 distinct composition outcomes");
    }
    let mut cov = J::obj()
        .set("evaluations", stats.get("traces_validated_against_impl"))
        .set("distinct_nontrivial", stats.set_len("outcomes"))
        .set(
            "rule",
            "composition: every script up to the length bound over chunk sizes {0,1,2,3} / payload chunks / Interrupted / Other, replayed by a Unimock (required methods answer from the script) and by a plain struct implementing the upstream trait, through write_all, write_vectored, write!, flush, read_exact, read_to_end, read_to_string, read_vectored, read_until, read_line, rewind, stream_position, Hasher::write_*, format! via Display/Debug, DelayNs::delay_us/ms, OutputPin::set_state, StatefulOutputPin::toggle, I2c::read/write/write_read, SetDutyCycle::*, SpiDevice::*, tokio / futures poll_write_vectored, poll_read_vectored, is_write_vectored; wiring: every method of every mirrored trait; non-trivial + distinct = distinct (driver, result) outcomes",
        )
        .set("samples", J::Arr(vec![J::obj().set("driver", "Write::write_all(b\"abcde\")").set("script", "[N(2), Interrupted, N(0)]")]))
        .set("exhaustive", !ctx.stopped())
        .set("script_length_max", max_len)
        .set("composition_runs", composition_runs)
        .set("wiring_methods", stats.get("wiring_methods"));
    cov.put("distinct_outcomes", stats.set_len("outcomes"));
    ctx.finish(
        "exploration",
        cov,
        &[
            "differential oracle: a plain struct implementing the upstream trait with the same script function",
            "features mock-core, mock-std, mock-tokio-1, mock-futures-io-0-3, mock-embedded-hal-1",
        ],
    );
}

//! C07, optional part: a trait whose first item is a receiver-less provided function (skipped by
//! the macro, but occupying a position of the `unmock_with` list). A separate explorer, so that a
//! tree on which the macro does not accept this shape only loses these cells.

use unimock::*;
use vh::explore::*;
use vh::json::J;
use vh::obs::*;

/// A trait with a receiver-less provided function in front: the macro skips it, but it still
/// occupies a position of the `unmock_with` list (kept out of the shared universe so that a macro
/// that stops accepting this shape only affects this explorer).
#[unimock(api=SMock, unmock_with=[_, real_s_unm, real_s_both])]
pub trait S7 {
    fn sides() -> u32
    where
        Self: Sized,
    {
        4
    }
    fn s_unm(&self, x: u8) -> u32;
    fn s_both(&self, x: u8) -> u32 {
        7_000 + x as u32
    }
}

pub fn real_s_unm(_: &impl core::any::Any, x: u8) -> u32 {
    8_000 + x as u32
}

pub fn real_s_both(_: &impl core::any::Any, x: u8) -> u32 {
    9_000 + x as u32
}

fn static_first_cells(stats: &mut Stats, ctx: &vh::explore::Ctx) {
    let mut cell = |name: &str, got: Result<u32, String>, want: u32| {
        stats.add("transitions", 1);
        stats.add("traces_validated_against_impl", 1);
        if got != Ok(want) {
            ctx.violation(
                &format!("static-fn-first/{name}"),
                &format!("{name}: expected {want}, observed {got:?}"),
                J::obj().set("cell", name),
            );
        }
    };
    cell("partial/unmentioned/s_unm", catch(|| Unimock::new_partial(()).s_unm(1)), 8_001);
    cell("partial/unmentioned/s_both (default body first)", catch(|| Unimock::new_partial(()).s_both(1)), 7_001);
    cell("strict/unmentioned/s_both (default body)", catch(|| Unimock::new(()).s_both(2)), 7_002);
    cell(
        "strict/applies_unmocked/s_unm",
        catch(|| Unimock::new(SMock::s_unm.each_call(matching!(_)).applies_unmocked()).s_unm(2)),
        8_002,
    );
    cell(
        "strict/applies_unmocked/s_both",
        catch(|| Unimock::new(SMock::s_both.each_call(matching!(_)).applies_unmocked()).s_both(2)),
        9_002,
    );
    cell(
        "partial/unmatched/s_both (real function)",
        catch(|| Unimock::new_partial(SMock::s_both.each_call(matching!(0)).returns(1u32)).no_verify_in_drop().s_both(2)),
        9_002,
    );
}

fn main() {
    silence_panics();
    let ctx: &'static vh::explore::Ctx = Box::leak(Box::new(vh::explore::Ctx::from_args("C07")));
    let mut stats = Stats::default();
    static_first_cells(&mut stats, ctx);
    stats.add("states", 6);
    let mut cov = stats.to_json();
    cov.put("exhaustive", true);
    cov.put("samples", J::Arr(vec![J::from("partial/unmentioned/s_unm -> 8001")]));
    ctx.finish("model_checking", cov, &["cells of the static-first trait shape"]);
}

//! C12 – single-use return values are moved out at most once and never duplicated (runtime half).
//!
//! Engine S: for every return shape (plain, Option, Result both arms, mixed tuple, nested
//! Option/Vec/Poll composites with owned leaves) x configuration path (single-use: some_call /
//! next_call .returns(v) [.once()]; multi-use: each_call / n_times / at_least_times with a Clone
//! value) x every history of 0..4 requests routed over original and clone: instrumented tokens
//! count constructions, clones and drops. Conservation: every token is dropped exactly once and
//! not before it was delivered or the last instance was torn down; a single-use value reaches at
//! most one caller and every later request panics; multi-use values are cloned once per request.
//! Engine T: 2-4 threads racing for one single-use value under the controlled scheduler.

use std::collections::BTreeSet;
use std::sync::atomic::{AtomicUsize, Ordering};
use std::sync::Arc;
use std::task::Poll;

use unimock::verif::DynClause;
use unimock::*;
use vh::explore::*;
use vh::json::J;
use vh::model::{classify, PanicClass};
use vh::obs::*;
use vh::sched::*;

#[derive(Default, Debug)]
pub struct Counters {
    constructed: AtomicUsize,
    cloned: AtomicUsize,
    dropped: AtomicUsize,
    /// generations of the Clone tokens dropped so far (0 = a configured original, n = a clone of
    /// generation n - 1)
    dropped_generations: std::sync::Mutex<Vec<u32>>,
}

/// A non-Clone token.
#[derive(Debug)]
pub struct Tok {
    id: u32,
    c: Arc<Counters>,
}

impl Tok {
    fn new(id: u32, c: &Arc<Counters>) -> Tok {
        c.constructed.fetch_add(1, Ordering::SeqCst);
        Tok { id, c: c.clone() }
    }
}

impl Drop for Tok {
    fn drop(&mut self) {
        self.c.dropped.fetch_add(1, Ordering::SeqCst);
    }
}

/// A Clone token (clones are counted; a clone has the same id).
#[derive(Debug)]
pub struct CTok {
    id: u32,
    generation: u32,
    c: Arc<Counters>,
}

impl CTok {
    fn new(id: u32, c: &Arc<Counters>) -> CTok {
        c.constructed.fetch_add(1, Ordering::SeqCst);
        CTok { id, generation: 0, c: c.clone() }
    }
}

impl Clone for CTok {
    fn clone(&self) -> Self {
        self.c.cloned.fetch_add(1, Ordering::SeqCst);
        CTok {
            id: self.id,
            generation: self.generation + 1,
            c: self.c.clone(),
        }
    }
}

impl Drop for CTok {
    fn drop(&mut self) {
        self.c.dropped_generations.lock().unwrap().push(self.generation);
        self.c.dropped.fetch_add(1, Ordering::SeqCst);
    }
}

#[unimock(api=TMock)]
pub trait T12 {
    fn tok(&self) -> Tok;
    fn opt(&self) -> Option<Tok>;
    fn res(&self) -> Result<Tok, Tok>;
    fn mixed_res(&self) -> Result<&u32, Tok>;
    fn mixed_tuple(&self) -> (&u32, Tok, Tok);
    fn mixed_opt(&self) -> Option<Result<&str, Tok>>;
    fn mixed_vec(&self) -> Vec<Result<&str, Tok>>;
    fn mixed_poll(&self) -> Poll<Result<&str, Tok>>;
    fn ctok(&self) -> CTok;
    fn copt(&self) -> Option<CTok>;
    fn cmixed_res(&self) -> Result<&u32, CTok>;
    fn cmixed_tuple(&self) -> (&u32, CTok);
    fn cmixed_opt(&self) -> Option<Result<&str, CTok>>;
    fn cmixed_vec(&self) -> Vec<Result<&str, CTok>>;
    fn cmixed_poll(&self) -> Poll<Result<&str, CTok>>;
}

/// What a request delivered: token ids, in structural order.
type Delivered = Vec<u32>;

#[derive(Clone, Copy, Debug, PartialEq, Eq, PartialOrd, Ord)]
enum Shape {
    Tok,
    OptSome,
    ResOk,
    ResErr,
    MixedResErr,
    MixedTuple,
    MixedOptErr,
    MixedVec2,
    MixedPollErr,
}

const SHAPES: [Shape; 9] = [
    Shape::Tok,
    Shape::OptSome,
    Shape::ResOk,
    Shape::ResErr,
    Shape::MixedResErr,
    Shape::MixedTuple,
    Shape::MixedOptErr,
    Shape::MixedVec2,
    Shape::MixedPollErr,
];

#[derive(Clone, Copy, Debug, PartialEq, Eq, PartialOrd, Ord)]
enum Path {
    /// some_call(..).returns(v)
    SomeOpen,
    /// some_call(..).returns(v).once()
    SomeOnce,
    /// next_call(..).returns(v)
    NextOpen,
    /// some_call(..).returns(v).once().then().returns(w) – w is multi-use
    SomeOnceThen,
    /// next_call(..).returns(v), listed after an exactly quantified any-order clause of another
    /// method (which takes no part in the ordered sequence)
    NextAfterExact,
}

const PATHS: [Path; 5] = [Path::SomeOpen, Path::SomeOnce, Path::NextOpen, Path::SomeOnceThen, Path::NextAfterExact];

/// Number of owned tokens in the configured value of a shape.
fn n_tokens(shape: Shape) -> usize {
    match shape {
        Shape::MixedTuple | Shape::MixedVec2 => 2,
        _ => 1,
    }
}

macro_rules! single_use_clause {
    ($out:expr, $mf:expr, $path:expr, $value:expr) => {
        match $path {
            Path::SomeOpen => $out.push($mf.some_call(matching!()).returns($value)),
            Path::SomeOnce => $out.push($mf.some_call(matching!()).returns($value).once()),
            Path::NextOpen => $out.push($mf.next_call(matching!()).returns($value)),
            Path::NextAfterExact => {
                $out.push(TMock::copt.some_call(matching!()).returns(None::<CTok>));
                $out.push(TMock::ctok.each_call(matching!()).panics("unused").n_times(2));
                $out.push($mf.next_call(matching!()).returns($value))
            }
            Path::SomeOnceThen => unreachable!(),
        }
    };
}

/// Build the single-use clause; tokens get ids 1, 2.
fn single_use_mock(shape: Shape, path: Path, c: &Arc<Counters>) -> Unimock {
    let mut out = DynClause::new();
    let t = |id: u32| Tok::new(id, c);
    if path == Path::SomeOnceThen {
        // the follow-up response is a multi-use CTok where the method allows it; only for the plain
        // token method there is no Clone follow-up, so the chain ends in a panic response
        // (a follow-up `returns` of any value whose type contains the non-Clone token does not
        // type-check - that is the compile-time half of the property - so the chain continues with
        // a panics() response)
        match shape {
            Shape::Tok => out.push(TMock::tok.some_call(matching!()).returns(t(1)).once().then().panics("after")),
            Shape::OptSome => out.push(TMock::opt.some_call(matching!()).returns(Some(t(1))).once().then().panics("after")),
            Shape::ResOk => out.push(TMock::res.some_call(matching!()).returns(Ok::<_, Tok>(t(1))).once().then().panics("after")),
            Shape::ResErr => out.push(TMock::res.some_call(matching!()).returns(Err::<Tok, _>(t(1))).once().then().panics("after")),
            Shape::MixedResErr => out.push(TMock::mixed_res.some_call(matching!()).returns(Err::<u32, _>(t(1))).once().then().panics("after")),
            Shape::MixedTuple => out.push(TMock::mixed_tuple.some_call(matching!()).returns((5u32, t(1), t(2))).once().then().panics("after")),
            Shape::MixedOptErr => out.push(TMock::mixed_opt.some_call(matching!()).returns(Some(Err::<&'static str, _>(t(1)))).once().then().panics("after")),
            Shape::MixedVec2 => out.push(TMock::mixed_vec.some_call(matching!()).returns(vec![Err::<&'static str, _>(t(1)), Ok("x"), Err(t(2))]).once().then().panics("after")),
            Shape::MixedPollErr => out.push(TMock::mixed_poll.some_call(matching!()).returns(Poll::Ready(Err::<&'static str, _>(t(1)))).once().then().panics("after")),
        }
        return Unimock::new(out);
    }
    match shape {
        Shape::Tok => single_use_clause!(out, TMock::tok, path, t(1)),
        Shape::OptSome => single_use_clause!(out, TMock::opt, path, Some(t(1))),
        Shape::ResOk => single_use_clause!(out, TMock::res, path, Ok::<_, Tok>(t(1))),
        Shape::ResErr => single_use_clause!(out, TMock::res, path, Err::<Tok, _>(t(1))),
        Shape::MixedResErr => single_use_clause!(out, TMock::mixed_res, path, Err::<u32, _>(t(1))),
        Shape::MixedTuple => single_use_clause!(out, TMock::mixed_tuple, path, (5u32, t(1), t(2))),
        Shape::MixedOptErr => single_use_clause!(out, TMock::mixed_opt, path, Some(Err::<&'static str, _>(t(1)))),
        Shape::MixedVec2 => single_use_clause!(out, TMock::mixed_vec, path, vec![Err::<&'static str, _>(t(1)), Ok("x"), Err(t(2))]),
        Shape::MixedPollErr => single_use_clause!(out, TMock::mixed_poll, path, Poll::Ready(Err::<&'static str, _>(t(1)))),
    }
    Unimock::new(out)
}

/// One request: Ok(ids delivered) or Err(panic message). The delivered tokens are dropped here.
fn request(u: &Unimock, shape: Shape) -> Result<Delivered, String> {
    catch(|| match shape {
        Shape::Tok => vec![u.tok().id],
        Shape::OptSome => u.opt().iter().map(|t| t.id).collect(),
        Shape::ResOk | Shape::ResErr => match u.res() {
            Ok(t) => vec![t.id],
            Err(t) => vec![1000 + t.id],
        },
        Shape::MixedResErr => match u.mixed_res() {
            Ok(v) => vec![2000 + *v],
            Err(t) => vec![1000 + t.id],
        },
        Shape::MixedTuple => {
            let (r, a, b) = u.mixed_tuple();
            vec![2000 + *r, a.id, b.id]
        }
        Shape::MixedOptErr => match u.mixed_opt() {
            None => vec![3000],
            Some(Ok(_)) => vec![2000],
            Some(Err(t)) => vec![1000 + t.id],
        },
        Shape::MixedVec2 => u
            .mixed_vec()
            .iter()
            .map(|e| match e {
                Ok(_) => 2000,
                Err(t) => 1000 + t.id,
            })
            .collect(),
        Shape::MixedPollErr => match u.mixed_poll() {
            Poll::Pending => vec![3000],
            Poll::Ready(Ok(_)) => vec![2000],
            Poll::Ready(Err(t)) => vec![1000 + t.id],
        },
    })
}

/// What the first (successful) request of a shape must deliver.
fn expected_first(shape: Shape) -> Delivered {
    match shape {
        Shape::Tok | Shape::OptSome | Shape::ResOk => vec![1],
        Shape::ResErr | Shape::MixedResErr | Shape::MixedOptErr | Shape::MixedPollErr => vec![1001],
        Shape::MixedTuple => vec![2005, 1, 2],
        Shape::MixedVec2 => vec![1001, 2000, 1002],
    }
}

/// What requests after the first deliver on the `.once().then()` path (None = mock panic "after").
fn expected_followup(_shape: Shape) -> Option<Delivered> {
    None
}

fn check_single_use(shape: Shape, path: Path, routing: &[u8], by_verify: bool) -> Result<String, String> {
    let c = Arc::new(Counters::default());
    let original = Quiet::new(single_use_mock(shape, path, &c));
    let n = n_tokens(shape);
    if c.constructed.load(Ordering::SeqCst) != n {
        return Err(format!("harness: constructed {} tokens, expected {n}", c.constructed.load(Ordering::SeqCst)));
    }
    let clone = Quiet::new(original.clone());
    let mut summary = vec![];
    for (k, via) in routing.iter().enumerate() {
        let inst: &Unimock = if *via == 0 { &original } else { &clone };
        let before = c.dropped.load(Ordering::SeqCst);
        let r = request(inst, shape);
        let after = c.dropped.load(Ordering::SeqCst);
        if k == 0 {
            match &r {
                Ok(d) if *d == expected_first(shape) => {}
                other => return Err(format!("request 1: expected delivery {:?}, observed {other:?}", expected_first(shape))),
            }
            // the delivered tokens were dropped by the caller (here), nothing else
            if after - before != n {
                return Err(format!("request 1: {} tokens dropped, expected the {n} delivered ones", after - before));
            }
            summary.push("delivered".to_string());
        } else {
            if after != before {
                return Err(format!("request {}: {} tokens dropped although nothing may be delivered", k + 1, after - before));
            }
            if path == Path::SomeOnceThen {
                match (expected_followup(shape), &r) {
                    (Some(want), Ok(got)) if want == *got => summary.push("followup".to_string()),
                    (None, Err(msg)) if classify(msg) == PanicClass::Explicit => summary.push("followup-panic".to_string()),
                    (want, got) => return Err(format!("request {}: expected follow-up {want:?}, observed {got:?}", k + 1)),
                }
            } else {
                match &r {
                    Err(msg) if matches!(classify(msg), PanicClass::MoreThanOnce) => summary.push("refused".to_string()),
                    // an ordered pattern with one slot refuses by call order
                    Err(msg) if matches!(path, Path::NextOpen | Path::NextAfterExact) && matches!(classify(msg), PanicClass::OutOfRange) => summary.push("refused-order".to_string()),
                    other => return Err(format!("request {}: a single-use value was already handed out, expected a panic, observed {other:?}", k + 1)),
                }
            }
        }
    }
    // before teardown: undelivered tokens are still alive
    let delivered = if routing.is_empty() { 0 } else { n };
    if c.dropped.load(Ordering::SeqCst) != delivered {
        return Err(format!("before teardown {} tokens were dropped, expected {delivered}", c.dropped.load(Ordering::SeqCst)));
    }
    drop(clone);
    if c.dropped.load(Ordering::SeqCst) != delivered {
        return Err("dropping a clone dropped stored tokens while the original is alive".into());
    }
    teardown(original, by_verify);
    let (cons, dropped, cloned) = (
        c.constructed.load(Ordering::SeqCst),
        c.dropped.load(Ordering::SeqCst),
        c.cloned.load(Ordering::SeqCst),
    );
    if cons != dropped || cloned != 0 {
        return Err(format!("after teardown: constructed {cons}, dropped {dropped}, cloned {cloned}"));
    }
    Ok(summary.join(","))
}

/// Tear the original down by dropping it or by an explicit verify() (whose verdict is not what
/// is observed here: only that every stored value is released).
fn teardown(original: Quiet, by_verify: bool) {
    if by_verify {
        let u = original.take();
        let _ = catch(move || u.verify());
    } else {
        drop(original);
    }
}

#[derive(Clone, Copy, Debug, PartialEq, Eq)]
enum MultiPath {
    Each,
    NTimes(usize),
    AtLeast1,
    ThenAfterOnce,
}

const MULTI_PATHS: [MultiPath; 7] = [
    // (a count of zero: never requested, stored until teardown like any other)
    MultiPath::NTimes(0),
    MultiPath::Each,
    MultiPath::NTimes(1),
    MultiPath::NTimes(2),
    MultiPath::NTimes(3),
    MultiPath::AtLeast1,
    MultiPath::ThenAfterOnce,
];

#[derive(Clone, Copy, Debug, PartialEq, Eq)]
enum CShape {
    CTok,
    COptSome,
    CMixedResErr,
    CMixedTuple,
    CMixedOptErr,
    CMixedVec2,
    CMixedPollErr,
}

const CSHAPES: [CShape; 7] = [
    CShape::CTok,
    CShape::COptSome,
    CShape::CMixedResErr,
    CShape::CMixedTuple,
    CShape::CMixedOptErr,
    CShape::CMixedVec2,
    CShape::CMixedPollErr,
];

macro_rules! multi_clause {
    ($out:expr, $mf:expr, $path:expr, $value:expr, $first:expr) => {
        match $path {
            MultiPath::Each => $out.push($mf.each_call(matching!()).returns($value)),
            MultiPath::NTimes(k) => $out.push($mf.some_call(matching!()).returns($value).n_times(k)),
            MultiPath::AtLeast1 => $out.push($mf.some_call(matching!()).returns($value).at_least_times(1)),
            MultiPath::ThenAfterOnce => $out.push($mf.some_call(matching!()).returns($first).once().then().returns($value)),
        }
    };
}

fn multi_mock(shape: CShape, path: MultiPath, c: &Arc<Counters>) -> Unimock {
    let mut out = DynClause::new();
    let t = |id: u32| CTok::new(id, c);
    match shape {
        CShape::CTok => multi_clause!(out, TMock::ctok, path, t(1), t(9)),
        CShape::COptSome => multi_clause!(out, TMock::copt, path, Some(t(1)), Some(t(9))),
        CShape::CMixedResErr => multi_clause!(out, TMock::cmixed_res, path, Err::<u32, _>(t(1)), Err::<u32, _>(t(9))),
        CShape::CMixedTuple => multi_clause!(out, TMock::cmixed_tuple, path, (5u32, t(1)), (5u32, t(9))),
        CShape::CMixedOptErr => multi_clause!(out, TMock::cmixed_opt, path, Some(Err::<&'static str, _>(t(1))), Some(Err::<&'static str, _>(t(9)))),
        CShape::CMixedVec2 => multi_clause!(out, TMock::cmixed_vec, path, vec![Err::<&'static str, _>(t(1)), Ok("x")], vec![Err::<&'static str, _>(t(9)), Ok("x")]),
        CShape::CMixedPollErr => multi_clause!(out, TMock::cmixed_poll, path, Poll::Ready(Err::<&'static str, _>(t(1))), Poll::Ready(Err::<&'static str, _>(t(9)))),
    }
    Unimock::new(out)
}

fn crequest(u: &Unimock, shape: CShape) -> Result<Delivered, String> {
    catch(|| match shape {
        CShape::CTok => vec![u.ctok().id],
        CShape::COptSome => u.copt().iter().map(|t| t.id).collect(),
        CShape::CMixedResErr => match u.cmixed_res() {
            Ok(v) => vec![2000 + *v],
            Err(t) => vec![1000 + t.id],
        },
        CShape::CMixedTuple => {
            let (r, a) = u.cmixed_tuple();
            vec![2000 + *r, a.id]
        }
        CShape::CMixedOptErr => match u.cmixed_opt() {
            None => vec![3000],
            Some(Ok(_)) => vec![2000],
            Some(Err(t)) => vec![1000 + t.id],
        },
        CShape::CMixedVec2 => u
            .cmixed_vec()
            .iter()
            .map(|e| match e {
                Ok(_) => 2000,
                Err(t) => 1000 + t.id,
            })
            .collect(),
        CShape::CMixedPollErr => match u.cmixed_poll() {
            Poll::Pending => vec![3000],
            Poll::Ready(Ok(_)) => vec![2000],
            Poll::Ready(Err(t)) => vec![1000 + t.id],
        },
    })
}

fn cexpected(shape: CShape, id: u32) -> Delivered {
    match shape {
        CShape::CTok | CShape::COptSome => vec![id],
        CShape::CMixedResErr | CShape::CMixedOptErr | CShape::CMixedPollErr => vec![1000 + id],
        CShape::CMixedTuple => vec![2005, id],
        CShape::CMixedVec2 => vec![1000 + id, 2000],
    }
}

fn check_multi_use(shape: CShape, path: MultiPath, routing: &[u8], by_verify: bool) -> Result<String, String> {
    let c = Arc::new(Counters::default());
    let original = Quiet::new(multi_mock(shape, path, &c));
    let stored = c.constructed.load(Ordering::SeqCst);
    let clone = Quiet::new(original.clone());
    let mut multi_requests = 0;
    for (k, via) in routing.iter().enumerate() {
        let inst: &Unimock = if *via == 0 { &original } else { &clone };
        let clones_before = c.cloned.load(Ordering::SeqCst);
        let drops_before = c.dropped.load(Ordering::SeqCst);
        let r = crequest(inst, shape);
        let cloned = c.cloned.load(Ordering::SeqCst) - clones_before;
        let dropped = c.dropped.load(Ordering::SeqCst) - drops_before;
        let single_first = path == MultiPath::ThenAfterOnce && k == 0;
        if single_first {
            // the first response of this chain is single-use: moved out, not cloned
            if r != Ok(cexpected(shape, 9)) || cloned != 0 || dropped != 1 {
                return Err(format!("request 1 (single-use head): observed {r:?}, {cloned} clones, {dropped} drops"));
            }
            continue;
        }
        multi_requests += 1;
        if r != Ok(cexpected(shape, 1)) {
            return Err(format!("request {}: expected a clone of the stored value {:?}, observed {r:?}", k + 1, cexpected(shape, 1)));
        }
        if cloned != 1 {
            return Err(format!("request {}: {cloned} clones were made, expected exactly 1", k + 1));
        }
        if dropped != 1 {
            return Err(format!("request {}: {dropped} tokens dropped, expected only the delivered clone", k + 1));
        }
        // what was delivered (and dropped by the caller just now) is a clone of the configured
        // original - not the original itself, not a clone of a clone
        let last_generation = c.dropped_generations.lock().unwrap().last().copied();
        if last_generation != Some(1) {
            return Err(format!(
                "request {}: the delivered value has generation {last_generation:?} (0 = the configured original, 1 = a clone of it): the stored original must stay in the mock and every delivery is a clone of it",
                k + 1
            ));
        }
    }
    let head_delivered = (path == MultiPath::ThenAfterOnce && !routing.is_empty()) as usize;
    drop(clone);
    let alive_expected = stored - head_delivered;
    let dropped_now = c.dropped.load(Ordering::SeqCst);
    if dropped_now != multi_requests + head_delivered {
        return Err(format!("stored originals were dropped before teardown: {dropped_now} drops after {multi_requests} multi-use requests"));
    }
    teardown(original, by_verify);
    let total = c.constructed.load(Ordering::SeqCst) + c.cloned.load(Ordering::SeqCst);
    if c.dropped.load(Ordering::SeqCst) != total {
        return Err(format!("after teardown: {} values created (constructed + cloned) but {} dropped", total, c.dropped.load(Ordering::SeqCst)));
    }
    let _ = alive_expected;
    Ok(format!("{multi_requests} clones"))
}

// ---------------------------------------------------------------------------------------------
// racing threads
// ---------------------------------------------------------------------------------------------

fn race_once(shape: Shape, n_threads: usize, prefix: &[u8]) -> (Vec<Result<Delivered, String>>, Arc<Counters>, Trace) {
    let c = Arc::new(Counters::default());
    let original = single_use_mock(shape, Path::SomeOpen, &c);
    let mut closures: Vec<Box<dyn FnOnce() -> Result<Delivered, String> + Send>> = vec![];
    for _ in 0..n_threads {
        let handle = original.clone();
        closures.push(Box::new(move || request(&handle, shape)));
    }
    let (results, trace) = run_once(prefix, closures);
    let results = results
        .into_iter()
        .map(|r| r.unwrap_or_else(|m| Err(format!("thread died: {m}"))))
        .collect();
    let _ = catch(move || drop(original));
    (results, c, trace)
}

fn check_race(shape: Shape, results: &[Result<Delivered, String>], c: &Counters, trace: &Trace) -> Result<(), String> {
    if trace.deadlock {
        return Err("deadlock".into());
    }
    let winners: Vec<&Delivered> = results.iter().filter_map(|r| r.as_ref().ok()).collect();
    if winners.len() != 1 {
        return Err(format!("{} callers received a value, expected exactly one: {results:?}", winners.len()));
    }
    if *winners[0] != expected_first(shape) {
        return Err(format!("the winner received {:?}, expected {:?}", winners[0], expected_first(shape)));
    }
    for r in results {
        if let Err(msg) = r {
            if classify(msg) != PanicClass::MoreThanOnce {
                return Err(format!("a losing caller must panic with 'cannot return value more than once', observed {msg:?}"));
            }
        }
    }
    let (cons, dropped) = (c.constructed.load(Ordering::SeqCst), c.dropped.load(Ordering::SeqCst));
    if cons != dropped {
        return Err(format!("constructed {cons} tokens, dropped {dropped}"));
    }
    Ok(())
}


// ---------------------------------------------------------------------------------------------
// Partial mocks: an exhausted single-use value must refuse, not fall through to the real function
// ---------------------------------------------------------------------------------------------

thread_local! {
    static REAL_CALLS: std::cell::Cell<u32> = const { std::cell::Cell::new(0) };
    static CUR: std::cell::RefCell<Option<Arc<Counters>>> = const { std::cell::RefCell::new(None) };
}

fn real_utok(_: &impl core::any::Any) -> Tok {
    REAL_CALLS.with(|c| c.set(c.get() + 1));
    let c = CUR.with(|c| c.borrow().clone()).expect("harness: counters set");
    Tok::new(99, &c)
}

#[unimock(api=TUMock, unmock_with=[real_utok])]
pub trait TU {
    fn utok(&self) -> Tok;
}

fn check_partial_single_use(once: bool, ordered: bool, routing: &[u8]) -> Result<String, String> {
    let c = Arc::new(Counters::default());
    CUR.with(|cur| *cur.borrow_mut() = Some(c.clone()));
    REAL_CALLS.with(|r| r.set(0));
    let clause_mock = match (ordered, once) {
        (false, false) => Unimock::new_partial(TUMock::utok.some_call(matching!()).returns(Tok::new(1, &c))),
        (false, true) => Unimock::new_partial(TUMock::utok.some_call(matching!()).returns(Tok::new(1, &c)).once()),
        (true, false) => Unimock::new_partial(TUMock::utok.next_call(matching!()).returns(Tok::new(1, &c))),
        (true, true) => Unimock::new_partial(TUMock::utok.next_call(matching!()).returns(Tok::new(1, &c)).once()),
    };
    let original = Quiet::new(clause_mock);
    let clone = Quiet::new(original.clone());
    let mut summary = vec![];
    for (k, via) in routing.iter().enumerate() {
        let inst: &Unimock = if *via == 0 { &original } else { &clone };
        let r = catch(|| <Unimock as TU>::utok(inst).id);
        let real = REAL_CALLS.with(|r| r.get());
        if real != 0 {
            return Err(format!("request {}: the real function was called ({r:?}) although the method has a clause and the call matched its pattern", k + 1));
        }
        match (k, &r) {
            (0, Ok(1)) => summary.push("delivered"),
            (0, other) => return Err(format!("request 1: expected the configured token, observed {other:?}")),
            (_, Err(msg)) if matches!(classify(msg), PanicClass::MoreThanOnce | PanicClass::OutOfRange) => summary.push("refused"),
            (_, other) => return Err(format!("request {}: a single-use value was already handed out, expected a panic, observed {other:?}", k + 1)),
        }
    }
    drop(clone);
    teardown(original, false);
    let (cons, dropped) = (c.constructed.load(Ordering::SeqCst), c.dropped.load(Ordering::SeqCst));
    if cons != dropped || cons != 1 {
        return Err(format!("after teardown: constructed {cons}, dropped {dropped}"));
    }
    Ok(summary.join(","))
}

/// A used-up single-use value keeps refusing even when a later pattern of the same method would
/// accept the call: the second request is not silently answered by someone else's value.
fn check_shadowed_single_use(routing: &[u8]) -> Result<String, String> {
    let c = Arc::new(Counters::default());
    let original = Quiet::new(Unimock::new((
        TMock::ctok.some_call(matching!()).returns(CTok::new(1, &c)),
        TMock::ctok.each_call(matching!()).returns(CTok::new(2, &c)),
    )));
    let clone = Quiet::new(original.clone());
    let mut summary = vec![];
    for (k, via) in routing.iter().enumerate() {
        let inst: &Unimock = if *via == 0 { &original } else { &clone };
        let r = catch(|| <Unimock as T12>::ctok(inst).id);
        match (k, &r) {
            (0, Ok(1)) => summary.push("delivered"),
            (0, other) => return Err(format!("request 1: expected the single-use value (id 1), observed {other:?}")),
            (_, Err(msg)) if matches!(classify(msg), PanicClass::MoreThanOnce) => summary.push("refused"),
            (_, other) => return Err(format!("request {}: the single-use value of the first pattern was already handed out, the request must be refused (the first pattern still answers it), observed {other:?}", k + 1)),
        }
    }
    drop(clone);
    teardown(original, false);
    Ok(summary.join(","))
}

/// A panic that escapes a case (construction refused, teardown of an inconsistent mock, ...) is a
/// finding about that case, not a reason to stop exploring.
fn guarded(f: impl FnOnce() -> Result<String, String>) -> Result<String, String> {
    match catch(f) {
        Ok(r) => r,
        Err(msg) => Err(format!("panicked outside a request: {msg}")),
    }
}

fn main() {
    silence_panics();
    let ctx: &'static vh::explore::Ctx = Box::leak(Box::new(vh::explore::Ctx::from_args("C12")));
    if let Some(replay) = &ctx.replay {
        let case = replay.get("case").unwrap_or(replay);
        println!("case {}", case.to_string());
        machinery("C12 cases are tiny: re-run ./check C12 quick to reproduce (the case is described in the replay file)");
    }
    let quick = ctx.quick() || ctx.variant != "std";
    let max_requests = if quick { 3 } else { 4 };
    let mut stats = Stats::default();
    let mut outcomes = BTreeSet::new();
    let mut routings: Vec<Vec<u8>> = vec![];
    for n in 0..=max_requests {
        routings.extend(sequences(&[0u8, 1], n));
    }
    for shape in SHAPES {
        for path in PATHS {
            for routing in &routings {
                ctx.tick();
                stats.add("traces_validated_against_impl", 1);
                stats.add("transitions", routing.len() as u64 + 2);
                let by_verify = routing.len() % 2 == 1;
                match guarded(|| check_single_use(shape, path, routing, by_verify).and_then(|s| check_single_use(shape, path, routing, !by_verify).map(|_| s))) {
                    Ok(summary) => {
                        outcomes.insert(format!("single:{summary}"));
                    }
                    Err(what) => ctx.violation(
                        &format!("single-use:{shape:?}/{path:?}"),
                        &format!("shape {shape:?}, path {path:?}, requests routed {routing:?} (teardown by drop and by verify()): {what}"),
                        J::obj().set("kind", "single-use").set("shape", format!("{shape:?}")).set("path", format!("{path:?}")).set("routing", format!("{routing:?}")),
                    ),
                }
            }
        }
    }
    for once in [false, true] {
        for ordered in [false, true] {
            for routing in &routings {
                ctx.tick();
                stats.add("traces_validated_against_impl", 1);
                stats.add("transitions", routing.len() as u64 + 2);
                stats.add("partial_mock_cases", 1);
                match guarded(|| check_partial_single_use(once, ordered, routing)) {
                    Ok(summary) => {
                        outcomes.insert(format!("partial:{summary}"));
                    }
                    Err(what) => ctx.violation(
                        "single-use:partial-mock",
                        &format!("partial mock, {} single-use returns{}, requests routed {routing:?}: {what}", if ordered { "next_call" } else { "some_call" }, if once { ".once()" } else { "" }),
                        J::obj().set("kind", "partial").set("routing", format!("{routing:?}")),
                    ),
                }
            }
        }
    }
    for routing in &routings {
        ctx.tick();
        stats.add("traces_validated_against_impl", 1);
        stats.add("transitions", routing.len() as u64 + 2);
        stats.add("shadowed_single_use_cases", 1);
        match guarded(|| check_shadowed_single_use(routing)) {
            Ok(summary) => {
                outcomes.insert(format!("shadowed:{summary}"));
            }
            Err(what) => ctx.violation(
                "single-use:shadowing-later-pattern",
                &format!("single-use value followed by an overlapping repeatable pattern, requests routed {routing:?}: {what}"),
                J::obj().set("kind", "shadowed").set("routing", format!("{routing:?}")),
            ),
        }
    }
    for shape in CSHAPES {
        for path in MULTI_PATHS {
            for routing in &routings {
                if matches!(path, MultiPath::NTimes(k) if routing.len() > k) {
                    continue; // beyond an exact count the response is unspecified (C02)
                }
                ctx.tick();
                stats.add("traces_validated_against_impl", 1);
                stats.add("transitions", routing.len() as u64 + 2);
                match guarded(|| check_multi_use(shape, path, routing, false).and_then(|s| check_multi_use(shape, path, routing, true).map(|_| s))) {
                    Ok(summary) => {
                        outcomes.insert(format!("multi:{summary}"));
                    }
                    Err(what) => ctx.violation(
                        &format!("multi-use:{shape:?}/{path:?}"),
                        &format!("shape {shape:?}, path {path:?}, requests routed {routing:?}: {what}"),
                        J::obj().set("kind", "multi-use").set("shape", format!("{shape:?}")).set("path", format!("{path:?}")).set("routing", format!("{routing:?}")),
                    ),
                }
            }
        }
    }
    stats.add("sequential_cases", stats.get("traces_validated_against_impl"));

    // racing threads (std build: the scheduler drives the hook-instrumented std mutex)
    if ctx.variant == "std" {
        let mut jobs = vec![];
        for shape in [Shape::Tok, Shape::MixedTuple, Shape::MixedVec2, Shape::MixedOptErr, Shape::MixedPollErr, Shape::MixedResErr] {
            for n in 2..=(if quick { 3 } else { 4 }) {
                if n == 4 && shape != Shape::Tok {
                    continue;
                }
                jobs.push((shape, n));
            }
        }
        let bound = if quick { 2 } else { 3 };
        let parts = par_map(&jobs, |_, (shape, n)| {
            let mut st = Stats::default();
            let mut reported = false;
            let mut winners = BTreeSet::new();
            let mut nodes = 0u64;
            let ex = explore(
                Some(bound),
                2_000_000,
                |prefix| {
                    ctx.tick();
                    let (results, c, trace) = race_once(*shape, *n, prefix);
                    nodes += (trace.points.len().saturating_sub(prefix.len()) + 1) as u64;
                    winners.insert(results.iter().position(|r| r.is_ok()));
                    if let Err(what) = check_race(*shape, &results, &c, &trace) {
                        if !reported {
                            reported = true;
                            let choices = trace.choices();
                            let (r2, _, t2) = race_once(*shape, *n, &choices);
                            if r2.iter().map(|r| r.is_ok()).collect::<Vec<_>>() != results.iter().map(|r| r.is_ok()).collect::<Vec<_>>() || t2.choices() != choices {
                                machinery("replay divergence in the C12 race");
                            }
                            ctx.violation(
                                &format!("race:{shape:?}x{n}"),
                                &format!("{n} threads racing for {shape:?} under schedule {choices:?}: {what}"),
                                J::obj().set("kind", "race").set("shape", format!("{shape:?}")).set("threads", *n).set("schedule", J::Arr(choices.iter().map(|c| J::from(*c)).collect())),
                            );
                        }
                    }
                    trace
                },
                || !ctx.stopped(),
            );
            if ex.divergences > 0 {
                machinery("schedule divergence in the C12 race");
            }
            st.add("schedules", ex.executions);
            st.add("traces_validated_against_impl", ex.executions);
            st.add("transitions", ex.choice_points);
            st.add("states", nodes);
            st.add("race_scenarios", 1);
            st.add("distinct_winners", winners.len() as u64);
            if ex.capped {
                st.add("capped_scenarios", 1);
            }
            st.sample(J::obj().set("race", format!("{shape:?} x {n} threads")).set("schedules", ex.executions).set("distinct_winners", winners.len()).set("preemption_bound", bound));
            st
        });
        for p in parts {
            stats.merge(p);
        }
        if stats.get("distinct_winners") <= stats.get("race_scenarios") {
            vacuous("vacuous race exploration: the same thread won on every schedule");
        }
    }
    if outcomes.len() < 4 {
        vacuous(&format!("vacuous: outcomes {outcomes:?}"));
    }
    stats.add("states", outcomes.len() as u64);
    let mut cov = stats.to_json();
    let mut samples = stats.samples.clone();
    samples.push(J::obj().set("single_use_case", "shape MixedTuple (&u32, Tok, Tok), path some_call(..).returns(v), requests routed [0,1,1]").set("expected", "delivered,refused,refused; 2 tokens constructed, 2 dropped, 0 cloned"));
    cov.put("samples", J::Arr(samples));
    cov.put("exhaustive", !ctx.stopped() && stats.get("capped_scenarios") == 0);
    cov.put("distinct_sequential_outcome_summaries", outcomes.len());
    cov.put(
        "bounds",
        J::obj()
            .set("shapes", "Tok, Option<Tok>, Result<Tok,Tok> (both arms), Result<&u32,Tok>, (&u32,Tok,Tok), Option<Result<&str,Tok>>, Vec<Result<&str,Tok>>, Poll<Result<&str,Tok>>; and the Clone twins")
            .set("single_use_paths", "some_call.returns, some_call.returns.once, next_call.returns, some_call.returns.once.then...")
            .set("multi_use_paths", "each_call.returns, some_call.returns.n_times(1..3), returns.at_least_times(1), single-use head then multi-use tail")
            .set("requests", format!("0..{max_requests}, every routing over original and clone"))
            .set("race", "2-4 threads, all schedules within the preemption bound (quick 2, thorough 3)"),
    );
    ctx.finish(
        "model_checking",
        cov,
        &[
            "duplication of a non-Clone value is excluded by the type system (forbid(unsafe_code)); what is checked is delivery to at most one caller, refusal of later requests, drop-exactly-once and drop timing",
            "the compile-time half (builder chains that must not type-check) is decided by the type-state sweep of ./check C12 (engine G)",
        ],
    );
}

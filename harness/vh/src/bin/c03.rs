//! C03 – verification fails exactly when an expectation is unmet, and names each one.
//!
//! Engine S: clause sets of up to 3 patterns over 2 methods (disjoint and overlapping predicates)
//! with every quantifier form, plus ordered clauses; all call histories up to a depth bound, so that
//! counts reach one below / at / one above every bound; the original is verified by drop for every
//! history, and by verify() and Termination::report() for one history per distinct final model state.
//! Oracle: multiset of verification lines == lines the model derives from the *observed* matches.

use std::collections::BTreeSet;
use std::process::Termination;
use std::sync::Mutex;

use vh::engine_s::*;
use vh::explore::*;
use vh::json::J;
use vh::lockstep::*;
use vh::obs::*;
use vh::spec::*;
use vh::universe::*;

fn seg(resp: Resp, quant: Quant) -> Seg {
    Seg { resp, quant }
}

/// Quantifier forms of an unordered pattern: (label, entry, chain)
fn qforms(id: u32, full: bool) -> Vec<(String, Entry, Vec<Seg>)> {
    let r = |k: u32| Resp::Ret(id + k);
    let mut v: Vec<(String, Entry, Vec<Seg>)> = vec![
        ("open".into(), Entry::EachCall, vec![seg(r(0), Quant::Open)]),
        ("some".into(), Entry::SomeCall, vec![seg(r(0), Quant::Open)]),
        ("exact1".into(), Entry::EachCall, vec![seg(r(0), Quant::N(1))]),
        ("atleast1".into(), Entry::EachCall, vec![seg(r(0), Quant::AtLeast(1))]),
        ("some-atleast1".into(), Entry::SomeCall, vec![seg(r(0), Quant::AtLeast(1))]),
        (
            "exact1-then-open".into(),
            Entry::EachCall,
            vec![seg(r(0), Quant::N(1)), seg(r(1), Quant::Open)],
        ),
        (
            "exact1-then-exact1".into(),
            Entry::EachCall,
            vec![seg(r(0), Quant::Once), seg(r(1), Quant::N(1))],
        ),
        // exactly no call at all
        ("exact0".into(), Entry::EachCall, vec![seg(r(0), Quant::N(0))]),
        // an answer that parks a clone of the mock in the instance it runs on (released by teardown
        // before the clones are counted): the verdict is about the counts all the same
        (
            "lending-answers-exact1".into(),
            Entry::EachCall,
            vec![seg(Resp::AnsArc(LENDING_ANSWER_ID + id), Quant::N(1))],
        ),
    ];
    if full {
        for n in [0usize, 2] {
            if n != 0 {
                v.push((format!("exact{n}"), Entry::EachCall, vec![seg(r(0), Quant::N(n))]));
            }
            v.push((
                format!("atleast{n}"),
                Entry::EachCall,
                vec![seg(r(0), Quant::AtLeast(n))],
            ));
            v.push((
                format!("exact{n}-then-open"),
                Entry::EachCall,
                vec![seg(r(0), Quant::N(n)), seg(r(1), Quant::Open)],
            ));
        }
        v.push((
            "exact2-then-exact1".into(),
            Entry::EachCall,
            vec![seg(r(0), Quant::N(2)), seg(r(1), Quant::N(1))],
        ));
        v.push((
            "exact1-then-exact0".into(),
            Entry::EachCall,
            vec![seg(r(0), Quant::N(1)), seg(r(1), Quant::N(0))],
        ));
        for (n, m) in [(1usize, 0usize), (1, 1), (2, 1)] {
            v.push((
                format!("exact{n}-then-atleast{m}"),
                Entry::EachCall,
                vec![seg(r(0), Quant::N(n)), seg(r(1), Quant::AtLeast(m))],
            ));
        }
        v.push((
            "some-atleast2".into(),
            Entry::SomeCall,
            vec![seg(r(0), Quant::AtLeast(2))],
        ));
        v.push((
            "some-answers-atleast1".into(),
            Entry::SomeCall,
            vec![seg(Resp::AnsArc(id + 5), Quant::AtLeast(1))],
        ));
        v.push((
            "some-once".into(),
            Entry::SomeCall,
            vec![seg(r(0), Quant::Once)],
        ));
        v.push((
            "some-exact2".into(),
            Entry::SomeCall,
            vec![seg(r(0), Quant::N(2))],
        ));
    }
    v
}

/// One unordered pattern spec: method, mask, quantifier form
fn pattern_specs(full: bool, pos: usize) -> Vec<(String, ClauseSpec)> {
    let mut out = vec![];
    for m in [M::A, M::B] {
        for mask in [7u8, 1u8] {
            for (label, entry, segs) in qforms(100 * (pos as u32 + 1), full) {
                out.push((
                    format!("{}[{}]{}", m.name(), mask, label),
                    ClauseSpec::Single {
                        m,
                        entry,
                        pat: PatSpec { mask, segs },
                    },
                ));
            }
        }
    }
    out
}

/// Final model states for which verify() / report() have already been exercised.
static SEEN: Mutex<BTreeSet<String>> = Mutex::new(BTreeSet::new());

fn c03_extra(case: &Case, history: &[Call], out: &RunOut) -> Result<(), (&'static str, String)> {
    check_verdict(out).map_err(|w| ("verdict", w))?;
    // drop verified above; once per distinct (config, final counts) also verify() and report()
    let key = format!("{}|{:?}|{}", case.label, out.model.counts(), out.model.errors.len());
    if !SEEN.lock().unwrap().insert(key) {
        return Ok(());
    }
    let opts = RunOpts {
        verify: Some(VerifyHow::Verify),
        check_expectations: true,
        ..RunOpts::default()
    };
    match run_history(&case.config, history, opts) {
        Ok(out2) => {
            check_verdict(&out2).map_err(|w| ("verdict-verify()", w))?;
            if out2.verdict != out.verdict {
                return Err((
                    "verdict-verify()",
                    format!(
                        "verify() reported {:?} but drop reported {:?}",
                        out2.verdict, out.verdict
                    ),
                ));
            }
        }
        Err(f) => return Err(("verdict-verify()", f.what)),
    }
    // report(): FAILURE exactly when verify() fails
    #[cfg(feature = "std")]
    for no_verify_first in [false, true] {
        // (no_verify_in_drop() only disables the check at drop: an explicit report() still judges)
        let original = vh::spec::build_mock(&case.config);
        let clones: Vec<unimock::Unimock> = (0..history.iter().map(|c| c.via).max().unwrap_or(0))
            .map(|_| original.clone())
            .collect();
        for c in history {
            let inst = if c.via == 0 {
                &original
            } else {
                &clones[c.via as usize - 1]
            };
            let _ = observe_call(inst, c.m, c.x);
        }
        drop(clones);
        let code = catch(move || if no_verify_first { original.no_verify_in_drop().report() } else { original.report() });
        let failed = matches!(out.verdict, Some(Verdict::Failed(_)));
        match code {
            Ok(code) => {
                let is_failure = format!("{code:?}") == format!("{:?}", std::process::ExitCode::FAILURE);
                if is_failure != failed {
                    return Err((
                        "verdict-report()",
                        format!("report(){} returned {code:?} but verification by drop was {:?}", if no_verify_first { " after no_verify_in_drop()" } else { "" }, out.verdict),
                    ));
                }
            }
            Err(msg) => {
                return Err(("verdict-report()", format!("report() panicked: {msg}")));
            }
        }
    }
    Ok(())
}

mod flat {
    //! A trait with the flattened mock api (`api=[..]`: one mock type per method, named freely):
    //! the failure lines name the *method*, as for every other trait.
    use unimock::*;

    #[unimock(api = [LoadUser, StoreUser])]
    pub trait UserRepo {
        fn load(&self, id: u8) -> u32;
        fn store(&self, id: u8) -> u32;
    }

    /// (label, expected lines, observed verdict)
    pub fn cells() -> Vec<(String, Vec<String>, Result<(), String>)> {
        let mut out = vec![];
        for quant in 0..3usize {
            for calls in 0..3usize {
                let line = line!() + 2;
                let clause = match quant {
                    0 => DynClauseBox::new(LoadUser.each_call(matching!(_)).returns(1u32)),
                    1 => DynClauseBox::new(LoadUser.each_call(matching!(_)).returns(1u32).n_times(2)),
                    _ => DynClauseBox::new(LoadUser.each_call(matching!(_)).returns(1u32).at_least_times(2)),
                };
                // (all three matching! invocations above: the line of the one in use)
                let pat_line = line + quant as u32;
                let u = Unimock::new((clause.0, StoreUser.each_call(matching!(_)).returns(2u32)));
                for _ in 0..calls {
                    let _ = u.load(0);
                }
                let _ = u.store(0);
                let mut want = vec![];
                let kind = match quant {
                    1 => Some(("exactly", calls != 2)),
                    2 => Some(("at least", calls < 2)),
                    _ => None,
                };
                if let Some((kind, true)) = kind {
                    let n = |k: usize| match k {
                        0 => "no calls".to_string(),
                        1 => "1 call".to_string(),
                        k => format!("{k} calls"),
                    };
                    want.push(format!(
                        "UserRepo::load: Expected UserRepo::load(_) at {}:{pat_line} to match {kind} 2 calls, but it actually matched {}.",
                        file!(),
                        n(calls)
                    ));
                }
                if calls == 0 {
                    want.push("Mock for UserRepo::load was never called. Dead mocks should be removed.".to_string());
                }
                let verdict = vh::obs::catch(move || drop(u));
                out.push((format!("flat-api/quantifier{quant}/calls{calls}"), want, verdict));
            }
        }
        out
    }

    pub struct DynClauseBox(pub unimock::verif::DynClause);
    impl DynClauseBox {
        pub fn new(c: impl Clause + 'static) -> Self {
            let mut d = unimock::verif::DynClause::new();
            d.push(c);
            DynClauseBox(d)
        }
    }
}

fn flat_api_cells(ctx: &vh::explore::Ctx, stats: &mut Stats) {
    for (label, mut want, verdict) in flat::cells() {
        ctx.tick();
        stats.add("flat_api_cells", 1);
        stats.add("traces_validated_against_impl", 1);
        let mut got: Vec<String> = match &verdict {
            Ok(()) => vec![],
            Err(msg) => msg.lines().map(|l| l.to_string()).collect(),
        };
        want.sort();
        got.sort();
        if want != got {
            ctx.violation(
                &format!("{label}:verdict"),
                &format!("{label}: verification lines differ: expected {want:?}, observed {got:?}"),
                J::obj().set("flat_api_cell", label.as_str()),
            );
        }
    }
}

fn main() {
    vh::obs::silence_panics();
    let ctx: &'static vh::explore::Ctx = Box::leak(Box::new(vh::explore::Ctx::from_args("C03")));
    let opts = RunOpts {
        has_mutex: !cfg!(feature = "nolock"),
        verify: Some(VerifyHow::Drop),
        check_expectations: true,
        ..RunOpts::default()
    };
    handle_replay(ctx, opts, &c03_extra);

    let quick = ctx.quick() || ctx.variant != "std";
    let depth = if quick { 4 } else { 6 };
    let alphabet = vec![Call::new(M::A, 0), Call::new(M::A, 1), Call::new(M::B, 0)];
    let mut cases = vec![];
    // one pattern: all forms
    for (l, c) in pattern_specs(true, 0) {
        cases.push(Case {
            label: l,
            config: Config {
                partial: false,
                clauses: vec![c],
            },
            histories: HistGen::All {
                alphabet: alphabet.clone(),
                depth,
            },
        });
    }
    // two patterns: all forms (thorough) / reduced forms (quick)
    let p0 = pattern_specs(!quick, 0);
    let p1 = pattern_specs(!quick, 1);
    for (l0, c0) in &p0 {
        for (l1, c1) in &p1 {
            cases.push(Case {
                label: format!("{l0}+{l1}"),
                config: Config {
                    partial: false,
                    clauses: vec![c0.clone(), c1.clone()],
                },
                histories: HistGen::All {
                    alphabet: alphabet.clone(),
                    depth: if quick { depth } else { depth - 1 },
                },
            });
        }
    }
    // three patterns: reduced forms (thorough only)
    if !quick {
        let q0 = pattern_specs(false, 0);
        let q1 = pattern_specs(false, 1);
        let q2 = pattern_specs(false, 2);
        for (l0, c0) in &q0 {
            for (l1, c1) in &q1 {
                for (l2, c2) in &q2 {
                    cases.push(Case {
                        label: format!("{l0}+{l1}+{l2}"),
                        config: Config {
                            partial: false,
                            clauses: vec![c0.clone(), c1.clone(), c2.clone()],
                        },
                        histories: HistGen::All {
                            alphabet: alphabet.clone(),
                            depth: 4,
                        },
                    });
                }
            }
        }
    }
    // patterns on a method that has a default body / a real function / both: an expectation on such
    // a method is an expectation like any other (a clause that is never hit is a dead mock)
    for m in [M::Def, M::Unm, M::Both] {
        for mask in [7u8, 1u8] {
            for (label, entry, segs) in qforms(300, !quick) {
                if label.starts_with("lending") {
                    continue;
                }
                let c = ClauseSpec::Single {
                    m,
                    entry,
                    pat: PatSpec { mask, segs },
                };
                for with_a in [false, true] {
                    let mut clauses = vec![];
                    if with_a {
                        clauses.push(pattern_specs(false, 0)[0].1.clone());
                    }
                    clauses.push(c.clone());
                    cases.push(Case {
                        label: format!("{}[{mask}]{label}{}", m.name(), if with_a { "+a" } else { "" }),
                        config: Config { partial: false, clauses },
                        histories: HistGen::All {
                            alphabet: vec![Call::new(m, 0), Call::new(M::A, 0)],
                            depth: if quick { 3 } else { 4 },
                        },
                    });
                }
            }
        }
    }
    // ordered clauses with n_times(0..2), next to an unordered pattern
    let ord_alphabet = vec![Call::new(M::A, 0), Call::new(M::C, 0), Call::new(M::E, 0)];
    // (the first ordered clause: a single exact count, the implicit once, or a chain whose
    // unquantified tail stands for exactly one more call)
    let mut ord_forms: Vec<(String, Vec<Seg>)> = (0..=2usize).map(|n| (n.to_string(), vec![seg(Resp::Ret(500), Quant::N(n))])).collect();
    ord_forms.push(("open".into(), vec![seg(Resp::Ret(500), Quant::Open)]));
    ord_forms.push(("1-then-open".into(), vec![seg(Resp::Ret(500), Quant::N(1)), seg(Resp::Ret(501), Quant::Open)]));
    if !quick {
        ord_forms.push(("once-then-open".into(), vec![seg(Resp::Ret(500), Quant::Once), seg(Resp::Ret(501), Quant::Open)]));
        ord_forms.push(("2-then-1".into(), vec![seg(Resp::Ret(500), Quant::N(2)), seg(Resp::Ret(501), Quant::N(1))]));
        ord_forms.push(("0-then-open".into(), vec![seg(Resp::Ret(500), Quant::N(0)), seg(Resp::Ret(501), Quant::Open)]));
    }
    // two and three ordered patterns of *one* method (with an ordered pattern of another method in
    // between): a history that stops early leaves several of them unmet, each gets its line
    for counts in [[1usize, 1, 1], [0, 1, 1], [1, 0, 2], [2, 1, 0]] {
        for with_e in [false, true] {
            let mut clauses = vec![];
            for (k, n) in counts.iter().enumerate() {
                clauses.push(ClauseSpec::Single {
                    m: M::C,
                    entry: Entry::NextCall,
                    pat: PatSpec {
                        mask: 7,
                        segs: vec![seg(Resp::Ret(510 + k as u32), Quant::N(*n))],
                    },
                });
                if with_e && k == 0 {
                    clauses.push(ClauseSpec::Single {
                        m: M::E,
                        entry: Entry::NextCall,
                        pat: PatSpec {
                            mask: 7,
                            segs: vec![seg(Resp::Ret(520), Quant::N(1))],
                        },
                    });
                }
            }
            cases.push(Case {
                label: format!("c*{counts:?}{}", if with_e { "+e" } else { "" }),
                config: Config { partial: false, clauses },
                // every history of every length up to the bound (the ones that stop early matter)
                histories: HistGen::List((0..=if quick { 4 } else { 5 }).flat_map(|len| sequences(&[Call::new(M::C, 0), Call::new(M::E, 0)], len)).collect()),
            });
        }
    }
    // many expectations violated at once: 12 exactly quantified patterns on two methods and no call
    // at all (12 count lines and 2 never-called lines), or one call
    {
        let clauses: Vec<ClauseSpec> = (0..12usize)
            .map(|k| ClauseSpec::Single {
                m: if k % 2 == 0 { M::A } else { M::B },
                entry: Entry::EachCall,
                pat: PatSpec {
                    mask: 1 + (k as u8 % 7),
                    segs: vec![seg(Resp::Ret(700 + k as u32), Quant::N(1 + k % 3))],
                },
            })
            .collect();
        cases.push(Case {
            label: "twelve-exact-patterns".into(),
            config: Config { partial: false, clauses },
            histories: HistGen::List((0..=2).flat_map(|len| sequences(&[Call::new(M::A, 0), Call::new(M::B, 1)], len)).collect()),
        });
    }
    for (n1, segs1) in ord_forms {
        for n2 in [None, Some(0usize), Some(1), Some(2)] {
            for (l, c) in pattern_specs(false, 0).into_iter().filter(|(_, c)| c.method() == M::A) {
                let mut clauses = vec![ClauseSpec::Single {
                    m: M::C,
                    entry: Entry::NextCall,
                    pat: PatSpec {
                        mask: 7,
                        segs: segs1.clone(),
                    },
                }];
                clauses.push(c);
                if let Some(n2) = n2 {
                    clauses.push(ClauseSpec::Single {
                        m: M::E,
                        entry: Entry::NextCall,
                        pat: PatSpec {
                            mask: 7,
                            segs: vec![seg(Resp::Ret(600), Quant::N(n2))],
                        },
                    });
                }
                cases.push(Case {
                    label: format!("c*{n1}+{l}+e*{n2:?}"),
                    config: Config {
                        partial: false,
                        clauses,
                    },
                    histories: HistGen::All {
                        alphabet: ord_alphabet.clone(),
                        depth: if quick { 3 } else { 5 },
                    },
                });
            }
        }
    }

    ctx.watchdog(120, || J::Str("no progress in the C03 explorer".into()));
    let mut stats = explore_cases(ctx, &cases, opts, &c03_extra);
    flat_api_cells(ctx, &mut stats);
    guard(&stats, 3, false);
    if stats.get("verdicts_silent") == 0 || stats.get("verdicts_failed") == 0 {
        vacuous("vacuous: verdicts never differed");
    }
    let mut cov = coverage(
        ctx,
        &stats,
        J::obj()
            .set("patterns_max", if quick { 2 } else { 3 })
            .set("history_depth", depth)
            .set("quantifier_forms", "open, some_call, exact 0..2, at-least 0..2, exact n then open, exact n then exact m, exact n then at-least m, ordered n_times(0..2), ordered implicit once, ordered chains with an unquantified tail")
            .set("verification_ways", "drop for every history; verify() and Termination::report() once per distinct final model state"),
    );
    cov.put("distinct_final_states_verified_three_ways", SEEN.lock().unwrap().len());
    ctx.finish(
        "model_checking",
        cov,
        &[
            "expected lines are derived by the reference model from the history; per-step conformance of the same run guarantees the model counts equal the observed matches",
            "line order is not compared (method table order is unspecified); the line multiset is",
            "histories containing a mock-induced panic are judged by C08's rule (message carries every recorded error)",
        ],
    );
}

//! C11 – the mock never turns one panic into a process abort (std builds).
//!
//! Engine F: crash-point enumeration. Every cell of {panic origin} x {instance topology} x
//! {expectation met / unmet} runs in its own child process (this binary re-executed with
//! `--cell`); the parent reads the exit status (101 = a panic reached the top of main, signal =
//! abort from a double panic), counts the `panicked at` reports on stderr and checks that the
//! first is the injected one and none is one of teardown's own sentences. "Caught" cells continue
//! to use the mock after catching a user panic and report the final verdict.

use std::collections::BTreeSet;
use std::process::Command;
use std::rc::Rc;
use std::sync::Arc;

use unimock::*;
use vh::explore::*;
use vh::json::J;

// ---------------------------------------------------------------------------------------------
// universe of the child
// ---------------------------------------------------------------------------------------------

/// Injected user panics fire while this is set; the Caught cells clear it to use the mock again.
static ARMED: std::sync::atomic::AtomicBool = std::sync::atomic::AtomicBool::new(true);

fn armed() -> bool {
    ARMED.load(std::sync::atomic::Ordering::SeqCst)
}

pub struct BadDebug;

impl core::fmt::Debug for BadDebug {
    fn fmt(&self, _: &mut core::fmt::Formatter<'_>) -> core::fmt::Result {
        panic!("INJECTED: argument Debug");
    }
}

pub struct BadClone;

impl Clone for BadClone {
    fn clone(&self) -> Self {
        if armed() {
            panic!("INJECTED: return value Clone");
        }
        BadClone
    }
}

#[unimock(api=KMock, unmock_with=[_, _, _, real_r, _, _, _, _, _, _, _, _, _, _, _, _, _, _])]
pub trait K: Sized {
    /// base expectation: exactly one m(0)
    fn m(&self, x: u8) -> u32;
    fn pm(&self, x: u8) -> u32;
    fn pa(&self, x: u8) -> u32;
    fn r(&self, x: u8) -> u32;
    fn d(&self, x: u8) -> u32 {
        let _ = x;
        if armed() {
            panic!("INJECTED: default body");
        }
        13
    }
    fn dbg(&self, x: BadDebug) -> u32;
    /// always answered: a valid call never renders its arguments
    fn dbg_ok(&self, x: BadDebug) -> u32;
    fn cl(&self) -> BadClone;
    fn nm(&self, x: u8) -> u32;
    fn o1(&self, x: u8) -> u32;
    fn o2(&self, x: u8) -> u32;
    fn su(&self) -> u32;
    fn ex(&self) -> u32;
    fn cu(&self) -> u32;
    fn nd(&self) -> u32;
    /// ordered method whose matcher panics
    fn po(&self, x: u8) -> u32;
    /// provided method whose default body runs into a mock error (raised through the helper clone)
    fn dflt(&self) -> u32 {
        self.nm(0)
    }
    /// by-value provided method: the original travels through the delegation helper
    fn consume(self, mode: u8) -> u32 {
        let v = self.m(0);
        match mode {
            1 => panic!("INJECTED: by-value default body"),
            2 => self.nm(0),
            _ => v,
        }
    }
}

pub fn real_r(_: &impl core::any::Any, _: u8) -> u32 {
    if armed() {
        panic!("INJECTED: real function");
    }
    12
}

#[derive(Clone, Copy, Debug, PartialEq, Eq, PartialOrd, Ord)]
enum Origin {
    UserBefore,
    UserAfter,
    Matcher,
    Answer,
    RealFn,
    DefaultBody,
    ArgDebug,
    RetClone,
    NoMockImpl,
    NoMatch,
    WrongOrder,
    InputsNotMatched,
    OutOfRange,
    MoreThanOnce,
    Explicit,
    CannotUnmock,
    NoDefaultImpl,
    NoOutput,
    ByValueUser,
    ByValueMock,
    /// user panic inside the matcher of an *ordered* pattern
    MatcherOrdered,
    /// mock error raised inside a default body (through the internal helper clone)
    MockInDefaultBody,
    /// a mock error raised through a clone is caught; afterwards the test body panics
    CloneErrorThenUserPanic,
    /// user panic inside the matcher of an ordered pattern, while a clone on another thread has
    /// meanwhile completed the next ordered call (topology Caught only)
    MatcherOrderedRaced,
}

const ORIGINS: [Origin; 24] = [
    Origin::UserBefore,
    Origin::UserAfter,
    Origin::Matcher,
    Origin::Answer,
    Origin::RealFn,
    Origin::DefaultBody,
    Origin::ArgDebug,
    Origin::RetClone,
    Origin::NoMockImpl,
    Origin::NoMatch,
    Origin::WrongOrder,
    Origin::InputsNotMatched,
    Origin::OutOfRange,
    Origin::MoreThanOnce,
    Origin::Explicit,
    Origin::CannotUnmock,
    Origin::NoDefaultImpl,
    Origin::NoOutput,
    Origin::ByValueUser,
    Origin::ByValueMock,
    Origin::MatcherOrdered,
    Origin::MockInDefaultBody,
    Origin::CloneErrorThenUserPanic,
    Origin::MatcherOrderedRaced,
];

/// Set by the child of the guard topology before the mock is built: adds the `dbg_ok` clause.
static WITH_DBG_OK: std::sync::atomic::AtomicBool = std::sync::atomic::AtomicBool::new(false);
static RACE_ENTERED: std::sync::atomic::AtomicBool = std::sync::atomic::AtomicBool::new(false);
static RACE_GO: std::sync::atomic::AtomicBool = std::sync::atomic::AtomicBool::new(false);

impl Origin {
    fn is_user(self) -> bool {
        matches!(
            self,
            Origin::UserBefore
                | Origin::UserAfter
                | Origin::Matcher
                | Origin::Answer
                | Origin::RealFn
                | Origin::DefaultBody
                | Origin::ArgDebug
                | Origin::RetClone
                | Origin::ByValueUser
                | Origin::MatcherOrdered
                | Origin::CloneErrorThenUserPanic
                | Origin::MatcherOrderedRaced
        )
    }
    fn by_value(self) -> bool {
        matches!(self, Origin::ByValueUser | Origin::ByValueMock)
    }
    /// Text the first panic report must contain.
    fn first_report(self) -> &'static str {
        match self {
            Origin::UserBefore => "INJECTED: before calls",
            Origin::UserAfter => "INJECTED: after calls",
            Origin::Matcher => "INJECTED: matcher",
            Origin::Answer => "INJECTED: answer function",
            Origin::RealFn => "INJECTED: real function",
            Origin::DefaultBody => "INJECTED: default body",
            Origin::ArgDebug => "INJECTED: argument Debug",
            Origin::RetClone => "INJECTED: return value Clone",
            Origin::NoMockImpl => "No mock implementation found.",
            Origin::NoMatch => "No matching call patterns.",
            Origin::WrongOrder => "Method matched in wrong order.",
            Origin::InputsNotMatched => "but inputs didn't match",
            Origin::OutOfRange => "out of range: There were no more ordered call patterns",
            Origin::MoreThanOnce => "Cannot return value more than once",
            Origin::Explicit => "Explicit panic from",
            Origin::CannotUnmock => "cannot be unmocked as there is no function available",
            Origin::NoDefaultImpl => "has not been set up with default implementation delegation",
            Origin::NoOutput => "No output available for after matching",
            Origin::ByValueUser => "INJECTED: by-value default body",
            Origin::ByValueMock => "No mock implementation found.",
            Origin::MatcherOrdered => "INJECTED: ordered matcher",
            Origin::MockInDefaultBody => "No mock implementation found.",
            Origin::CloneErrorThenUserPanic => "INJECTED: after a caught clone error",
            Origin::MatcherOrderedRaced => "INJECTED: ordered matcher",
        }
    }
}

#[derive(Clone, Copy, Debug, PartialEq, Eq, PartialOrd, Ord)]
enum Topo {
    Plain,
    /// a clone on the same thread that is dropped *after* the original
    CloneOutlives,
    /// a clone on the same thread that is dropped before the original
    CloneDiesFirst,
    /// a clone alive on another, parked thread
    CloneParked,
    Boxed,
    InRc,
    InArc,
    /// the original was created on another thread (foreign creator thread)
    ForeignCreator,
    /// foreign creator thread and a live clone at the same time
    ForeignCreatorAndClone,
    /// the origin runs on a spawned thread holding a clone; main joins and then drops the original
    OnWorkerThread,
    /// the origin runs on a spawned thread that owns the *original* (moved there)
    OriginalOnWorkerThread,
    /// user panic caught with catch_unwind; the mock is used and verified afterwards
    Caught,
    /// like Caught, and the very call that panicked is repeated without the injected panic
    CaughtRetry,
    /// the original sits in a guard whose Drop calls `verify()` explicitly - while unwinding
    VerifyInGuard,
    /// the same with a clone still alive (verification could not even be attempted)
    VerifyInGuardCloneAlive,
    /// like Caught, but the panicking call is made on a clone that has lent another clone of the
    /// mock (make_ref) and is dropped by the unwinding itself
    CaughtLendingClone,
    /// the original is dropped by a caught unwinding while a clone lives on; the clone is used again
    CaughtCloneSurvivesOriginal,
    /// the original holds 20 000 lent values and is dropped by the unwinding of a thread with a
    /// 256 KiB stack
    LongChainUnwoundOnSmallStack,
    /// a guard, dropped by the unwinding, builds a mock of its own with an unmet expectation and
    /// drops it, and makes a valid call on a clone of the mock under test
    GuardUsesMocksWhileUnwinding,
}

const TOPOS: [Topo; 19] = [
    Topo::Plain,
    Topo::CloneOutlives,
    Topo::CloneDiesFirst,
    Topo::CloneParked,
    Topo::Boxed,
    Topo::InRc,
    Topo::InArc,
    Topo::ForeignCreator,
    Topo::ForeignCreatorAndClone,
    Topo::OnWorkerThread,
    Topo::OriginalOnWorkerThread,
    Topo::Caught,
    Topo::CaughtRetry,
    Topo::VerifyInGuard,
    Topo::VerifyInGuardCloneAlive,
    Topo::CaughtLendingClone,
    Topo::CaughtCloneSurvivesOriginal,
    Topo::LongChainUnwoundOnSmallStack,
    Topo::GuardUsesMocksWhileUnwinding,
];

fn applicable(o: Origin, t: Topo) -> bool {
    if o.by_value() {
        // the by-value method consumes the instance itself: only holders that can give it away
        return matches!(t, Topo::Plain | Topo::CloneOutlives | Topo::CloneParked | Topo::ForeignCreator);
    }
    if o == Origin::CloneErrorThenUserPanic && matches!(t, Topo::OnWorkerThread | Topo::OriginalOnWorkerThread) {
        return false;
    }
    if o == Origin::MatcherOrderedRaced {
        return t == Topo::Caught;
    }
    match t {
        Topo::Caught | Topo::CaughtLendingClone => o.is_user() && !matches!(o, Origin::UserBefore | Origin::UserAfter | Origin::CloneErrorThenUserPanic),
        Topo::CaughtRetry => matches!(o, Origin::Matcher | Origin::Answer | Origin::RealFn | Origin::DefaultBody | Origin::RetClone),
        Topo::CaughtCloneSurvivesOriginal => o.is_user() && !matches!(o, Origin::CloneErrorThenUserPanic),
        Topo::LongChainUnwoundOnSmallStack => matches!(o, Origin::UserAfter | Origin::Answer | Origin::NoMatch),
        _ => true,
    }
}

fn build(origin: Origin) -> Unimock {
    use unimock::verif::DynClause;
    let mut c = DynClause::new();
    c.push(KMock::m.each_call(matching!(0)).returns(1u32).n_times(1));
    match origin {
        Origin::Matcher => c.push(KMock::pm.each_call(&|m| {
            m.func(|_, _| {
                if armed() {
                    panic!("INJECTED: matcher");
                }
                true
            });
        }).returns(2u32)),
        Origin::Answer => c.push(KMock::pa.each_call(matching!(_)).answers(&|_, _| {
            if armed() {
                panic!("INJECTED: answer function");
            }
            11
        })),
        Origin::RealFn => c.push(KMock::r.each_call(matching!(_)).applies_unmocked()),
        Origin::ArgDebug => c.push(KMock::dbg.each_call(&|m| {
            m.func(|_, _| false);
        }).returns(3u32)),
        Origin::RetClone => c.push(KMock::cl.each_call(matching!()).returns(BadClone)),
        Origin::WrongOrder | Origin::InputsNotMatched | Origin::OutOfRange => {
            c.push(KMock::o1.next_call(matching!(0)).returns(4u32));
            c.push(KMock::o2.next_call(matching!(_)).returns(5u32));
        }
        Origin::MoreThanOnce => c.push(KMock::su.some_call(matching!()).returns(6u32)),
        Origin::Explicit => c.push(KMock::ex.each_call(matching!()).panics("boom")),
        Origin::CannotUnmock => c.push(KMock::cu.each_call(matching!()).applies_unmocked()),
        Origin::NoDefaultImpl => c.push(KMock::nd.each_call(matching!()).applies_default_impl()),
        Origin::NoOutput => c.push(KMock::pm.stub(|each| {
            each.call(matching!(_));
        })),
        Origin::MatcherOrdered => c.push(KMock::po.next_call(&|m| {
            m.func(|_, _| panic!("INJECTED: ordered matcher"));
        }).returns(7u32)),
        Origin::MatcherOrderedRaced => {
            use std::sync::atomic::Ordering::SeqCst;
            c.push(KMock::po.next_call(&|m| {
                m.func(|_, _| {
                    // the matcher of ordered position 1 is running: let the other thread make the
                    // call for position 2, then panic
                    RACE_ENTERED.store(true, SeqCst);
                    // (bounded: a tree on which the other thread never gets that far must not hang)
                    let deadline = std::time::Instant::now() + std::time::Duration::from_secs(10);
                    while !RACE_GO.load(SeqCst) && std::time::Instant::now() < deadline {
                        std::thread::yield_now();
                    }
                    panic!("INJECTED: ordered matcher")
                });
            }).returns(7u32));
            c.push(KMock::o1.next_call(matching!(_)).returns(4u32));
            c.push(KMock::o2.next_call(matching!(_)).returns(5u32));
        }
        _ => {}
    }
    if WITH_DBG_OK.load(std::sync::atomic::Ordering::SeqCst) {
        c.push(KMock::dbg_ok.each_call(matching!(_)).returns(8u32));
    }
    Unimock::new(c)
}

/// The action that panics. `met` = make the base expectation met first.
fn act(u: &Unimock, origin: Origin, met: bool) -> u32 {
    if origin == Origin::UserBefore {
        panic!("INJECTED: before calls");
    }
    if met {
        assert_eq!(1, u.m(0));
    }
    match origin {
        Origin::UserBefore => unreachable!(),
        Origin::UserAfter => panic!("INJECTED: after calls"),
        Origin::Matcher => u.pm(1),
        Origin::Answer => u.pa(0),
        Origin::RealFn => u.r(0),
        Origin::DefaultBody => u.d(0),
        Origin::ArgDebug => u.dbg(BadDebug),
        Origin::RetClone => {
            let _ = u.cl();
            0
        }
        Origin::NoMockImpl => u.nm(0),
        Origin::NoMatch => u.m(1),
        Origin::WrongOrder => u.o2(0),
        Origin::InputsNotMatched => u.o1(1),
        Origin::OutOfRange => {
            u.o1(0);
            u.o2(0);
            u.o1(0)
        }
        Origin::MoreThanOnce => {
            u.su();
            u.su()
        }
        Origin::Explicit => u.ex(),
        Origin::CannotUnmock => u.cu(),
        Origin::NoDefaultImpl => u.nd(),
        Origin::NoOutput => u.pm(0),
        Origin::MatcherOrdered => u.po(0),
        Origin::MatcherOrderedRaced => {
            use std::sync::atomic::Ordering::SeqCst;
            let c = u.clone();
            std::thread::scope(|s| {
                s.spawn(move || {
                    let deadline = std::time::Instant::now() + std::time::Duration::from_secs(10);
                    while !RACE_ENTERED.load(SeqCst) && std::time::Instant::now() < deadline {
                        std::thread::yield_now();
                    }
                    let r = std::panic::catch_unwind(std::panic::AssertUnwindSafe(|| c.o1(0)));
                    match r {
                        Ok(v) => println!("RACED: ok {v}"),
                        Err(p) => println!("RACED: err {}", vh::obs::payload_to_string(p).replace('\n', " | ")),
                    }
                    drop(c);
                    RACE_GO.store(true, SeqCst);
                });
                u.po(0)
            })
        }
        Origin::MockInDefaultBody => u.dflt(),
        Origin::CloneErrorThenUserPanic => {
            let c = u.clone();
            let r = std::panic::catch_unwind(std::panic::AssertUnwindSafe(|| c.nm(0)));
            assert!(r.is_err());
            drop(c);
            panic!("INJECTED: after a caught clone error");
        }
        Origin::ByValueUser | Origin::ByValueMock => unreachable!(),
    }
}

fn park_forever() -> ! {
    loop {
        std::thread::sleep(std::time::Duration::from_secs(3600));
    }
}

fn child(origin: Origin, topo: Topo, met: bool) -> ! {
    if topo == Topo::GuardUsesMocksWhileUnwinding {
        WITH_DBG_OK.store(true, std::sync::atomic::Ordering::SeqCst);
    }
    let foreign = matches!(topo, Topo::ForeignCreator | Topo::ForeignCreatorAndClone);
    let original = if foreign {
        std::thread::spawn(move || build(origin)).join().unwrap()
    } else {
        build(origin)
    };
    if origin.by_value() {
        let mode = if origin == Origin::ByValueUser { 1 } else { 2 };
        let mut keep: Option<Unimock> = None;
        match topo {
            Topo::CloneOutlives => keep = Some(original.clone()),
            Topo::CloneParked => {
                let c = original.clone();
                std::thread::spawn(move || {
                    let _c = c;
                    park_forever()
                });
            }
            _ => {}
        }
        let _keep = keep;
        let v = original.consume(mode);
        println!("UNEXPECTED: by-value method returned {v}");
        std::process::exit(0);
    }
    match topo {
        Topo::Plain | Topo::ForeignCreator => {
            let u = original;
            act(&u, origin, met);
        }
        Topo::CloneOutlives | Topo::ForeignCreatorAndClone => {
            let mut outlives: Option<Unimock> = None;
            let u = original;
            outlives.replace(u.clone());
            act(&u, origin, met);
            drop(outlives);
        }
        Topo::CloneDiesFirst => {
            let u = original;
            let c = u.clone();
            act(&c, origin, met);
        }
        Topo::CaughtCloneSurvivesOriginal => {
            let survivor = original.clone();
            let r = std::panic::catch_unwind(std::panic::AssertUnwindSafe(move || {
                let u = original;
                act(&u, origin, met)
            }));
            println!("CAUGHT: {}", if r.is_err() { "err" } else { "ok" });
            // the original is gone (quietly: its thread was unwinding); the clone still answers
            let r = std::panic::catch_unwind(std::panic::AssertUnwindSafe(|| survivor.m(0)));
            match r {
                Ok(v) => println!("SURVIVOR: ok {v}"),
                Err(p) => println!("SURVIVOR: err {}", vh::obs::payload_to_string(p).replace('\n', " | ")),
            }
            drop(survivor);
            std::process::exit(0);
        }
        Topo::LongChainUnwoundOnSmallStack => {
            let u = original;
            let r = std::thread::Builder::new()
                .stack_size(256 * 1024)
                .spawn(move || {
                    let u = u;
                    for k in 0..20_000u64 {
                        let _: &u64 = u.make_ref(k);
                    }
                    act(&u, origin, met);
                })
                .unwrap()
                .join();
            println!("JOINED: {}", if r.is_err() { "err" } else { "ok" });
            std::process::exit(0);
        }
        Topo::GuardUsesMocksWhileUnwinding => {
            struct Guard(Unimock);
            impl Drop for Guard {
                fn drop(&mut self) {
                    // a mock created during cleanup, with something to complain about
                    let own = Unimock::new(KMock::m.each_call(matching!(0)).returns(1u32).n_times(1));
                    drop(own);
                    // a perfectly valid call on a clone of the mock under test (`su`'s sibling `pong`
                    // style methods are not set up everywhere: use the base pattern, open-ended side)
                    let _ = self.0.m(0);
                    // ... and a valid call whose argument cannot be rendered (its Debug panics):
                    // an accepted call renders nothing
                    let _ = self.0.dbg_ok(BadDebug);
                }
            }
            let u = original;
            let _guard = Guard(u.clone());
            act(&u, origin, met);
        }
        Topo::VerifyInGuard | Topo::VerifyInGuardCloneAlive => {
            struct Guard(Option<Unimock>);
            impl Drop for Guard {
                fn drop(&mut self) {
                    if let Some(u) = self.0.take() {
                        u.verify();
                    }
                }
            }
            let mut outlives: Option<Unimock> = None;
            if topo == Topo::VerifyInGuardCloneAlive {
                outlives.replace(original.clone());
            }
            let guard = Guard(Some(original));
            act(guard.0.as_ref().unwrap(), origin, met);
            drop(guard);
            drop(outlives);
        }
        Topo::CloneParked => {
            let u = original;
            let c = u.clone();
            std::thread::spawn(move || {
                let _c = c;
                park_forever()
            });
            act(&u, origin, met);
        }
        Topo::Boxed => {
            let u = Box::new(original);
            act(&u, origin, met);
        }
        Topo::InRc => {
            let u = Rc::new(original);
            let u2 = u.clone();
            act(&u2, origin, met);
        }
        Topo::InArc => {
            let u = Arc::new(original);
            let u2 = u.clone();
            act(&u2, origin, met);
        }
        Topo::OnWorkerThread => {
            let u = original;
            let c = u.clone();
            let r = std::thread::spawn(move || {
                act(&c, origin, met);
            })
            .join();
            println!("JOINED: {}", if r.is_err() { "err" } else { "ok" });
            // the original is now dropped normally on its creator thread
            drop(u);
            println!("ORIGINAL-DROPPED");
            std::process::exit(0);
        }
        Topo::OriginalOnWorkerThread => {
            let u = original;
            let r = std::thread::spawn(move || {
                let u = u;
                act(&u, origin, met);
            })
            .join();
            println!("JOINED: {}", if r.is_err() { "err" } else { "ok" });
            std::process::exit(0);
        }
        Topo::Caught | Topo::CaughtRetry | Topo::CaughtLendingClone => {
            let u = original;
            let r = std::panic::catch_unwind(std::panic::AssertUnwindSafe(|| {
                if topo == Topo::CaughtLendingClone {
                    let c = u.clone();
                    let _lent: &Unimock = c.make_ref(u.clone());
                    act(&c, origin, met)
                } else {
                    act(&u, origin, met)
                }
            }));
            println!("CAUGHT: {}", if r.is_err() { "err" } else { "ok" });
            // the mock is still usable
            if !met {
                let v = u.m(0);
                println!("USABLE: {v}");
            }
            if origin == Origin::MatcherOrderedRaced {
                // the ordered sequence goes on where the completed calls left it
                let r = std::panic::catch_unwind(std::panic::AssertUnwindSafe(|| u.o2(0)));
                match r {
                    Ok(v) => println!("AFTER: ok {v}"),
                    Err(p) => println!("AFTER: err {}", vh::obs::payload_to_string(p).replace('\n', " | ")),
                }
            }
            // ... also for the very call that panicked: the same action, now without the injected
            // panic, must be answered as configured
            if topo == Topo::CaughtRetry {
                ARMED.store(false, std::sync::atomic::Ordering::SeqCst);
                let r = std::panic::catch_unwind(std::panic::AssertUnwindSafe(|| match origin {
                    Origin::Matcher => u.pm(1),
                    Origin::Answer => u.pa(0),
                    Origin::RealFn => u.r(0),
                    Origin::DefaultBody => u.d(0),
                    _ => {
                        let _ = u.cl();
                        14
                    }
                }));
                match r {
                    Ok(v) => println!("RETRY: ok {v}"),
                    Err(p) => println!("RETRY: err {}", vh::obs::payload_to_string(p).replace('\n', " | ")),
                }
            }
            let r = std::panic::catch_unwind(std::panic::AssertUnwindSafe(move || drop(u)));
            match r {
                Ok(()) => println!("VERDICT: silent"),
                Err(p) => {
                    let msg = vh::obs::payload_to_string(p);
                    println!("VERDICT: failed: {}", msg.replace('\n', " | "));
                }
            }
            std::process::exit(0);
        }
    }
    println!("UNEXPECTED: the origin did not panic");
    std::process::exit(0);
}

// ---------------------------------------------------------------------------------------------
// parent
// ---------------------------------------------------------------------------------------------

const TEARDOWN_SENTENCES: [&str; 4] = [
    "cannot verify calls",
    "destroyed on a different thread",
    "to match exactly",
    "was never called",
];

struct CellResult {
    status: Option<i32>,
    signal: Option<i32>,
    reports: Vec<String>,
    stdout: String,
}

fn run_cell(origin: Origin, topo: Topo, met: bool) -> CellResult {
    use std::os::unix::process::ExitStatusExt;
    let exe = std::env::current_exe().unwrap();
    // every cell has a wall cap: a child that does not finish is killed (and judged as having died
    // by that signal) instead of stalling the table
    let mut child = Command::new(exe)
        .arg("--cell")
        .arg(format!("{origin:?}/{topo:?}/{met}"))
        .env("RUST_BACKTRACE", "0")
        .stdout(std::process::Stdio::piped())
        .stderr(std::process::Stdio::piped())
        .spawn()
        .unwrap_or_else(|e| machinery(&format!("cannot spawn child: {e}")));
    let mut so = child.stdout.take().unwrap();
    let mut se = child.stderr.take().unwrap();
    let t_out = std::thread::spawn(move || {
        let mut b = Vec::new();
        let _ = std::io::Read::read_to_end(&mut so, &mut b);
        b
    });
    let t_err = std::thread::spawn(move || {
        let mut b = Vec::new();
        let _ = std::io::Read::read_to_end(&mut se, &mut b);
        b
    });
    let deadline = std::time::Instant::now() + std::time::Duration::from_secs(120);
    let status = loop {
        match child.try_wait() {
            Ok(Some(st)) => break st,
            Ok(None) if std::time::Instant::now() > deadline => {
                let _ = child.kill();
                break child.wait().unwrap_or_else(|e| machinery(&format!("cannot reap child: {e}")));
            }
            Ok(None) => std::thread::sleep(std::time::Duration::from_millis(10)),
            Err(e) => machinery(&format!("cannot wait for child: {e}")),
        }
    };
    struct Out {
        status: std::process::ExitStatus,
        stdout: Vec<u8>,
        stderr: Vec<u8>,
    }
    let out = Out {
        status,
        stdout: t_out.join().unwrap_or_default(),
        stderr: t_err.join().unwrap_or_default(),
    };
    let stderr = String::from_utf8_lossy(&out.stderr).to_string();
    // a report = the header line plus the message lines up to the next header / note
    let mut reports: Vec<String> = vec![];
    for line in stderr.lines() {
        if line.starts_with("thread '") && line.contains("panicked at") {
            reports.push(String::new());
        } else if let Some(last) = reports.last_mut() {
            last.push_str(line);
            last.push('\n');
        }
    }
    CellResult {
        status: out.status.code(),
        signal: out.status.signal(),
        reports,
        stdout: String::from_utf8_lossy(&out.stdout).to_string(),
    }
}

fn judge(origin: Origin, topo: Topo, met: bool, r: &CellResult) -> Result<(), String> {
    if let Some(sig) = r.signal {
        return Err(format!(
            "the child died by signal {sig} (abort = a second panic while unwinding); {} reports: {:?}",
            r.reports.len(),
            r.reports
        ));
    }
    if r.stdout.contains("UNEXPECTED") {
        // the injection point did not panic at all: nothing to judge about *this* property
        return Err(format!("SKIP: {}", r.stdout.trim()));
    }
    match topo {
        Topo::Caught | Topo::CaughtRetry | Topo::CaughtLendingClone => {
            if r.status != Some(0) {
                return Err(format!("caught cell exited with {:?}", r.status));
            }
            if !r.stdout.contains("CAUGHT: err") {
                return Err(format!("the injected panic did not surface: {}", r.stdout));
            }
            if !met && !r.stdout.contains("USABLE: 1") {
                return Err(format!("the mock did not answer after the caught panic: {}", r.stdout));
            }
            if origin == Origin::MatcherOrderedRaced {
                for want in ["RACED: ok 4", "AFTER: ok 5"] {
                    if !r.stdout.lines().any(|l| l == want) {
                        let got: Vec<&str> = r.stdout.lines().filter(|l| l.starts_with("RACED:") || l.starts_with("AFTER:")).collect();
                        return Err(format!("a matcher panicked (and was caught) for ordered position 1 while another thread completed position 2; the sequence must go on with position 3 ({want} expected), got {got:?}"));
                    }
                }
            }
            let retried = topo == Topo::CaughtRetry;
            if retried {
                let want = match origin {
                    Origin::Matcher => "RETRY: ok 2",
                    Origin::Answer => "RETRY: ok 11",
                    Origin::RealFn => "RETRY: ok 12",
                    Origin::DefaultBody => "RETRY: ok 13",
                    _ => "RETRY: ok 14",
                };
                if !r.stdout.lines().any(|l| l == want) {
                    let got = r.stdout.lines().find(|l| l.starts_with("RETRY:")).unwrap_or("no retry line");
                    return Err(format!("after the caught user panic the same call (now without the injected panic) must be answered as configured ({want}), got {got:?}"));
                }
            }
            // verdict reflects the calls actually matched: user panics are not recorded
            let never_called = matches!(origin, Origin::ArgDebug | Origin::MatcherOrdered | Origin::MatcherOrderedRaced) || (origin == Origin::Matcher && !retried);
            let verdict = r.stdout.lines().find(|l| l.starts_with("VERDICT:")).unwrap_or("");
            if never_called {
                if !(verdict.starts_with("VERDICT: failed") && verdict.contains("was never called") && !verdict.contains("INJECTED")) {
                    return Err(format!("expected only the never-called line of the unmatched method, got {verdict:?}"));
                }
            } else if verdict != "VERDICT: silent" {
                return Err(format!("expected a silent verification (every expectation was met by the calls actually matched), got {verdict:?}"));
            }
            // (the caught verification failure of the never-called cells is reported by the panic
            // hook too: it is the harness catching it, not a double panic)
            let retry_failed = r.stdout.contains("RETRY: err");
            if r.reports.len() != 1 + never_called as usize + retry_failed as usize || !r.reports[0].contains(origin.first_report()) {
                return Err(format!("expected the injected panic report first, got {:?}", r.reports));
            }
            Ok(())
        }
        Topo::OnWorkerThread => {
            // the worker unwinds (one report); afterwards main verifies normally: a mock-induced
            // error is forwarded (second, legitimate report + exit 101), a user panic is not
            if !r.stdout.contains("JOINED: err") {
                return Err(format!("the worker did not panic: {}", r.stdout));
            }
            if r.reports.is_empty() || !r.reports[0].contains(origin.first_report()) {
                return Err(format!("first report is not the injected panic: {:?}", r.reports));
            }
            if TEARDOWN_SENTENCES.iter().any(|s| r.reports[0].contains(s)) && origin.is_user() {
                return Err(format!("teardown panicked on the unwinding worker: {:?}", r.reports[0]));
            }
            if !origin.is_user() {
                // C08: main's verification fails with the recorded error
                if r.status != Some(101) || r.reports.len() != 2 || !r.reports[1].contains(origin.first_report()) {
                    return Err(format!("expected main's verification to fail with the recorded error (exit 101, two reports), got status {:?}, reports {:?}", r.status, r.reports));
                }
            } else {
                // a user panic on a worker's clone leaves verification to judge the counts: the
                // original reports what is unmet (and nothing when everything is met)
                let unmet = !met || matches!(origin, Origin::Matcher | Origin::ArgDebug | Origin::MatcherOrdered | Origin::MatcherOrderedRaced);
                if unmet {
                    if r.status != Some(101) || r.reports.len() != 2 || !TEARDOWN_SENTENCES[2..].iter().any(|s| r.reports[1].contains(s)) {
                        return Err(format!("expected main's verification to report the unmet expectation (exit 101, second report with expectation lines), got status {:?}, reports {:?}", r.status, r.reports));
                    }
                } else if r.status != Some(0) || r.reports.len() != 1 {
                    return Err(format!("expected a silent verification on main after the worker's user panic (exit 0, one report), got status {:?}, reports {:?}", r.status, r.reports));
                }
            }
            Ok(())
        }
        Topo::CaughtCloneSurvivesOriginal => {
            if r.status != Some(0) || !r.stdout.contains("CAUGHT: err") {
                return Err(format!("expected the injected panic to be caught and the process to go on; status {:?}, stdout {}", r.status, r.stdout));
            }
            // m(0) is an exactly-once pattern: answered (1) unless the action already used it up
            // (then the clone's call is one too many for the count, but still answered)
            if !r.stdout.lines().any(|l| l == "SURVIVOR: ok 1") {
                let got = r.stdout.lines().find(|l| l.starts_with("SURVIVOR:")).unwrap_or("no line");
                return Err(format!("after the original was dropped by the caught unwinding, the surviving clone must still answer as configured, got {got:?}"));
            }
            if r.reports.is_empty() || !r.reports[0].contains(origin.first_report()) || r.reports.len() > 1 {
                return Err(format!("expected exactly the injected panic report, got {:?}", r.reports));
            }
            Ok(())
        }
        Topo::OriginalOnWorkerThread | Topo::LongChainUnwoundOnSmallStack => {
            if !r.stdout.contains("JOINED: err") || r.status != Some(0) {
                return Err(format!("expected the worker to unwind once and main to exit 0; status {:?}, stdout {}", r.status, r.stdout));
            }
            if r.reports.len() != 1 || !r.reports[0].contains(origin.first_report()) {
                return Err(format!("expected exactly the injected panic report, got {:?}", r.reports));
            }
            if TEARDOWN_SENTENCES.iter().any(|s| r.reports[0].contains(s)) {
                return Err(format!("teardown's own panic surfaced: {:?}", r.reports[0]));
            }
            Ok(())
        }
        _ => {
            if r.status != Some(101) {
                return Err(format!("expected exit status 101 (the injected panic reaching main), got {:?}; stdout {}", r.status, r.stdout));
            }
            let mut reports = r.reports.clone();
            if origin == Origin::CloneErrorThenUserPanic {
                // the caught mock error of the clone is reported by the panic hook first
                if reports.is_empty() || !reports[0].contains("No mock implementation found.") {
                    return Err(format!("expected the caught clone error to be reported first, got {:?}", reports));
                }
                reports.remove(0);
            }
            if reports.len() != 1 {
                return Err(format!("expected exactly one panic report, got {}: {:?}", reports.len(), reports));
            }
            if !reports[0].contains(origin.first_report()) {
                return Err(format!("the report is not the injected panic ({:?}): {:?}", origin.first_report(), reports[0]));
            }
            if origin.is_user() && TEARDOWN_SENTENCES.iter().any(|s| reports[0].contains(s)) {
                return Err(format!("teardown's own panic surfaced: {:?}", reports[0]));
            }
            Ok(())
        }
    }
}

fn parse_cell(s: &str) -> Option<(Origin, Topo, bool)> {
    let mut it = s.split('/');
    let o = it.next()?;
    let t = it.next()?;
    let m = it.next()?;
    Some((
        *ORIGINS.iter().find(|x| format!("{x:?}") == o)?,
        *TOPOS.iter().find(|x| format!("{x:?}") == t)?,
        m == "true",
    ))
}

fn main() {
    let args: Vec<String> = std::env::args().collect();
    if args.len() >= 3 && args[1] == "--cell" {
        let (o, t, m) = parse_cell(&args[2]).expect("bad cell");
        child(o, t, m);
    }
    let ctx: &'static vh::explore::Ctx = Box::leak(Box::new(vh::explore::Ctx::from_args("C11")));
    if let Some(replay) = &ctx.replay {
        let case = replay.get("case").unwrap_or(replay);
        let cell = case.get("cell").and_then(|c| c.as_str()).unwrap_or("");
        let (o, t, m) = parse_cell(cell).unwrap_or_else(|| machinery("bad cell in replay file"));
        let r = run_cell(o, t, m);
        println!("status {:?} signal {:?}\nreports {:?}\nstdout {}", r.status, r.signal, r.reports, r.stdout);
        match judge(o, t, m, &r) {
            Ok(()) => {
                println!("replay: property holds in this cell");
                std::process::exit(0);
            }
            Err(what) => {
                ctx.violation("replay", &what, case.clone());
                std::process::exit(1);
            }
        }
    }
    let mut cells = vec![];
    for o in ORIGINS {
        for t in TOPOS {
            if !applicable(o, t) {
                continue;
            }
            for met in [true, false] {
                if o == Origin::UserBefore && met {
                    continue;
                }
                cells.push((o, t, met));
            }
        }
    }
    let results = par_map(&cells, |_, (o, t, m)| {
        ctx.tick();
        let r = run_cell(*o, *t, *m);
        let verdict = judge(*o, *t, *m, &r);
        (r.status, r.signal, r.reports.len(), verdict)
    });
    let mut classes = BTreeSet::new();
    let mut sample = None;
    let mut skipped: Vec<String> = vec![];
    for ((o, t, m), (status, signal, n_reports, verdict)) in cells.iter().zip(results) {
        classes.insert(format!("{status:?}/{signal:?}/{n_reports}"));
        if sample.is_none() && *t == Topo::CloneParked && !o.is_user() {
            sample = Some(J::obj().set("cell", format!("{o:?}/{t:?}/{m}")).set("exit_status", status).set("panic_reports", n_reports));
        }
        if let Err(what) = &verdict {
            if what.starts_with("SKIP:") {
                skipped.push(format!("{o:?}/{t:?}/{m}: {what}"));
                continue;
            }
        }
        if let Err(what) = verdict {
            ctx.violation(
                &format!("{o:?}/{t:?}"),
                &format!("cell origin={o:?} topology={t:?} expectation_met={m}: {what}"),
                J::obj().set("cell", format!("{o:?}/{t:?}/{m}")),
            );
        }
    }
    if !skipped.is_empty() {
        println!("note: {} cell(s) not judged because the injected origin did not panic (first: {})", skipped.len(), skipped[0]);
    }
    if skipped.len() * 4 > cells.len() {
        machinery("more than a quarter of the crash table could not be injected");
    }
    if cells.len() < 200 || classes.len() < 2 {
        vacuous("vacuous crash table");
    }
    let distinct: BTreeSet<(Origin, Topo)> = cells.iter().map(|(o, t, _)| (*o, *t)).collect();
    let cov = J::obj()
        .set("evaluations", cells.len())
        .set("distinct_nontrivial", distinct.len())
        .set(
            "rule",
            "one child process per cell of {23 panic origins} x {16 instance topologies} x {base expectation met, unmet} (inapplicable combinations removed); a cell is non-trivial when a panic is injected while at least one Unimock instance is alive; distinct = distinct (origin, topology) pairs",
        )
        .set("samples", J::Arr(sample.into_iter().collect()))
        .set("exhaustive", skipped.is_empty())
        .set("cells_not_judged_because_the_origin_did_not_panic", skipped.len())
        .set("origins", J::Arr(ORIGINS.iter().map(|o| J::from(format!("{o:?}"))).collect()))
        .set("topologies", J::Arr(TOPOS.iter().map(|o| J::from(format!("{o:?}"))).collect()))
        .set("observed_exit_classes", J::Arr(classes.iter().map(|c| J::from(c.as_str())).collect()));
    ctx.finish(
        "fault_enumeration",
        cov,
        &[
            "std build; a double panic is observed as death by signal of the child process",
            "the table is enumerated completely; panic origins inside unimock's own formatting code other than argument Debug are not injected",
        ],
    );
}

//! C18 – behaviour depends only on clauses and call history, not on incidental layout.
//!
//! Metamorphic (differential) relations between runs of the real mock, each enumerated
//! exhaustively within its bound; no expected values are written down:
//!  (a) every admissible shuffle of a clause list (each method's own order and the relative order
//!      of ordered clauses kept) x every history gives the same per-call outcomes, final state and
//!      verdict as the baseline order;
//!  (b) every assignment of a history's calls to {original, clone 1, clone 2} gives the same;
//!  (c) two mocks built from the same clauses, driven by interleaved histories, each behave as when
//!      driven alone;
//!  (d) patterns of two instantiations of a generic method never answer each other's calls.

use std::collections::BTreeSet;

use unimock::verif::DynClause;
use unimock::*;
use vh::explore::*;
use vh::json::J;
use vh::lockstep::{history_from_json, history_to_json, Call};
use vh::obs::*;
use vh::spec::*;
use vh::universe::*;

fn seg(resp: Resp, quant: Quant) -> Seg {
    Seg { resp, quant }
}

fn single(m: M, entry: Entry, mask: u8, segs: Vec<Seg>) -> ClauseSpec {
    ClauseSpec::Single {
        m,
        entry,
        pat: PatSpec { mask, segs },
    }
}

fn base_lists() -> Vec<Vec<ClauseSpec>> {
    vec![
        vec![
            single(M::A, Entry::EachCall, 1, vec![seg(Resp::Ret(100), Quant::Open)]),
            single(M::A, Entry::EachCall, 7, vec![seg(Resp::Ret(101), Quant::N(2))]),
            single(M::B, Entry::SomeCall, 7, vec![seg(Resp::Ret(200), Quant::Open)]),
            single(M::C, Entry::NextCall, 1, vec![seg(Resp::Ret(300), Quant::Open)]),
            single(M::E, Entry::NextCall, 7, vec![seg(Resp::Ret(301), Quant::N(2))]),
            single(M::C, Entry::NextCall, 7, vec![seg(Resp::Ret(302), Quant::Open)]),
        ],
        vec![
            ClauseSpec::Stub {
                m: M::A,
                pats: vec![
                    PatSpec {
                        mask: 2,
                        segs: vec![seg(Resp::Ret(110), Quant::N(1)), seg(Resp::Ret(111), Quant::Open)],
                    },
                    PatSpec {
                        mask: 3,
                        segs: vec![seg(Resp::AnsArc(112), Quant::AtLeast(1))],
                    },
                ],
            },
            single(M::B, Entry::EachCall, 1, vec![seg(Resp::Ret(210), Quant::N(1))]),
            single(M::E, Entry::NextCall, 1, vec![seg(Resp::Ret(310), Quant::N(1)), seg(Resp::Ret(311), Quant::Open)]),
            single(M::B, Entry::EachCall, 7, vec![seg(Resp::Panics(9), Quant::Open)]),
            single(M::C, Entry::NextCall, 7, vec![seg(Resp::Ret(312), Quant::N(0))]),
            single(M::Both, Entry::EachCall, 1, vec![seg(Resp::Unmock, Quant::Open)]),
        ],
        vec![
            // an answer that lends a derived instance through make_ref: whichever instance the call
            // is routed through keeps that clone until it is torn down
            single(M::A, Entry::EachCall, 1, vec![seg(Resp::AnsArc(LENDING_ANSWER_ID + 1), Quant::Open)]),
            single(M::A, Entry::EachCall, 7, vec![seg(Resp::Ret(120), Quant::Open)]),
            single(M::B, Entry::EachCall, 7, vec![seg(Resp::AnsArc(LENDING_ANSWER_ID + 2), Quant::AtLeast(1))]),
            single(M::C, Entry::NextCall, 7, vec![seg(Resp::Ret(320), Quant::Open)]),
        ],
    ]
}

#[derive(Clone, Debug, PartialEq, Eq, PartialOrd, Ord)]
struct Observed {
    obs: Vec<Obs>,
    counts: Vec<(String, Vec<usize>)>,
    ordered_index: usize,
    errors: usize,
    verdict: Verdict,
}

fn normalise(v: Verdict) -> Verdict {
    match v {
        Verdict::Silent => Verdict::Silent,
        Verdict::Failed(mut l) => {
            l.sort();
            Verdict::Failed(l)
        }
    }
}

fn finish(original: Unimock, obs: Vec<Obs>) -> Observed {
    finish_how(original, obs, VerifyHow::Drop)
}

fn finish_how(original: Unimock, obs: Vec<Obs>, how: VerifyHow) -> Observed {
    let snap = unimock::verif::snapshot(&original);
    let mut counts: Vec<(String, Vec<usize>)> = snap
        .methods
        .iter()
        .map(|m| (m.path.clone(), m.patterns.iter().map(|p| p.count).collect()))
        .collect();
    counts.sort();
    Observed {
        obs,
        counts,
        ordered_index: snap.ordered_index,
        errors: snap.panic_reasons.len(),
        verdict: normalise(verify_by(original, how)),
    }
}

fn run_plain(clauses: &[ClauseSpec], history: &[Call]) -> Observed {
    run_how(clauses, history, VerifyHow::Drop)
}

/// `VerifyHow::Verify`: the original is told not to verify in drop right after construction (the
/// clones made afterwards inherit that) and is judged by an explicit verify() at the end.
fn run_how(clauses: &[ClauseSpec], history: &[Call], how: VerifyHow) -> Observed {
    run_mock(Unimock::new(build_clause(clauses)), history, how, false)
}

/// Like `run_plain`, but the clones end on another thread (which is not unwinding).
fn run_clones_end_elsewhere(clauses: &[ClauseSpec], history: &[Call]) -> Observed {
    run_mock(Unimock::new(build_clause(clauses)), history, VerifyHow::Drop, true)
}

/// The same clauses in a partial mock (calls nothing answers go to the real functions).
fn run_partial(clauses: &[ClauseSpec], history: &[Call]) -> Observed {
    run_mock(Unimock::new_partial(build_clause(clauses)), history, VerifyHow::Drop, false)
}

fn run_mock(original: Unimock, history: &[Call], how: VerifyHow, clones_end_elsewhere: bool) -> Observed {
    let original = if how == VerifyHow::Verify { original.no_verify_in_drop() } else { original };
    let n_clones = history.iter().map(|c| c.via & 0x7f).max().unwrap_or(0) as usize;
    let clones: Vec<Unimock> = (0..n_clones).map(|_| original.clone()).collect();
    let mut obs = vec![];
    for c in history {
        let inst = if c.via & 0x7f == 0 { &original } else { &clones[(c.via & 0x7f) as usize - 1] };
        // 0x80: the call is made by another thread that borrows the instance
        if c.via & 0x80 != 0 {
            obs.push(observe_call_on_thread(inst, c.m, c.x).obs);
        } else {
            obs.push(observe_call(inst, c.m, c.x).obs);
        }
    }
    if clones_end_elsewhere {
        // where a clone ends is no part of the history: a panic there would be
        if let Err(p) = std::thread::spawn(move || drop(clones)).join() {
            obs.push(Obs::Panic(format!("dropping the clones on another thread panicked: {}", payload_to_string(p))));
        }
    } else {
        drop(clones);
    }
    finish_how(original, obs, how)
}

/// All permutations of 0..n that keep the relative order of same-method clauses and of ordered
/// clauses.
fn admissible_shuffles(clauses: &[ClauseSpec]) -> Vec<Vec<usize>> {
    fn rec(clauses: &[ClauseSpec], used: &mut Vec<bool>, cur: &mut Vec<usize>, out: &mut Vec<Vec<usize>>) {
        if cur.len() == clauses.len() {
            out.push(cur.clone());
            return;
        }
        for i in 0..clauses.len() {
            if used[i] {
                continue;
            }
            // i may come next only if every earlier clause it must follow is already placed
            let ok = (0..i).all(|j| {
                used[j]
                    || !(clauses[j].method() == clauses[i].method()
                        || (clauses[j].ordered() && clauses[i].ordered()))
            });
            if !ok {
                continue;
            }
            used[i] = true;
            cur.push(i);
            rec(clauses, used, cur, out);
            cur.pop();
            used[i] = false;
        }
    }
    let mut out = vec![];
    rec(clauses, &mut vec![false; clauses.len()], &mut vec![], &mut out);
    out
}

fn sublists(n: usize, min_len: usize) -> Vec<Vec<usize>> {
    (0u32..(1 << n))
        .map(|bits| (0..n).filter(|i| bits >> i & 1 == 1).collect::<Vec<_>>())
        .filter(|v| v.len() >= min_len)
        .collect()
}

fn hist_alphabet() -> Vec<Call> {
    vec![
        Call::new(M::A, 0),
        Call::new(M::A, 1),
        Call::new(M::B, 0),
        Call::new(M::C, 0),
        Call::new(M::E, 0),
        Call::new(M::Both, 0),
    ]
}

fn clauses_json(c: &[ClauseSpec]) -> J {
    J::Arr(c.iter().map(|c| c.to_json()).collect())
}

// ------------------------------------------------------------------------------------------ (d)

#[derive(Clone, Copy, Debug, PartialEq, Eq)]
struct GPat {
    wide: bool, // false = g::<u8>, true = g::<u16>
    only_zero: bool,
    id: u32,
}

fn g_clause(pats: &[GPat]) -> DynClause {
    let mut out = DynClause::new();
    for p in pats {
        match (p.wide, p.only_zero) {
            (false, false) => out.push(GMock::g.with_types::<u8>().each_call(matching!(_)).returns(p.id)),
            (false, true) => out.push(GMock::g.with_types::<u8>().each_call(matching!(0)).returns(p.id)),
            (true, false) => out.push(GMock::g.with_types::<u16>().each_call(matching!(_)).returns(p.id)),
            (true, true) => out.push(GMock::g.with_types::<u16>().each_call(matching!(0)).returns(p.id)),
        }
    }
    out
}

fn relation_d(ctx: &vh::explore::Ctx, stats: &mut Stats, depth: usize) {
    // all pattern lists of length <= 3 over {u8,u16} x {any, only 0}
    let kinds: Vec<(bool, bool)> = vec![(false, false), (false, true), (true, false), (true, true)];
    let mut lists: Vec<Vec<GPat>> = vec![vec![]];
    let mut all = vec![];
    for len in 1..=3 {
        let mut next = vec![];
        for l in &lists {
            for (w, z) in &kinds {
                let mut n = l.clone();
                n.push(GPat {
                    wide: *w,
                    only_zero: *z,
                    id: 100 + len as u32,
                });
                next.push(n);
            }
        }
        all.extend(next.clone());
        lists = next;
    }
    // calls: (wide, value)
    let calls: Vec<(bool, u8)> = vec![(false, 0), (false, 1), (true, 0), (true, 1)];
    for pats in &all {
        for hist in sequences(&calls, depth) {
            ctx.tick();
            let u = Unimock::new(g_clause(pats));
            for (i, (wide, x)) in hist.iter().enumerate() {
                let got = if *wide {
                    catch(|| <Unimock as G>::g::<u16>(&u, *x as u16))
                } else {
                    catch(|| <Unimock as G>::g::<u8>(&u, *x))
                };
                // own-instantiation first match
                let want = pats
                    .iter()
                    .find(|p| p.wide == *wide && (!p.only_zero || *x == 0))
                    .map(|p| p.id);
                stats.add("transitions", 1);
                let ok = match (&got, want) {
                    (Ok(v), Some(w)) => *v == w,
                    (Err(msg), None) => {
                        msg.contains("G::g") && (msg.contains("No matching call patterns") || msg.contains("No mock implementation found"))
                    }
                    _ => false,
                };
                stats.note("d_outcomes", format!("{:?}", got.as_ref().map(|v| *v).map_err(|m| vh::model::classify(m))));
                if !ok {
                    ctx.violation(
                        "d:generic-instantiations",
                        &format!("patterns {pats:?}, calls {hist:?}, step {i}: expected {want:?} (first matching pattern of the same instantiation), observed {got:?}"),
                        J::obj().set("relation", "d").set("patterns", format!("{pats:?}")).set("calls", format!("{hist:?}")),
                    );
                }
            }
            let _ = catch(move || drop(u));
            stats.add("traces_validated_against_impl", 1);
        }
    }
}


fn main() {
    silence_panics();
    let ctx: &'static vh::explore::Ctx = Box::leak(Box::new(vh::explore::Ctx::from_args("C18")));
    if let Some(replay) = &ctx.replay {
        let case = replay.get("case").unwrap_or(replay);
        let get_clauses = |k: &str| -> Vec<ClauseSpec> {
            case.get(k)
                .and_then(|c| c.as_arr())
                .map(|a| a.iter().filter_map(ClauseSpec::from_json).collect())
                .unwrap_or_default()
        };
        match case.get("relation").and_then(|r| r.as_str()) {
            Some("a") | Some("b") => {
                let base = run_plain(&get_clauses("baseline_clauses"), &history_from_json(case.get("baseline_history").unwrap()).unwrap());
                let var = run_plain(&get_clauses("variant_clauses"), &history_from_json(case.get("variant_history").unwrap()).unwrap());
                println!("baseline {base:?}\nvariant  {var:?}");
                if base == var {
                    println!("replay: relation holds");
                    std::process::exit(0);
                }
                ctx.violation("replay", "baseline and variant differ", case.clone());
                std::process::exit(1);
            }
            _ => machinery("replay of this relation is not supported; re-run the check"),
        }
    }
    let quick = ctx.quick() || ctx.variant != "std";
    let depth = if quick { 3 } else { 5 };
    ctx.watchdog(180, || J::Str("no progress in the C18 explorer".into()));
    let mut stats = Stats::default();
    let alphabet = hist_alphabet();

    // (a) clause shuffles
    let mut jobs: Vec<(Vec<ClauseSpec>, Vec<usize>)> = vec![];
    for base in base_lists() {
        for sub in sublists(base.len(), 2) {
            let clauses: Vec<ClauseSpec> = sub.iter().map(|i| base[*i].clone()).collect();
            for perm in admissible_shuffles(&clauses) {
                if perm.iter().enumerate().all(|(i, p)| i == *p) {
                    continue;
                }
                jobs.push((clauses.clone(), perm));
            }
        }
    }
    let parts = par_map(&jobs, |_, (clauses, perm)| {
        let mut st = Stats::default();
        let shuffled: Vec<ClauseSpec> = perm.iter().map(|i| clauses[*i].clone()).collect();
        let used: BTreeSet<M> = clauses.iter().map(|c| c.method()).collect();
        let alpha: Vec<Call> = alphabet.iter().filter(|c| used.contains(&c.m) || c.m == M::A).cloned().collect();
        for h in sequences(&alpha, depth) {
            if ctx.stopped() {
                break;
            }
            ctx.tick();
            let base = run_plain(clauses, &h);
            let var = run_plain(&shuffled, &h);
            st.add("transitions", 2 * h.len() as u64);
            st.add("traces_validated_against_impl", 2);
            st.add("a_pairs", 1);
            st.note("a_outcomes", format!("{:?}", base.obs.iter().map(|o| o.short()).collect::<Vec<_>>()));
            if base != var {
                ctx.violation(
                    "a:clause-shuffle",
                    &format!(
                        "shuffling clauses {:?} by {perm:?} changes the run of {}: baseline {base:?}, shuffled {var:?}",
                        clauses_json(clauses).to_string(),
                        history_to_json(&h).to_string()
                    ),
                    J::obj()
                        .set("relation", "a")
                        .set("baseline_clauses", clauses_json(clauses))
                        .set("variant_clauses", clauses_json(&shuffled))
                        .set("baseline_history", history_to_json(&h))
                        .set("variant_history", history_to_json(&h)),
                );
            }
        }
        st
    });
    for p in parts {
        stats.merge(p);
    }
    stats.add("a_shuffles", jobs.len() as u64);

    // (b) routing over original and clones
    let hist_b = sequences(&alphabet, depth.min(4));
    let bases = base_lists();
    let mut jobs_b: Vec<(usize, &Vec<Call>)> = vec![];
    for b in 0..bases.len() {
        for h in &hist_b {
            jobs_b.push((b, h));
        }
    }
    let parts = par_map(&jobs_b, |_, (b, h)| {
        let mut st = Stats::default();
        let clauses = &bases[*b];
        let base = run_plain(clauses, h);
        // original, clone 1, clone 2, and the original borrowed by another thread
        let routes = sequences(&[0u8, 1, 2, 0x80], h.len());
        for r in routes {
            if r.iter().all(|v| *v == 0) {
                continue;
            }
            ctx.tick();
            let routed: Vec<Call> = h.iter().zip(&r).map(|(c, via)| Call { via: *via, ..*c }).collect();
            let var = run_plain(clauses, &routed);
            st.add("transitions", h.len() as u64);
            st.add("traces_validated_against_impl", 1);
            st.add("b_routings", 1);
            // the routed run once more with the clones ending on another thread
            if h.len() <= 3 {
                let var_e = run_clones_end_elsewhere(clauses, &routed);
                st.add("traces_validated_against_impl", 1);
                st.add("b_routings_clones_end_elsewhere", 1);
                if base != var_e {
                    ctx.violation(
                        "b:routing-clones-end-elsewhere",
                        &format!(
                            "routing {} as {} with the clones dropped on another thread: baseline {base:?}, routed {var_e:?}",
                            history_to_json(h).to_string(),
                            history_to_json(&routed).to_string()
                        ),
                        J::obj().set("relation", "b-clones-end-elsewhere"),
                    );
                }
            }
            // the same pair of runs with verification in drop switched off and an explicit verify()
            if h.len() <= 3 {
                let base_v = run_how(clauses, h, VerifyHow::Verify);
                let var_v = run_how(clauses, &routed, VerifyHow::Verify);
                st.add("traces_validated_against_impl", 1);
                st.add("b_routings_explicit_verify", 1);
                if base_v != var_v || base_v != base {
                    ctx.violation(
                        "b:routing-explicit-verify",
                        &format!(
                            "routing {} as {} with no_verify_in_drop() and an explicit verify(): baseline {base_v:?}, routed {var_v:?}, baseline verified in drop {base:?}",
                            history_to_json(h).to_string(),
                            history_to_json(&routed).to_string()
                        ),
                        J::obj().set("relation", "b-explicit-verify"),
                    );
                }
            }
            if base != var {
                ctx.violation(
                    "b:routing",
                    &format!(
                        "routing {} as {} changes the run: baseline {base:?}, routed {var:?}",
                        history_to_json(h).to_string(),
                        history_to_json(&routed).to_string()
                    ),
                    J::obj()
                        .set("relation", "b")
                        .set("baseline_clauses", clauses_json(clauses))
                        .set("variant_clauses", clauses_json(clauses))
                        .set("baseline_history", history_to_json(h))
                        .set("variant_history", history_to_json(&routed)),
                );
            }
        }
        st
    });
    for p in parts {
        stats.merge(p);
    }

    // (b, partial) the routing relation on a partial mock, over calls that fall through to real
    // functions and default bodies
    let alphabet_p = vec![Call::new(M::A, 0), Call::new(M::Both, 0), Call::new(M::Both, 1), Call::new(M::Unm, 0), Call::new(M::Def, 0)];
    let hist_p = sequences(&alphabet_p, if quick { 2 } else { 3 });
    let parts = par_map(&hist_p, |_, h| {
        let mut st = Stats::default();
        let clauses = &bases[1];
        let base = run_partial(clauses, h);
        for r in sequences(&[0u8, 1, 2, 0x80], h.len()) {
            if r.iter().all(|v| *v == 0) {
                continue;
            }
            ctx.tick();
            let routed: Vec<Call> = h.iter().zip(&r).map(|(c, via)| Call { via: *via, ..*c }).collect();
            let var = run_partial(clauses, &routed);
            st.add("transitions", h.len() as u64);
            st.add("traces_validated_against_impl", 1);
            st.add("b_routings_partial", 1);
            if base != var {
                ctx.violation(
                    "b:routing-partial",
                    &format!(
                        "partial mock: routing {} as {} changes the run: baseline {base:?}, routed {var:?}",
                        history_to_json(h).to_string(),
                        history_to_json(&routed).to_string()
                    ),
                    J::obj().set("relation", "b-partial"),
                );
            }
        }
        st
    });
    for p in parts {
        stats.merge(p);
    }

    // (c) two independent mocks from the same clauses, interleaved
    let hist_c = sequences(&alphabet, 2);
    let mut jobs_c: Vec<(usize, &Vec<Call>, &Vec<Call>)> = vec![];
    for b in 0..bases.len() {
        for h1 in &hist_c {
            for h2 in &hist_c {
                jobs_c.push((b, h1, h2));
            }
        }
    }
    let merges: Vec<Vec<bool>> = sequences(&[false, true], 4)
        .into_iter()
        .filter(|m| m.iter().filter(|x| **x).count() == 2)
        .collect();
    let parts = par_map(&jobs_c, |_, (b, h1, h2)| {
        let mut st = Stats::default();
        let clauses = &bases[*b];
        let alone1 = run_plain(clauses, h1);
        let alone2 = run_plain(clauses, h2);
        for merge in &merges {
            ctx.tick();
            let m1 = Unimock::new(build_clause(clauses));
            let m2 = Unimock::new(build_clause(clauses));
            let (mut o1, mut o2) = (vec![], vec![]);
            let (mut i1, mut i2) = (0, 0);
            for second in merge {
                if *second {
                    let c = h2[i2];
                    i2 += 1;
                    o2.push(observe_call(&m2, c.m, c.x).obs);
                } else {
                    let c = h1[i1];
                    i1 += 1;
                    o1.push(observe_call(&m1, c.m, c.x).obs);
                }
            }
            let r1 = finish(m1, o1);
            let r2 = finish(m2, o2);
            st.add("transitions", 4);
            st.add("traces_validated_against_impl", 1);
            st.add("c_interleavings", 1);
            if r1 != alone1 || r2 != alone2 {
                ctx.violation(
                    "c:independent-mocks",
                    &format!(
                        "two mocks from the same clauses, histories {} and {} interleaved as {merge:?}: alone {alone1:?} / {alone2:?}, interleaved {r1:?} / {r2:?}",
                        history_to_json(h1).to_string(),
                        history_to_json(h2).to_string()
                    ),
                    J::obj().set("relation", "c"),
                );
            }
        }
        st
    });
    for p in parts {
        stats.merge(p);
    }

    // (d) generic instantiations
    relation_d(ctx, &mut stats, if quick { 2 } else { 3 });

    // (e) same-named generic methods of two traits in one module
    vh::twins::cells(ctx, &mut stats, "e:same-named-generic-methods");

    if stats.get("a_pairs") == 0 || stats.get("b_routings") == 0 || stats.get("c_interleavings") == 0 || stats.set_len("a_outcomes") < 10 || stats.set_len("d_outcomes") < 3 {
        vacuous("vacuous exploration in C18");
    }
    stats.add("states", stats.set_len("a_outcomes") as u64 + stats.set_len("d_outcomes") as u64);
    let mut cov = stats.to_json();
    cov.put(
        "samples",
        J::Arr(vec![J::obj()
            .set("relation", "a")
            .set("clauses", clauses_json(&base_lists()[0]))
            .set("history", history_to_json(&sequences(&alphabet, depth)[7]))]),
    );
    cov.put("exhaustive", !ctx.stopped());
    cov.put(
        "bounds",
        J::obj()
            .set("a", format!("2 base lists of 6 clauses, every sublist of >= 2 clauses, every admissible shuffle, every history of depth {depth} over the methods involved"))
            .set("b", format!("every history of depth {} x every assignment of its calls to {{original, clone 1, clone 2, original borrowed by another thread}}", depth.min(4)))
            .set("c", "every pair of depth-2 histories x every interleaving on two mocks built from the same clauses")
            .set("e", "two traits of one module with a same-named generic method: every subset of {A::get::<u8>, B::get::<u8>, A::get::<u16>} configured in every clause order, B ordered or unordered, every call pair; answers, missing-mock errors and the verification lines")
            .set("d", "every pattern list of length <= 3 over {g::<u8>, g::<u16>} x {any, 0}; every call sequence over both instantiations"),
    );
    ctx.finish(
        "model_checking",
        cov,
        &[
            "pure differential oracle: the baseline run of the real mock is the expected value; states = distinct baseline outcome vectors observed",
            "compared: every call's outcome (value or panic text), per-pattern counters, ordered index, number of recorded errors, verdict line multiset",
        ],
    );
}

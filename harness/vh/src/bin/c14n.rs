//! C14 (one cell): in a feature set without any mutex a single-use return cannot be produced, and
//! the mock must say so at construction, not at call time. Built only for the `nolock` variant.

use vh::explore::*;
use vh::json::J;
use vh::model::{BuildError, Model};
use vh::obs::*;
use vh::spec::*;
use vh::universe::*;

fn seg(resp: Resp, quant: Quant) -> Seg {
    Seg { resp, quant }
}

mod composite {
    //! Single-use returns of composite outputs with an owned part: either the mock refuses them at
    //! construction ("No Mutex API available") or the call yields exactly the configured value -
    //! never another one.
    use core::task::Poll;
    use unimock::*;

    #[unimock(api = CMock)]
    pub trait C14 {
        fn optres(&self) -> Option<Result<&u32, String>>;
        fn res(&self) -> Result<&u32, String>;
        fn vecres(&self) -> Vec<Result<&u32, String>>;
        fn pollres(&self) -> Poll<Result<&u32, String>>;
        fn tup(&self) -> (&u32, String);
        fn optopt(&self) -> Option<Option<String>>;
    }

    macro_rules! cells {
        ($out:expr, $method:ident, $call:ident, $label:expr, $value:expr) => {{
            let want = format!("{:?}", $value);
            for path in 0..3usize {
                let built = vh::obs::catch(|| match path {
                    0 => Unimock::new(CMock::$method.some_call(matching!()).returns($value)).no_verify_in_drop(),
                    1 => Unimock::new(CMock::$method.some_call(matching!()).returns($value).once()).no_verify_in_drop(),
                    _ => Unimock::new(CMock::$method.next_call(matching!()).returns($value)).no_verify_in_drop(),
                });
                let outcome = match built {
                    Err(msg) => Err(msg),
                    Ok(u) => Ok(vh::obs::catch(|| format!("{:?}", u.$call()))),
                };
                $out.push((format!("{}/path{}", $label, path), want.clone(), outcome));
            }
        }};
    }

    /// (label, Debug of the configured value, Err(construction panic) | Ok(call result))
    pub fn run() -> Vec<(String, String, Result<Result<String, String>, String>)> {
        let mut out = vec![];
        cells!(out, optres, optres, "Option<Result<&u32,String>>=None", None::<Result<u32, String>>);
        cells!(out, optres, optres, "Option<Result<&u32,String>>=Some(Ok)", Some(Ok::<u32, String>(5)));
        cells!(out, optres, optres, "Option<Result<&u32,String>>=Some(Err)", Some(Err::<u32, String>("e".to_string())));
        cells!(out, res, res, "Result<&u32,String>=Ok", Ok::<u32, String>(5));
        cells!(out, res, res, "Result<&u32,String>=Err", Err::<u32, String>("e".to_string()));
        cells!(out, vecres, vecres, "Vec<Result<&u32,String>>=[]", Vec::<Result<u32, String>>::new());
        cells!(out, vecres, vecres, "Vec<Result<&u32,String>>=[Ok,Err]", vec![Ok::<u32, String>(5), Err("e".to_string())]);
        cells!(out, pollres, pollres, "Poll<Result<&u32,String>>=Pending", Poll::<Result<u32, String>>::Pending);
        cells!(out, pollres, pollres, "Poll<Result<&u32,String>>=Ready(Err)", Poll::Ready(Err::<u32, String>("e".to_string())));
        cells!(out, tup, tup, "(&u32,String)", (5u32, "s".to_string()));
        cells!(out, optopt, optopt, "Option<Option<String>>=Some(Some)", Some(Some("s".to_string())));
        cells!(out, optopt, optopt, "Option<Option<String>>=Some(None)", Some(None::<String>));
        out
    }
}

fn main() {
    silence_panics();
    let ctx = vh::explore::Ctx::from_args("C14");
    let has_mutex = !cfg!(feature = "nolock");
    let mut cells = vec![];
    for entry in [Entry::SomeCall, Entry::NextCall, Entry::EachCall] {
        for quant in [Quant::Open, Quant::Once, Quant::N(2)] {
            for resp in [Resp::Ret(1), Resp::AnsArc(2)] {
                for pos in 0..3usize {
                    let mut clauses = vec![];
                    for k in 0..3 {
                        if k == pos {
                            clauses.push(ClauseSpec::Single {
                                m: M::A,
                                entry,
                                pat: PatSpec {
                                    mask: 7,
                                    segs: vec![seg(resp, quant)],
                                },
                            });
                        } else {
                            clauses.push(ClauseSpec::Single {
                                m: if k == 0 { M::B } else { M::Plain },
                                entry: Entry::EachCall,
                                pat: PatSpec {
                                    mask: 7,
                                    segs: vec![seg(Resp::AnsArc(9), Quant::Open)],
                                },
                            });
                        }
                    }
                    cells.push(Config {
                        partial: false,
                        clauses,
                    });
                }
            }
        }
    }
    // response chains: the refusal must not depend on what follows (or precedes) the single-use value
    for entry in [Entry::SomeCall, Entry::NextCall, Entry::EachCall] {
        for first in [seg(Resp::Ret(1), Quant::Once), seg(Resp::Ret(1), Quant::N(2)), seg(Resp::AnsArc(2), Quant::Once), seg(Resp::RetDefault, Quant::Once)] {
            for second in [
                seg(Resp::Ret(3), Quant::Open),
                seg(Resp::RetDefault, Quant::Open),
                seg(Resp::AnsArc(4), Quant::Open),
                seg(Resp::Ret(3), Quant::N(2)),
                seg(Resp::Ret(3), Quant::Once),
            ] {
                for third in [None, Some(seg(Resp::Ret(5), Quant::Open))] {
                    if third.is_some() && second.quant == Quant::Open {
                        continue;
                    }
                    let mut segs = vec![first, second];
                    segs.extend(third);
                    cells.push(Config {
                        partial: false,
                        clauses: vec![ClauseSpec::Single {
                            m: M::A,
                            entry,
                            pat: PatSpec { mask: 7, segs },
                        }],
                    });
                }
            }
        }
    }
    let mut refused = 0;
    let mut built = 0;
    for config in &cells {
        let model = Model::build(config, has_mutex);
        let real = catch(|| {
            let u = build_mock(config);
            // never verified: only construction is observed
            let u = u.no_verify_in_drop();
            drop(u);
        });
        match (&model, &real) {
            (Ok(_), Ok(())) => built += 1,
            (Err(BuildError::NoMutex(_)), Err(msg)) if msg.contains("No Mutex API available") => refused += 1,
            _ => ctx.violation(
                "no-mutex-feature-set",
                &format!(
                    "configuration {}: the model says {:?}, construction gave {:?}",
                    config.to_json().to_string(),
                    model.as_ref().map(|_| "constructible"),
                    real
                ),
                J::obj().set("config", config.to_json()),
            ),
        }
    }
    // composite single-use returns: refused at construction, or delivered exactly as configured
    let mut composite_refused = 0;
    let mut composite_delivered = 0;
    let comp = composite::run();
    for (label, want, outcome) in &comp {
        let ok = match outcome {
            Err(msg) if !has_mutex && msg.contains("No Mutex API available") => {
                composite_refused += 1;
                true
            }
            Ok(Ok(got)) if got == want => {
                composite_delivered += 1;
                true
            }
            _ => false,
        };
        if !ok {
            ctx.violation(
                "no-mutex-feature-set",
                &format!("composite single-use return {label}: configured {want}; expected a refusal at construction{} or exactly that value from the call, observed {outcome:?}", if has_mutex { " (not in this feature set)" } else { "" }),
                J::obj().set("composite", label.as_str()),
            );
        }
    }
    if has_mutex == false && refused == 0 {
        vacuous("vacuous: nothing was refused in the no-mutex feature set");
    }
    let cov = J::obj()
        .set("evaluations", cells.len() + comp.len())
        .set("composite_cells", comp.len())
        .set("composite_refused_at_construction", composite_refused)
        .set("composite_delivered_as_configured", composite_delivered)
        .set("distinct_nontrivial", refused + built)
        .set("rule", "every entry form x quantifier x {returns, answers_arc} at every position of a 3-clause mock, in the feature set without mutex: single-use returns are refused by Unimock::new, everything else constructs")
        .set("samples", J::Arr(vec![cells[0].to_json()]))
        .set("refused_at_construction", refused)
        .set("constructed", built)
        .set("exhaustive", true);
    ctx.finish("exploration", cov, &[if has_mutex { "feature set: critical-section + spin-lock (no std)" } else { "feature set: critical-section only (no std, no spin-lock)" }]);
}

//! C04 – next_call patterns are consumed strictly in declaration order across methods.
//!
//! Engine S: every sequence of ordered clauses over two methods (predicates, counts 0..3, response
//! chains inside a slot range), an unordered clause inserted at every position; exploration of
//! every model-accepted prefix extended by every possible next call; a deviating call is checked
//! (panic class, named pattern) and not extended.

use vh::engine_s::*;
use vh::explore::*;
use vh::json::J;
use vh::lockstep::*;
use vh::obs::Verdict;
use vh::spec::*;
use vh::universe::*;

fn seg(resp: Resp, quant: Quant) -> Seg {
    Seg { resp, quant }
}

fn count_forms(id: u32, full: bool) -> Vec<(String, Vec<Seg>)> {
    let r = |k: u32| Resp::Ret(id + k);
    let mut v = vec![
        ("once".to_string(), vec![seg(r(0), Quant::Open)]),
        ("x0".to_string(), vec![seg(r(0), Quant::N(0))]),
        ("x2".to_string(), vec![seg(r(0), Quant::N(2))]),
        (
            "x1-then-open".to_string(),
            vec![seg(r(0), Quant::N(1)), seg(r(1), Quant::Open)],
        ),
        // a series whose *last* response is quantified with once()
        (
            "x2-then-once".to_string(),
            vec![seg(r(0), Quant::N(2)), seg(r(1), Quant::Once)],
        ),
    ];
    if full {
        v.push(("x1".to_string(), vec![seg(r(0), Quant::N(1))]));
        v.push(("x3".to_string(), vec![seg(r(0), Quant::N(3))]));
        v.push((
            "x2-then-open".to_string(),
            vec![seg(r(0), Quant::N(2)), seg(r(1), Quant::Open)],
        ));
        v.push((
            "once-then-x1".to_string(),
            vec![seg(Resp::AnsArc(id + 2), Quant::Once), seg(r(1), Quant::N(1))],
        ));
    }
    v
}

fn ordered_clauses(pos: usize, full: bool) -> Vec<(String, ClauseSpec)> {
    // 6 = the disjunctive form `(2) | (1)`: an ordered call may match a later alternative
    // 252 = a hand-written disjunctive matcher that reports the alternative it passed over
    let masks: &[u8] = &[7, 1, 6, MASK_REPORTING_ACCEPTING_MATCHER];
    let mut out = vec![];
    for m in [M::C, M::E] {
        for mask in masks {
            for (label, segs) in count_forms(100 * (pos as u32 + 1), full) {
                out.push((
                    format!("{}[{mask}]{label}", m.name()),
                    ClauseSpec::Single {
                        m,
                        entry: Entry::NextCall,
                        pat: PatSpec { mask: *mask, segs },
                    },
                ));
            }
        }
    }
    out
}

fn unordered_clause() -> ClauseSpec {
    ClauseSpec::Single {
        m: M::A,
        entry: Entry::EachCall,
        pat: PatSpec {
            mask: 7,
            segs: vec![seg(Resp::Ret(900), Quant::Open)],
        },
    }
}

/// With an exactly quantified unordered clause the slot arithmetic must still ignore it.
fn unordered_exact_clause() -> ClauseSpec {
    ClauseSpec::Single {
        m: M::A,
        entry: Entry::EachCall,
        pat: PatSpec {
            mask: 7,
            segs: vec![seg(Resp::Ret(901), Quant::N(2))],
        },
    }
}

fn c04_extra(_: &Case, _: &[Call], out: &RunOut) -> Result<(), (&'static str, String)> {
    // verification after the run: silent when every expectation is met, failing when an ordered
    // pattern was not consumed completely (line texts are C03's business)
    if out.model.unspecified || !out.model.errors.is_empty() {
        return Ok(());
    }
    let failures = out.model.expectation_failures();
    match (&out.verdict, failures.is_empty()) {
        (Some(Verdict::Silent), true) | (Some(Verdict::Failed(_)), false) | (None, _) => Ok(()),
        (Some(Verdict::Failed(lines)), true) => Err((
            "verdict",
            format!("every slot was consumed in order, yet verification failed: {lines:?}"),
        )),
        (Some(Verdict::Silent), false) => Err((
            "verdict",
            format!("expectations {failures:?} are unmet, yet verification was silent"),
        )),
    }
}

mod reenter {
    //! An argument whose `Debug` calls back into the mock: an *accepted* ordered call runs no user
    //! code besides its matcher, so the sequence is consumed by the calls the caller makes and by
    //! nothing else.
    use unimock::*;

    pub struct Reenter<'a>(pub &'a Unimock, pub u8);

    impl core::fmt::Debug for Reenter<'_> {
        fn fmt(&self, f: &mut core::fmt::Formatter<'_>) -> core::fmt::Result {
            let r = std::panic::catch_unwind(std::panic::AssertUnwindSafe(|| self.0.side()));
            write!(f, "Reenter({}, side = {:?})", self.1, r.ok())
        }
    }

    #[unimock(api = DMock)]
    pub trait D4 {
        fn step(&self, p: Reenter<'_>) -> u32;
        fn side(&self) -> u32;
    }

    /// The declared sequence: `steps` step-calls with one side-call at position `side_at`; it is
    /// made exactly as declared. Returns what the calls answered.
    pub fn run(steps: usize, side_at: usize) -> Result<Vec<u32>, String> {
        let mut c = unimock::verif::DynClause::new();
        let mut k = 0;
        for pos in 0..=steps {
            if pos == side_at {
                c.push(DMock::side.next_call(matching!()).returns(900u32));
            }
            if pos < steps {
                c.push(DMock::step.next_call(matching!(_)).returns(100 + k as u32));
                k += 1;
            }
        }
        let u = Unimock::new(c);
        let mut got = vec![];
        for pos in 0..=steps {
            if pos == side_at {
                got.push(vh::obs::catch(|| u.side())?);
            }
            if pos < steps {
                got.push(vh::obs::catch(|| u.step(Reenter(&u, pos as u8)))?);
            }
        }
        vh::obs::catch(move || drop(u))?;
        Ok(got)
    }
}

fn reentrant_debug_cells(ctx: &vh::explore::Ctx, stats: &mut Stats) {
    for steps in 1..=3usize {
        for side_at in 0..=steps {
            ctx.tick();
            stats.add("reentrant_debug_cells", 1);
            stats.add("traces_validated_against_impl", 1);
            stats.add("transitions", steps as u64 + 1);
            let mut want = vec![];
            let mut k = 0;
            for pos in 0..=steps {
                if pos == side_at {
                    want.push(900u32);
                }
                if pos < steps {
                    want.push(100 + k);
                    k += 1;
                }
            }
            // (an early return drops the mock with unmet expectations: that panic is part of the outcome)
            let got = vh::obs::catch(|| reenter::run(steps, side_at)).and_then(|r| r);
            if got.as_ref() != Ok(&want) {
                ctx.violation(
                    &format!("reentrant-debug/{steps}-steps/side-at-{side_at}"),
                    &format!("the declared sequence of {steps} step calls with a side call at position {side_at}, made exactly as declared with arguments whose Debug calls side(): expected the slot responses {want:?} and a silent verification, observed {got:?}"),
                    J::obj().set("reentrant_debug", format!("{steps}/{side_at}")),
                );
            }
        }
    }
}

fn main() {
    vh::obs::silence_panics();
    let ctx: &'static vh::explore::Ctx = Box::leak(Box::new(vh::explore::Ctx::from_args("C04")));
    let opts = RunOpts {
        has_mutex: !cfg!(feature = "nolock"),
        check_ranges: true,
        verify: Some(vh::obs::VerifyHow::Drop),
        ..RunOpts::default()
    };
    handle_replay(ctx, opts, &c04_extra);

    let quick = ctx.quick() || ctx.variant != "std";
    let alphabet = vec![
        Call::new(M::C, 0),
        Call::new(M::C, 1),
        Call::new(M::E, 0),
        Call::new(M::E, 1),
        Call::new(M::A, 0),
        // a method no clause mentions: the call is refused and must not disturb the sequence
        Call::new(M::B, 0),
    ];
    let mut seqs: Vec<(String, Vec<ClauseSpec>)> = vec![];
    // length 1 and 2: full alphabet; length 3: reduced alphabet (thorough only)
    for (l, c) in ordered_clauses(0, true) {
        seqs.push((l, vec![c]));
    }
    for (l0, c0) in ordered_clauses(0, !quick) {
        for (l1, c1) in ordered_clauses(1, !quick) {
            seqs.push((format!("{l0},{l1}"), vec![c0.clone(), c1.clone()]));
        }
    }
    if !quick {
        // (three clauses: without the hand-written matcher and the once()-tail form, which the one-
        // and two-clause sequences cover)
        let small = |pos: usize| -> Vec<(String, ClauseSpec)> {
            ordered_clauses(pos, false)
                .into_iter()
                .filter(|(l, _)| !l.contains("[252]") && !l.contains("then-once"))
                .collect()
        };
        for (l0, c0) in small(0) {
            for (l1, c1) in small(1) {
                for (l2, c2) in small(2) {
                    seqs.push((
                        format!("{l0},{l1},{l2}"),
                        vec![c0.clone(), c1.clone(), c2.clone()],
                    ));
                }
            }
        }
    }
    let mut cases = vec![];
    for (label, seq) in &seqs {
        // no unordered clause, then one inserted at every position (two flavours)
        let mut variants: Vec<(String, Vec<ClauseSpec>)> = vec![("-".into(), seq.clone())];
        for pos in 0..=seq.len() {
            for (flavour, u) in [("u", unordered_clause()), ("ux2", unordered_exact_clause())] {
                if flavour == "ux2" && quick && pos != 0 {
                    continue;
                }
                let mut v = seq.clone();
                v.insert(pos, u);
                variants.push((format!("{flavour}@{pos}"), v));
            }
        }
        for (vl, clauses) in variants {
            let depth = if quick { 5 } else if seq.len() == 3 { 5 } else { 6 };
            cases.push(Case {
                label: format!("{label}/{vl}"),
                config: Config {
                    partial: false,
                    clauses,
                },
                histories: HistGen::AcceptedPrefixes {
                    alphabet: alphabet.clone(),
                    max_depth: depth,
                },
            });
        }
    }
    // partial mocks: a deviating ordered call must panic as well, even when the method has a real
    // function to fall back to (fall-through is for methods *without* an applicable ordered slot
    // only in the unordered sense - C07)
    let real_alphabet = vec![
        Call::new(M::Unm, 0),
        Call::new(M::Unm, 1),
        Call::new(M::Both, 0),
        Call::new(M::A, 0),
    ];
    let real_clauses = |pos: usize| -> Vec<(String, ClauseSpec)> {
        let mut out = vec![];
        for m in [M::Unm, M::Both] {
            for mask in [7u8, 1] {
                for (label, segs) in count_forms(100 * (pos as u32 + 1), false) {
                    out.push((
                        format!("{}[{mask}]{label}", m.name()),
                        ClauseSpec::Single {
                            m,
                            entry: Entry::NextCall,
                            pat: PatSpec { mask, segs },
                        },
                    ));
                }
            }
        }
        out
    };
    for partial in [true, false] {
        for (l0, c0) in real_clauses(0) {
            cases.push(Case {
                label: format!("realfn/{}/{l0}", if partial { "partial" } else { "strict" }),
                config: Config {
                    partial,
                    clauses: vec![c0.clone()],
                },
                histories: HistGen::AcceptedPrefixes {
                    alphabet: real_alphabet.clone(),
                    max_depth: 4,
                },
            });
            for (l1, c1) in real_clauses(1) {
                if quick && !l1.contains("once") {
                    continue;
                }
                cases.push(Case {
                    label: format!("realfn/{}/{l0},{l1}", if partial { "partial" } else { "strict" }),
                    config: Config {
                        partial,
                        clauses: vec![c0.clone(), c1, unordered_clause()],
                    },
                    histories: HistGen::AcceptedPrefixes {
                        alphabet: real_alphabet.clone(),
                        max_depth: if quick { 4 } else { 5 },
                    },
                });
            }
        }
    }
    // every tuple arity: n ordered clauses composed as one real n-tuple (vh::spec::compose), methods
    // alternating in a fixed irregular pattern so that any two exchanged positions differ
    for total in 2..=16usize {
        let clauses: Vec<ClauseSpec> = (0..total)
            .map(|i| ClauseSpec::Single {
                m: if (i * i + i / 3) % 2 == 0 { M::C } else { M::E },
                entry: Entry::NextCall,
                pat: PatSpec {
                    mask: if i % 3 == 2 { 1 } else { 7 },
                    segs: vec![Seg {
                        resp: Resp::Ret(900 + i as u32),
                        quant: Quant::Open,
                    }],
                },
            })
            .collect();
        cases.push(Case {
            label: format!("tuple-arity/{total}"),
            config: Config { partial: false, clauses },
            histories: HistGen::AcceptedPrefixes {
                alphabet: vec![Call::new(M::C, 0), Call::new(M::E, 0), Call::new(M::C, 1)],
                max_depth: total + 1,
            },
        });
    }
    ctx.watchdog(120, || J::Str("no progress in the C04 explorer".into()));
    let mut stats = explore_cases(ctx, &cases, opts, &c04_extra);
    reentrant_debug_cells(ctx, &mut stats);
    guard(&stats, 5, true);
    if stats.get("deviating_calls_checked") == 0 {
        vacuous("vacuous: no deviating call was checked");
    }
    let cov = coverage(
        ctx,
        &stats,
        J::obj()
            .set("ordered_clauses_max", if quick { 2 } else { 3 })
            .set("methods", "O::c, O::e (ordered), A::a (unordered)")
            .set("predicates", "any, {0}, the disjunctive form (2) | (1), a hand-written disjunctive matcher that reports the alternative it passed over")
            .set("counts", "implicit once, n_times(0..3), chains inside a range (n_times(k).then()...)")
            .set("exploration", "every model-accepted prefix extended by every call of {c(0),c(1),e(0),e(1),a(0)}; deviating calls checked, not extended")
            .set("unordered_clause", "absent, or inserted at every position (open-ended and exactly quantified)"),
    );
    ctx.finish(
        "model_checking",
        cov,
        &[
            "reference model of DESIGN.md section 0.1 is the oracle",
            "behaviour after the first deviating call is not specified and not explored",
        ],
    );
}

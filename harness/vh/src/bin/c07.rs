//! C07 – calls without an applicable pattern fail loudly or fall through as documented.
//!
//! Engine S: the full decision table {strict, partial} x method cell {plain, def, unm, both} x
//! {unmentioned, mentioned unordered (matching only 0), mentioned ordered (matching only 0),
//! mentioned with explicit unmock / default-impl responses} x argument x position in a history.
//! Plus the partial-by-default method Termination::report.

#[cfg(feature = "std")]
use std::process::Termination;

use unimock::*;
use vh::engine_s::*;
use vh::explore::*;
use vh::json::J;
use vh::lockstep::*;
use vh::obs::*;
use vh::spec::*;
use vh::universe::*;

/// Exclusive receivers: `&mut self` and `Pin<&mut Self>` methods with / without a real function and
/// with a default body fall through exactly like `&self` methods.
#[unimock(api=XMock, unmock_with=[real_x_unm, real_x_pin, _, _])]
pub trait X7 {
    fn x_unm(&mut self, x: u8) -> u32;
    fn x_pin(self: core::pin::Pin<&mut Self>, x: u8) -> u32;
    fn x_plain(&mut self, x: u8) -> u32;
    fn x_def(&mut self, x: u8) -> u32 {
        6_000 + x as u32
    }
}

pub fn real_x_unm(_: &mut impl core::any::Any, x: u8) -> u32 {
    4_000 + x as u32
}

pub fn real_x_pin(_: core::pin::Pin<&mut impl core::any::Any>, x: u8) -> u32 {
    5_000 + x as u32
}

fn exclusive_receiver_cells(stats: &mut Stats, ctx: &vh::explore::Ctx) {
    use core::pin::Pin;
    let mut cell = |name: &str, got: Result<u32, String>, want: Result<u32, &str>| {
        stats.add("transitions", 1);
        stats.add("traces_validated_against_impl", 1);
        let ok = match (&got, &want) {
            (Ok(g), Ok(w)) => g == w,
            (Err(msg), Err(needle)) => msg.contains(needle),
            _ => false,
        };
        if !ok {
            ctx.violation(
                &format!("exclusive-receiver/{name}"),
                &format!("{name}: expected {want:?}, observed {got:?}"),
                J::obj().set("cell", name),
            );
        }
    };
    let quiet = |u: Unimock| u.no_verify_in_drop();
    cell("partial/unmentioned/x_unm", catch(|| quiet(Unimock::new_partial(())).x_unm(1)), Ok(4_001));
    cell("partial/unmentioned/x_pin", catch(|| Pin::new(&mut quiet(Unimock::new_partial(()))).x_pin(1)), Ok(5_001));
    cell("partial/unmentioned/x_def (default body)", catch(|| quiet(Unimock::new_partial(())).x_def(1)), Ok(6_001));
    cell("strict/unmentioned/x_def (default body)", catch(|| quiet(Unimock::new(())).x_def(2)), Ok(6_002));
    cell(
        "partial/unmentioned/x_plain (no real function)",
        catch(|| quiet(Unimock::new_partial(())).x_plain(1)),
        Err("X7::x_plain cannot be unmocked as there is no function available to call"),
    );
    cell(
        "strict/unmentioned/x_unm",
        catch(|| quiet(Unimock::new(())).x_unm(1)),
        Err("X7::x_unm(1): No mock implementation found"),
    );
    cell(
        "partial/unmatched/x_unm (real function)",
        catch(|| quiet(Unimock::new_partial(XMock::x_unm.each_call(matching!(0)).returns(1u32))).x_unm(2)),
        Ok(4_002),
    );
    cell(
        "partial/unmatched/x_pin (real function)",
        catch(|| Pin::new(&mut quiet(Unimock::new_partial(XMock::x_pin.each_call(matching!(0)).returns(1u32)))).x_pin(2)),
        Ok(5_002),
    );
    cell(
        "strict/unmatched/x_unm",
        catch(|| quiet(Unimock::new(XMock::x_unm.each_call(matching!(0)).returns(1u32))).x_unm(2)),
        Err("X7::x_unm(2): No matching call patterns"),
    );
    cell(
        "strict/unmatched/x_def (mentioned: no fall-through to the default body)",
        catch(|| quiet(Unimock::new(XMock::x_def.each_call(matching!(0)).returns(1u32))).x_def(2)),
        Err("X7::x_def(2): No matching call patterns"),
    );
    cell(
        "strict/matched/x_unm",
        catch(|| quiet(Unimock::new(XMock::x_unm.each_call(matching!(0)).returns(1u32))).x_unm(0)),
        Ok(1),
    );
}

fn seg(resp: Resp, quant: Quant) -> Seg {
    Seg { resp, quant }
}

fn situations(t: M) -> Vec<(String, Vec<ClauseSpec>)> {
    let single = |entry: Entry, mask: u8, segs: Vec<Seg>| ClauseSpec::Single {
        m: t,
        entry,
        pat: PatSpec { mask, segs },
    };
    vec![
        ("unmentioned".into(), vec![]),
        (
            "unordered-only0".into(),
            vec![single(Entry::EachCall, 1, vec![seg(Resp::Ret(100), Quant::Open)])],
        ),
        (
            "unordered-two".into(),
            vec![
                single(Entry::EachCall, 1, vec![seg(Resp::Ret(100), Quant::Open)]),
                single(Entry::EachCall, 4, vec![seg(Resp::Ret(101), Quant::Open)]),
            ],
        ),
        (
            "stub-only0".into(),
            vec![ClauseSpec::Stub {
                m: t,
                pats: vec![PatSpec {
                    mask: 1,
                    segs: vec![seg(Resp::AnsArc(102), Quant::Open)],
                }],
            }],
        ),
        (
            "ordered-only0".into(),
            vec![single(Entry::NextCall, 1, vec![seg(Resp::Ret(103), Quant::N(2))])],
        ),
        (
            "explicit-unmock-on0".into(),
            vec![single(Entry::EachCall, 1, vec![seg(Resp::Unmock, Quant::Open)])],
        ),
        (
            "explicit-default-on0".into(),
            vec![single(Entry::EachCall, 1, vec![seg(Resp::DefaultImpl, Quant::Open)])],
        ),
        // a pattern that accepts but has no response at all: a loud failure, never a fall-through
        (
            "stub-accepting0-without-response".into(),
            vec![ClauseSpec::Stub {
                m: t,
                pats: vec![
                    PatSpec { mask: 1, segs: vec![] },
                    PatSpec {
                        mask: 4,
                        segs: vec![seg(Resp::Ret(104), Quant::Open)],
                    },
                ],
            }],
        ),
        // an exactly quantified unordered pattern stays *the* pattern of its calls when its count
        // is used up: one call more is an over-call of that pattern (counted), not an unmatched call
        (
            "unordered-exact1-on0".into(),
            vec![single(Entry::EachCall, 1, vec![seg(Resp::Ret(105), Quant::N(1))])],
        ),
    ]
}

#[cfg(not(feature = "std"))]
fn termination_cells(_: &mut Stats, _: &vh::explore::Ctx) {}

#[cfg(feature = "std")]
fn termination_cells(stats: &mut Stats, ctx: &vh::explore::Ctx) {
    use unimock::mock::std::process::TerminationMock;
    // unmentioned: partial by default -> the real report() runs (strict and partial alike)
    for partial in [false, true] {
        let cell = format!("report/unmentioned/{}", if partial { "partial" } else { "strict" });
        let r = catch(|| {
            let u = if partial { Unimock::new_partial(()) } else { Unimock::new(()) };
            u.report()
        });
        stats.add("transitions", 1);
        stats.add("traces_validated_against_impl", 1);
        stats.note("outcome_classes", "real(report)");
        match r {
            Ok(code) if format!("{code:?}") == format!("{:?}", std::process::ExitCode::SUCCESS) => {}
            other => ctx.violation(
                &cell,
                &format!("expected the real report() to run and return SUCCESS, observed {other:?}"),
                J::obj().set("cell", cell.as_str()),
            ),
        }
        // mentioned and matched: the mocked value is returned
        let cell = format!("report/mocked/{}", if partial { "partial" } else { "strict" });
        let r = catch(|| {
            let clause = TerminationMock::report
                .next_call(matching!())
                .returns(std::process::ExitCode::from(42));
            let u = if partial { Unimock::new_partial(clause) } else { Unimock::new(clause) };
            u.report()
        });
        stats.add("transitions", 1);
        stats.add("traces_validated_against_impl", 1);
        stats.note("outcome_classes", "value(report)");
        match r {
            Ok(code) if format!("{code:?}") == format!("{:?}", std::process::ExitCode::from(42)) => {}
            other => ctx.violation(
                &cell,
                &format!("expected the mocked exit code 42, observed {other:?}"),
                J::obj().set("cell", cell.as_str()),
            ),
        }
        // real report() with an unmet expectation elsewhere -> FAILURE (not a fabricated SUCCESS)
        let cell = format!("report/unmentioned-unmet/{}", if partial { "partial" } else { "strict" });
        let r = catch(|| {
            let clause = AMock::a.each_call(matching!(_)).returns(1u32).n_times(1);
            let u = if partial { Unimock::new_partial(clause) } else { Unimock::new(clause) };
            u.report()
        });
        stats.add("transitions", 1);
        stats.add("traces_validated_against_impl", 1);
        match r {
            Ok(code) if format!("{code:?}") == format!("{:?}", std::process::ExitCode::FAILURE) => {}
            other => ctx.violation(
                &cell,
                &format!("expected the real report() to return FAILURE, observed {other:?}"),
                J::obj().set("cell", cell.as_str()),
            ),
        }
    }
}

fn main() {
    vh::obs::silence_panics();
    let ctx: &'static vh::explore::Ctx = Box::leak(Box::new(vh::explore::Ctx::from_args("C07")));
    let opts = RunOpts {
        has_mutex: !cfg!(feature = "nolock"),
        ..RunOpts::default()
    };
    handle_replay(ctx, opts, &no_extra);

    let depth = if ctx.quick() { 3 } else { 8 };
    let mut cases = vec![];
    for partial in [false, true] {
        for t in [M::Plain, M::Def, M::Unm, M::Both] {
            for (sit, clauses) in situations(t) {
                for with_other in [false, true] {
                    let mut clauses = clauses.clone();
                    if with_other {
                        clauses.insert(
                            0,
                            ClauseSpec::Single {
                                m: M::A,
                                entry: Entry::EachCall,
                                pat: PatSpec {
                                    mask: 7,
                                    segs: vec![seg(Resp::Ret(900), Quant::Open)],
                                },
                            },
                        );
                    }
                    cases.push(Case {
                        label: format!(
                            "{}/{}/{sit}/{}",
                            if partial { "partial" } else { "strict" },
                            t.name(),
                            if with_other { "other" } else { "alone" }
                        ),
                        config: Config { partial, clauses },
                        histories: HistGen::All {
                            alphabet: vec![
                                Call::new(t, 0),
                                Call::new(t, 1),
                                Call::new(t, 2),
                                Call::new(M::A, 0),
                            ],
                            depth,
                        },
                    });
                }
            }
        }
    }
    let mut stats = explore_cases(ctx, &cases, opts, &no_extra);
    if ctx.variant == "std" {
        termination_cells(&mut stats, ctx);
    }
    exclusive_receiver_cells(&mut stats, ctx);
    // the mock never fabricates a return value: an exhausted single-use response of a composite
    // type is refused, not replaced by an empty variant
    if ctx.variant == "std" {
        vh::composite::cells(ctx, &mut stats);
    }
    guard(&stats, 8, true);
    let cov = coverage(
        ctx,
        &stats,
        J::obj()
            .set("modes", "strict, partial")
            .set("method_cells", "plain, def (default body), unm (real fn), both; Termination::report (partial by default)")
            .set("situations", "unmentioned, unordered matching only 0 (one / two patterns / stub), ordered matching only 0, explicit applies_unmocked, explicit applies_default_impl")
            .set("history_depth", depth)
            .set("arguments", "0,1,2 at every position, mixed with calls to another method"),
    );
    ctx.finish(
        "model_checking",
        cov,
        &[
            "reference model of DESIGN.md section 0.1 is the oracle (default body > real function > panic)",
            "all cells use &self receivers (other receiver kinds: C05, C16)",
        ],
    );
}

//! C09 – only the original instance verifies: once, on its thread, with no clones alive.
//!
//! Explicit-state search (BFS) over lifecycle event sequences. A state is reached by re-executing
//! its event history on fresh real objects (live mocks cannot be copied); states are merged on the
//! lifecycle model's state, which the H3 `instance()` snapshot is checked to equal after every
//! event (so merging is on the complete implementation state relevant to the lifecycle).

use std::collections::{BTreeMap, BTreeSet, VecDeque};
use std::process::Termination;

use unimock::*;
use vh::explore::*;
use vh::json::J;
use vh::obs::*;
use vh::universe::*;

const SLOTS: usize = 4;

#[derive(Clone, Copy, Debug, PartialEq, Eq, PartialOrd, Ord, Hash)]
enum Ev {
    Clone(u8),
    Drop(u8),
    Call(u8),
    BadCall(u8),
    Provided(u8),
    ProvidedByValue(u8),
    MakeRefClone(u8),
    Verify(u8),
    Report,
    /// report() on a clone: consumes it, verifies nothing
    ReportClone(u8),
    NoVerifyInDrop(u8),
    ThreadDrop,
    ThreadVerify,
}

#[derive(Clone, Copy, Debug, PartialEq, Eq, PartialOrd, Ord, Hash)]
struct Inst {
    original: bool,
    verify_in_drop: bool,
    helper: bool,
    chain: u8,
}

#[derive(Clone, Debug, PartialEq, Eq, PartialOrd, Ord, Hash)]
struct LState {
    inst: [Option<Inst>; SLOTS],
    calls: u8,
    errors: u8,
}

#[derive(Clone, Debug, PartialEq, Eq, PartialOrd, Ord, Hash)]
enum Outcome {
    Silent,
    Value(u32),
    /// teardown refused: clones alive
    CannotVerify,
    /// teardown refused: foreign thread
    WrongThread,
    /// prediction only: clones alive *and* foreign thread - either refusal satisfies the property
    EitherRefusal,
    CloneVerify,
    CloneNoVerify,
    /// verification failed with the recorded errors
    FailedErrors(u8),
    /// verification failed with expectation lines; payload = number of matched calls
    FailedExpect(u8),
    /// a mock-induced call panic (BadCall)
    CallPanic,
    ExitSuccess,
    ExitFailure,
    Other(String),
}

impl LState {
    fn initial() -> LState {
        let mut inst = [None; SLOTS];
        inst[0] = Some(Inst {
            original: true,
            verify_in_drop: true,
            helper: false,
            chain: 0,
        });
        LState {
            inst,
            calls: 0,
            errors: 0,
        }
    }

    fn strong(&self) -> usize {
        self.inst
            .iter()
            .flatten()
            .map(|i| 1 + i.helper as usize + i.chain as usize)
            .sum()
    }

    fn enabled(&self) -> Vec<Ev> {
        let mut out = vec![];
        let free = self.inst.iter().any(|i| i.is_none());
        for (k, i) in self.inst.iter().enumerate() {
            let Some(i) = i else { continue };
            let k = k as u8;
            if free {
                out.push(Ev::Clone(k));
            }
            out.push(Ev::Drop(k));
            if self.calls < 3 {
                out.push(Ev::Call(k));
            }
            if self.errors < 2 {
                out.push(Ev::BadCall(k));
            }
            if !i.helper {
                out.push(Ev::Provided(k));
            }
            out.push(Ev::ProvidedByValue(k));
            if i.chain < 2 {
                out.push(Ev::MakeRefClone(k));
            }
            out.push(Ev::Verify(k));
            out.push(Ev::NoVerifyInDrop(k));
            if !i.original {
                out.push(Ev::ReportClone(k));
            }
            if i.original {
                out.push(Ev::Report);
                out.push(Ev::ThreadDrop);
                out.push(Ev::ThreadVerify);
            }
        }
        out
    }

    /// The verdict of a teardown of the original that actually verifies.
    fn teardown(&self, orig: Inst, foreign_thread: bool) -> Outcome {
        let live = self.strong() - orig.helper as usize - orig.chain as usize;
        if live > 1 {
            return if foreign_thread { Outcome::EitherRefusal } else { Outcome::CannotVerify };
        }
        if foreign_thread {
            return Outcome::WrongThread;
        }
        if self.errors > 0 {
            return Outcome::FailedErrors(self.errors);
        }
        if self.calls != 1 {
            return Outcome::FailedExpect(self.calls);
        }
        Outcome::Silent
    }

    /// Apply an event: predicted outcome; the state is advanced.
    fn step(&mut self, ev: Ev) -> Outcome {
        match ev {
            Ev::Clone(k) => {
                let src = self.inst[k as usize].unwrap();
                let slot = self.inst.iter().position(|i| i.is_none()).unwrap();
                self.inst[slot] = Some(Inst {
                    original: false,
                    verify_in_drop: src.verify_in_drop,
                    helper: false,
                    chain: 0,
                });
                Outcome::Silent
            }
            Ev::Drop(k) => {
                let i = self.inst[k as usize].unwrap();
                let out = if i.original && i.verify_in_drop {
                    self.teardown(i, false)
                } else {
                    Outcome::Silent
                };
                self.inst[k as usize] = None;
                out
            }
            Ev::Call(_) => {
                self.calls += 1;
                Outcome::Value(1)
            }
            Ev::BadCall(_) => {
                self.errors += 1;
                Outcome::CallPanic
            }
            Ev::Provided(k) => {
                self.inst[k as usize].as_mut().unwrap().helper = true;
                Outcome::Value(7)
            }
            Ev::ProvidedByValue(k) => {
                // the instance is consumed; when the default body ends it is dropped like any
                // other drop of that instance (the original verifies there)
                let i = self.inst[k as usize].unwrap();
                let out = if i.original && i.verify_in_drop {
                    match self.teardown(i, false) {
                        Outcome::Silent => Outcome::Value(8),
                        other => other,
                    }
                } else {
                    Outcome::Value(8)
                };
                self.inst[k as usize] = None;
                out
            }
            Ev::MakeRefClone(k) => {
                self.inst[k as usize].as_mut().unwrap().chain += 1;
                Outcome::Silent
            }
            Ev::Verify(k) => {
                let i = self.inst[k as usize].unwrap();
                let out = if i.original {
                    self.teardown(i, false)
                } else {
                    Outcome::CloneVerify
                };
                self.inst[k as usize] = None;
                out
            }
            Ev::Report => {
                let i = self.inst[0].unwrap();
                let out = match self.teardown(i, false) {
                    Outcome::Silent => Outcome::ExitSuccess,
                    Outcome::FailedErrors(_) | Outcome::FailedExpect(_) => Outcome::ExitFailure,
                    other => other,
                };
                self.inst[0] = None;
                out
            }
            Ev::ReportClone(k) => {
                // only the original verifies: a clone's report() judges nothing
                self.inst[k as usize] = None;
                Outcome::ExitSuccess
            }
            Ev::NoVerifyInDrop(k) => {
                let i = self.inst[k as usize].as_mut().unwrap();
                if i.original {
                    i.verify_in_drop = false;
                    Outcome::Silent
                } else {
                    self.inst[k as usize] = None;
                    Outcome::CloneNoVerify
                }
            }
            Ev::ThreadDrop => {
                let i = self.inst[0].unwrap();
                let out = if i.verify_in_drop {
                    self.teardown(i, true)
                } else {
                    Outcome::Silent
                };
                self.inst[0] = None;
                out
            }
            Ev::ThreadVerify => {
                let i = self.inst[0].unwrap();
                let out = self.teardown(i, true);
                self.inst[0] = None;
                out
            }
        }
    }
}

fn classify_panic(msg: &str) -> Outcome {
    if msg.contains("cannot verify calls, because the original instance got dropped while there are clones still alive") {
        Outcome::CannotVerify
    } else if msg.contains("destroyed on a different thread") {
        Outcome::WrongThread
    } else if msg.contains("Called verify() on a cloned instance") {
        Outcome::CloneVerify
    } else if msg.contains("Called no_verify_on_drop() on a cloned instance") {
        Outcome::CloneNoVerify
    } else if msg.contains("Expected ") || msg.contains("was never called") {
        // expectation lines: recover the matched count from the text
        let lines: Vec<&str> = msg.lines().collect();
        let exact = lines.iter().find(|l| l.contains("to match exactly 1 call, but it actually matched"));
        match exact {
            Some(l) if l.contains("matched no calls") && lines.len() == 2
                && lines.iter().any(|l| l.contains("Mock for A::a was never called")) => Outcome::FailedExpect(0),
            Some(l) if l.contains("matched 2 calls") && lines.len() == 1 => Outcome::FailedExpect(2),
            Some(l) if l.contains("matched 3 calls") && lines.len() == 1 => Outcome::FailedExpect(3),
            _ => Outcome::Other(msg.to_string()),
        }
    } else if msg.contains("No mock implementation found") {
        let n = msg.matches("No mock implementation found").count() as u8;
        Outcome::FailedErrors(n)
    } else {
        Outcome::Other(msg.to_string())
    }
}

fn exit_outcome(code: std::process::ExitCode) -> Outcome {
    let s = format!("{code:?}");
    if s == format!("{:?}", std::process::ExitCode::SUCCESS) {
        Outcome::ExitSuccess
    } else if s == format!("{:?}", std::process::ExitCode::FAILURE) {
        Outcome::ExitFailure
    } else {
        Outcome::Other(s)
    }
}

fn new_original() -> Unimock {
    Unimock::new(AMock::a.each_call(matching!(_)).returns(1u32).n_times(1))
}

/// Execute one event on the real objects.
fn apply(slots: &mut [Option<Unimock>; SLOTS], ev: Ev) -> Outcome {
    let lift = |r: Result<Outcome, String>| match r {
        Ok(o) => o,
        Err(msg) => classify_panic(&msg),
    };
    match ev {
        Ev::Clone(k) => {
            let c = slots[k as usize].as_ref().unwrap().clone();
            let slot = slots.iter().position(|s| s.is_none()).unwrap();
            slots[slot] = Some(c);
            Outcome::Silent
        }
        Ev::Drop(k) => {
            let u = slots[k as usize].take().unwrap();
            lift(catch(move || {
                drop(u);
                Outcome::Silent
            }))
        }
        Ev::Call(k) => {
            let u = slots[k as usize].as_ref().unwrap();
            lift(catch(|| Outcome::Value(<Unimock as A>::a(u, 0))))
        }
        Ev::BadCall(k) => {
            let u = slots[k as usize].as_ref().unwrap();
            match catch(|| <Unimock as A>::b(u, 0)) {
                Ok(v) => Outcome::Value(v),
                Err(msg) if msg.contains("No mock implementation found") => Outcome::CallPanic,
                Err(msg) => Outcome::Other(msg),
            }
        }
        Ev::Provided(k) => {
            let u = slots[k as usize].as_ref().unwrap();
            lift(catch(|| Outcome::Value(<Unimock as P>::prov(u))))
        }
        Ev::ProvidedByValue(k) => {
            let u = slots[k as usize].take().unwrap();
            lift(catch(move || Outcome::Value(<Unimock as P>::consume(u))))
        }
        Ev::MakeRefClone(k) => {
            let u = slots[k as usize].as_ref().unwrap();
            lift(catch(|| {
                let _lent: &Unimock = u.make_ref(u.clone());
                Outcome::Silent
            }))
        }
        Ev::Verify(k) => {
            let u = slots[k as usize].take().unwrap();
            lift(catch(move || {
                u.verify();
                Outcome::Silent
            }))
        }
        Ev::Report => {
            let u = slots[0].take().unwrap();
            lift(catch(move || exit_outcome(u.report())))
        }
        Ev::ReportClone(k) => {
            let u = slots[k as usize].take().unwrap();
            lift(catch(move || exit_outcome(u.report())))
        }
        Ev::NoVerifyInDrop(k) => {
            let u = slots[k as usize].take().unwrap();
            match catch(move || u.no_verify_in_drop()) {
                Ok(u) => {
                    slots[k as usize] = Some(u);
                    Outcome::Silent
                }
                Err(msg) => classify_panic(&msg),
            }
        }
        Ev::ThreadDrop | Ev::ThreadVerify => {
            let u = slots[0].take().unwrap();
            let verify = ev == Ev::ThreadVerify;
            let r = std::thread::spawn(move || {
                catch(move || {
                    if verify {
                        u.verify();
                    } else {
                        drop(u);
                    }
                })
            })
            .join()
            .unwrap_or_else(|p| Err(payload_to_string(p)));
            match r {
                Ok(()) => Outcome::Silent,
                Err(msg) => classify_panic(&msg),
            }
        }
    }
}

/// Compare the H3 snapshots of all live instances with the model state.
fn conforms(slots: &[Option<Unimock>; SLOTS], st: &LState) -> Result<(), String> {
    for k in 0..SLOTS {
        match (&slots[k], &st.inst[k]) {
            (None, None) => {}
            (Some(u), Some(i)) => {
                let s = unimock::verif::instance(u);
                let want = unimock::verif::InstanceSnap {
                    original_instance: i.original,
                    torn_down: false,
                    verify_in_drop: i.verify_in_drop,
                    strong_count: st.strong(),
                    has_delegator: i.helper,
                    value_chain_len: i.chain as usize,
                };
                if s != want {
                    return Err(format!("instance {k}: snapshot {s:?}, model {want:?}"));
                }
            }
            (a, b) => {
                return Err(format!(
                    "instance {k}: real alive={}, model alive={}",
                    a.is_some(),
                    b.is_some()
                ))
            }
        }
    }
    Ok(())
}

struct RunResult {
    state: LState,
    failure: Option<(usize, String)>,
    outcomes: Vec<Outcome>,
}

/// Re-execute a history from scratch on fresh real objects in lock-step with the model.
fn run(history: &[Ev]) -> RunResult {
    let mut slots: [Option<Unimock>; SLOTS] = [Some(new_original()), None, None, None];
    let mut st = LState::initial();
    let mut failure = None;
    let mut outcomes = vec![];
    for (i, ev) in history.iter().enumerate() {
        let want = st.step(*ev);
        let got = apply(&mut slots, *ev);
        outcomes.push(got.clone());
        let agree = got == want || (want == Outcome::EitherRefusal && matches!(got, Outcome::CannotVerify | Outcome::WrongThread));
        if !agree {
            failure = Some((i, format!("event {ev:?}: expected {want:?}, observed {got:?}")));
            break;
        }
        if let Err(what) = conforms(&slots, &st) {
            failure = Some((i, format!("after event {ev:?}: {what}")));
            break;
        }
    }
    // clean up quietly: clones first, the original last, everything caught
    for k in (0..SLOTS).rev() {
        if let Some(u) = slots[k].take() {
            let _ = catch(move || drop(u));
        }
    }
    RunResult {
        state: st,
        failure,
        outcomes,
    }
}

fn ev_json(h: &[Ev]) -> J {
    J::Arr(h.iter().map(|e| J::from(format!("{e:?}"))).collect())
}

fn parse_ev(s: &str) -> Option<Ev> {
    let arg = |s: &str| -> Option<u8> { s.split_once('(')?.1.trim_end_matches(')').parse().ok() };
    Some(match s.split('(').next()? {
        "Clone" => Ev::Clone(arg(s)?),
        "Drop" => Ev::Drop(arg(s)?),
        "Call" => Ev::Call(arg(s)?),
        "BadCall" => Ev::BadCall(arg(s)?),
        "Provided" => Ev::Provided(arg(s)?),
        "ProvidedByValue" => Ev::ProvidedByValue(arg(s)?),
        "MakeRefClone" => Ev::MakeRefClone(arg(s)?),
        "Verify" => Ev::Verify(arg(s)?),
        "Report" => Ev::Report,
        "ReportClone" => Ev::ReportClone(arg(s)?),
        "NoVerifyInDrop" => Ev::NoVerifyInDrop(arg(s)?),
        "ThreadDrop" => Ev::ThreadDrop,
        "ThreadVerify" => Ev::ThreadVerify,
        _ => return None,
    })
}

fn main() {
    silence_panics();
    let ctx: &'static vh::explore::Ctx = Box::leak(Box::new(vh::explore::Ctx::from_args("C09")));
    if let Some(replay) = &ctx.replay {
        let case = replay.get("case").unwrap_or(replay);
        let history: Vec<Ev> = case
            .get("events")
            .and_then(|e| e.as_arr())
            .map(|a| a.iter().filter_map(|x| x.as_str()).filter_map(parse_ev).collect())
            .unwrap_or_else(|| machinery("replay file has no events"));
        let r = run(&history);
        println!("events {history:?}\nobserved {:?}", r.outcomes);
        match r.failure {
            None => {
                println!("replay: conforms to the lifecycle model");
                std::process::exit(0);
            }
            Some((i, what)) => {
                ctx.violation("replay", &format!("step {i}: {what}"), case.clone());
                std::process::exit(1);
            }
        }
    }

    let depth = if ctx.quick() { 6 } else { 40 };
    ctx.watchdog(120, || J::Str("no progress in the C09 explorer".into()));

    // BFS over model states; one representative history per state; level-synchronous so that the
    // first counterexample is a shortest one. Each level is expanded in parallel.
    // clone slots are interchangeable (every event is symmetric in which clone it addresses), so
    // states are merged up to a permutation of the clone slots 1..3
    fn canon(st: &LState) -> LState {
        let mut c = st.clone();
        c.inst[1..].sort();
        c
    }
    let mut seen: BTreeSet<LState> = BTreeSet::new();
    seen.insert(canon(&LState::initial()));
    let mut frontier: Vec<(LState, Vec<Ev>)> = vec![(LState::initial(), vec![])];
    let mut transitions = 0u64;
    let mut traces = 0u64;
    let mut outcome_classes: BTreeSet<String> = BTreeSet::new();
    let mut outcome_count: BTreeMap<String, u64> = BTreeMap::new();
    let mut sample: Option<J> = None;
    let mut levels = vec![];
    let mut probes = 0u64;
    let probe_levels = if ctx.quick() { 6 } else { 9 };
    let probe2_levels = if ctx.quick() { 4 } else { 6 };
    for level in 0..depth {
        if ctx.stopped() || frontier.is_empty() {
            break;
        }
        let work: Vec<(Vec<Ev>, Ev)> = frontier
            .iter()
            .flat_map(|(st, h)| st.enabled().into_iter().map(move |ev| (h.clone(), ev)))
            .collect();
        let results = par_map(&work, |_, (h, ev)| {
            ctx.tick();
            let mut hist = h.clone();
            hist.push(*ev);
            let r = run(&hist);
            (hist, r)
        });
        let mut next = vec![];
        let mut merged: Vec<(LState, Vec<Ev>)> = vec![];
        for (hist, r) in results {
            transitions += hist.len() as u64;
            traces += 1;
            if let Some(last) = r.outcomes.last() {
                let class = format!("{last:?}");
                let class = class.split('(').next().unwrap().to_string();
                *outcome_count.entry(class.clone()).or_insert(0) += 1;
                outcome_classes.insert(class);
            }
            match r.failure {
                Some((i, what)) => {
                    let last = hist.last().map(|e| format!("{e:?}")).unwrap_or_default();
                    let kind = last.split('(').next().unwrap_or("").to_string();
                    ctx.violation(
                        &format!("lifecycle:{kind}"),
                        &format!("history {hist:?}, step {i}: {what}"),
                        J::obj().set("events", ev_json(&hist)),
                    );
                }
                None => {
                    if sample.is_none() && hist.len() >= 3 {
                        sample = Some(
                            J::obj()
                                .set("events", ev_json(&hist))
                                .set("observed", J::Arr(r.outcomes.iter().map(|o| J::from(format!("{o:?}"))).collect())),
                        );
                    }
                    if seen.insert(canon(&r.state)) {
                        next.push((r.state, hist));
                    } else {
                        merged.push((r.state, hist));
                    }
                }
            }
        }
        // Differential probes: a history that ends in an already known model state is not expanded
        // further, but every single next event is still executed from *this* history, so that
        // implementation state the model (and the H3 snapshot) does not see - had it been left
        // behind by this particular history - shows up as a disagreement one step later.
        if level < probe_levels {
            // one more event from every merged history; two more from the short ones
            let mut probe_work: Vec<Vec<Ev>> = vec![];
            for (st, h) in &merged {
                for ev in st.enabled() {
                    let mut h1 = h.clone();
                    h1.push(ev);
                    if level < probe2_levels {
                        let mut st1 = st.clone();
                        let _ = st1.step(ev);
                        for ev2 in st1.enabled() {
                            let mut h2 = h1.clone();
                            h2.push(ev2);
                            probe_work.push(h2);
                        }
                    }
                    probe_work.push(h1);
                }
            }
            let probe_results = par_map(&probe_work, |_, hist| {
                ctx.tick();
                let r = run(hist);
                (hist.clone(), r.failure)
            });
            for (hist, failure) in probe_results {
                probes += 1;
                transitions += hist.len() as u64;
                traces += 1;
                if let Some((i, what)) = failure {
                    let last = hist.last().map(|e| format!("{e:?}")).unwrap_or_default();
                    let kind = last.split('(').next().unwrap_or("").to_string();
                    ctx.violation(
                        &format!("lifecycle:{kind}"),
                        &format!("history {hist:?} (its prefix reaches a model state first reached by another history), step {i}: {what}"),
                        J::obj().set("events", ev_json(&hist)),
                    );
                }
            }
        }
        levels.push(J::obj().set("depth", level + 1).set("new_states", next.len()).set("transitions", work.len()));
        frontier = next;
    }
    if outcome_classes.len() < 8 {
        vacuous(&format!("vacuous exploration: outcome classes {outcome_classes:?}"));
    }
    // the creating thread has *exited* before the original is finished elsewhere: whatever stood for
    // the identity of that thread (a stack address, a slot of thread-local storage) may have been
    // handed to the new thread - it is a different thread all the same
    let mut exited_creator_cells = 0;
    for how in 0..3usize {
        for round in 0..6usize {
            let u = std::thread::spawn(|| Unimock::new(AMock::a.each_call(matching!(_)).returns(1u32)))
                .join()
                .unwrap_or_else(|_| machinery("harness: construction on a helper thread failed"));
            let got = std::thread::spawn(move || {
                let _ = <Unimock as A>::a(&u, 0);
                catch(move || match how {
                    0 => drop(u),
                    1 => u.verify(),
                    _ => {
                        let _ = std::process::Termination::report(u);
                    }
                })
            })
            .join()
            .unwrap_or_else(|_| machinery("harness: the finishing thread died"));
            exited_creator_cells += 1;
            traces += 1;
            let ok = matches!(&got, Err(msg) if msg.contains("destroyed on a different thread"));
            if !ok {
                ctx.violation(
                    "exited-creator-thread",
                    &format!(
                        "the original was created on a thread that has exited and finished by {} on another thread (round {round}): expected the refusal about a different thread, observed {got:?}",
                        ["drop", "verify()", "report()"][how]
                    ),
                    J::obj().set("exited_creator", how),
                );
                break;
            }
        }
    }
    let mut cov = J::obj()
        .set("states", seen.len())
        .set("transitions", transitions)
        .set("traces_validated_against_impl", traces)
        .set("exhaustive", !ctx.stopped())
        .set("depth", depth)
        .set("differential_probes", probes)
        .set("exited_creator_thread_cells", exited_creator_cells)
        .set("differential_probe_rule", format!("every history of length <= {probe_levels} that ends in an already known model state is extended by every single enabled event, those of length <= {probe2_levels} also by every pair of events"))
        .set("levels", J::Arr(levels))
        .set("frontier_states_left_unexpanded_at_bound", frontier.len())
        .set("samples", J::Arr(sample.into_iter().collect()))
        .set(
            "event_alphabet",
            "clone(i), drop(i), call(i), failing call(i), provided-method call(i) (internal helper clone), by-value provided-method call(i), make_ref(i, clone of i), verify(i), report(), no_verify_in_drop(i), move original to a thread and drop / verify it; <= 4 instances",
        );
    let mut oc = J::obj();
    for (k, v) in &outcome_count {
        oc.put(k, *v);
    }
    cov.put("outcomes_of_last_event", oc);
    ctx.finish(
        "model_checking",
        cov,
        &[
            "states are merged on the lifecycle model's state; the H3 instance() snapshot of every live instance is checked to equal it after every event, so merged states have the same *visible* implementation state; state the snapshot does not show is covered by the differential probes (one more event from every merged history up to the probe depth)",
            "transitions counts real events executed (histories are re-executed from scratch)",
            "report() on a clone is not in the alphabet (unspecified); std build only",
        ],
    );
}

//! The fixed universe of mocked traits driven by the runtime engines.
//!
//! Argument domain {0,1,2} (u8), results u32. Every method has the signature `(&self, u8) -> u32`
//! so that one generic builder serves all of them.

use std::cell::RefCell;

use unimock::*;

/// Methods of the universe.
#[derive(Clone, Copy, Debug, PartialEq, Eq, PartialOrd, Ord, Hash)]
pub enum M {
    A = 0,
    B = 1,
    C = 2,
    E = 3,
    Plain = 4,
    Def = 5,
    Unm = 6,
    Both = 7,
}

pub const ALL_M: [M; 8] = [M::A, M::B, M::C, M::E, M::Plain, M::Def, M::Unm, M::Both];

impl M {
    pub fn path(self) -> &'static str {
        match self {
            M::A => "A::a",
            M::B => "A::b",
            M::C => "O::c",
            M::E => "O::e",
            M::Plain => "F::plain",
            M::Def => "F::def",
            M::Unm => "F::unm",
            M::Both => "F::both",
        }
    }
    pub fn name(self) -> &'static str {
        match self {
            M::A => "a",
            M::B => "b",
            M::C => "c",
            M::E => "e",
            M::Plain => "plain",
            M::Def => "def",
            M::Unm => "unm",
            M::Both => "both",
        }
    }
    pub fn from_name(s: &str) -> Option<M> {
        ALL_M.iter().copied().find(|m| m.name() == s)
    }
    pub fn has_default_body(self) -> bool {
        matches!(self, M::Def | M::Both)
    }
    pub fn has_unmock_fn(self) -> bool {
        matches!(self, M::Unm | M::Both)
    }
}

/// Value returned by the real (unmocked) function of method `m` for argument `x`.
pub fn real_value(m: M, x: u8) -> u32 {
    800_000 + (m as u32) * 16 + x as u32
}

/// Value returned by the default body of method `m` for argument `x`.
pub fn default_value(m: M, x: u8) -> u32 {
    700_000 + (m as u32) * 16 + x as u32
}

#[derive(Clone, Debug, PartialEq, Eq)]
pub enum LogEv {
    Real(M, u8),
    DefaultBody(M, u8),
    Answer(u32, u8),
}

thread_local! {
    static LOG: RefCell<Vec<LogEv>> = const { RefCell::new(Vec::new()) };
    /// when set, this thread's log entries go to a sink owned by another thread
    static SINK: RefCell<Option<std::sync::Arc<std::sync::Mutex<Vec<LogEv>>>>> = const { RefCell::new(None) };
    /// argument value for which user-side code (real functions, default bodies) panics
    static USER_PANIC_ARG: std::cell::Cell<Option<u8>> = const { std::cell::Cell::new(None) };
}

pub fn log(ev: LogEv) {
    let sink = SINK.with(|s| s.borrow().clone());
    match sink {
        Some(sink) => sink.lock().unwrap().push(ev),
        None => LOG.with(|l| l.borrow_mut().push(ev)),
    }
}

pub fn set_log_sink(sink: Option<std::sync::Arc<std::sync::Mutex<Vec<LogEv>>>>) {
    SINK.with(|s| *s.borrow_mut() = sink);
}

/// Make real functions and default bodies panic (a *user* panic) when called with this argument.
pub fn set_user_panic_arg(arg: Option<u8>) {
    USER_PANIC_ARG.with(|a| a.set(arg));
}

pub fn user_panic_arg() -> Option<u8> {
    USER_PANIC_ARG.with(|a| a.get())
}

pub const USER_PANIC_REAL: &str = "user panic in real function";
pub const USER_PANIC_DEFAULT: &str = "user panic in default body";
pub const USER_PANIC_ANSWER: &str = "user panic in answer function";
pub const USER_PANIC_MATCHER: &str = "user panic in matcher";

fn maybe_user_panic(x: u8, what: &str) {
    if user_panic_arg() == Some(x) {
        panic!("{what}");
    }
}

pub fn take_log() -> Vec<LogEv> {
    LOG.with(|l| std::mem::take(&mut *l.borrow_mut()))
}

#[unimock(api=AMock)]
pub trait A {
    fn a(&self, x: u8) -> u32;
    fn b(&self, x: u8) -> u32;
}

#[unimock(api=OMock)]
pub trait O {
    fn c(&self, x: u8) -> u32;
    fn e(&self, x: u8) -> u32;
}

#[unimock(api=FMock, unmock_with=[_, _, real_unm, real_both])]
pub trait F {
    fn plain(&self, x: u8) -> u32;
    fn def(&self, x: u8) -> u32 {
        log(LogEv::DefaultBody(M::Def, x));
        maybe_user_panic(x, USER_PANIC_DEFAULT);
        default_value(M::Def, x)
    }
    fn unm(&self, x: u8) -> u32;
    fn both(&self, x: u8) -> u32 {
        log(LogEv::DefaultBody(M::Both, x));
        maybe_user_panic(x, USER_PANIC_DEFAULT);
        default_value(M::Both, x)
    }
}

/// A trait with a provided method (creates the delegation helper inside the instance it is
/// called on) for the lifecycle explorer.
#[unimock(api=PMock)]
pub trait P {
    fn req(&self) -> u32;
    fn prov(&self) -> u32 {
        7
    }
    /// by-value provided method: the instance itself travels through the delegation helper and is
    /// dropped (verified, if it is the original) when the default body ends
    fn consume(self) -> u32
    where
        Self: Sized,
    {
        8
    }
}

/// A trait with a generic method: every instantiation is a distinct mocked method (C18).
#[unimock(api=GMock)]
pub trait G {
    fn g<T: core::fmt::Debug + Into<u64> + Copy + 'static>(&self, x: T) -> u32;
}

/// A trait whose methods take no arguments (call rendering `Z::ping()`).
#[unimock(api=ZMock)]
pub trait Z {
    fn ping(&self) -> u32;
    fn pong(&self) -> u32;
}

pub fn real_unm(_: &impl core::any::Any, x: u8) -> u32 {
    log(LogEv::Real(M::Unm, x));
    maybe_user_panic(x, USER_PANIC_REAL);
    real_value(M::Unm, x)
}

pub fn real_both(_: &impl core::any::Any, x: u8) -> u32 {
    log(LogEv::Real(M::Both, x));
    maybe_user_panic(x, USER_PANIC_REAL);
    real_value(M::Both, x)
}

/// Call method `m` on `u` with argument `x` through the generated trait impl.
pub fn call(u: &Unimock, m: M, x: u8) -> u32 {
    match m {
        M::A => <Unimock as A>::a(u, x),
        M::B => <Unimock as A>::b(u, x),
        M::C => <Unimock as O>::c(u, x),
        M::E => <Unimock as O>::e(u, x),
        M::Plain => <Unimock as F>::plain(u, x),
        M::Def => <Unimock as F>::def(u, x),
        M::Unm => <Unimock as F>::unm(u, x),
        M::Both => <Unimock as F>::both(u, x),
    }
}

/// The answer-function type shared by all universe methods.
pub type UAnswerFn = dyn for<'u> Fn(&'u Unimock, u8) -> u32 + Send + Sync;

/// A universe MockFn: `(&self, u8) -> u32`.
pub trait UF:
    MockFn<OutputKind = unimock::output::Owning<u32>, AnswerFn = UAnswerFn>
    + for<'i> MockFn<Inputs<'i> = u8>
{
}

impl<T> UF for T where
    T: MockFn<OutputKind = unimock::output::Owning<u32>, AnswerFn = UAnswerFn>
        + for<'i> MockFn<Inputs<'i> = u8>
{
}

/// Run `f` with the MockFn value of method `m`.
#[macro_export]
macro_rules! with_mockfn {
    ($m:expr, $f:ident ( $($args:expr),* )) => {
        match $m {
            $crate::universe::M::A => $f($crate::universe::AMock::a, $($args),*),
            $crate::universe::M::B => $f($crate::universe::AMock::b, $($args),*),
            $crate::universe::M::C => $f($crate::universe::OMock::c, $($args),*),
            $crate::universe::M::E => $f($crate::universe::OMock::e, $($args),*),
            $crate::universe::M::Plain => $f($crate::universe::FMock::plain, $($args),*),
            $crate::universe::M::Def => $f($crate::universe::FMock::def, $($args),*),
            $crate::universe::M::Unm => $f($crate::universe::FMock::unm, $($args),*),
            $crate::universe::M::Both => $f($crate::universe::FMock::both, $($args),*),
        }
    };
}

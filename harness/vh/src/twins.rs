//! Two traits of one module whose generic methods have the same name are distinct methods: their
//! patterns never answer or count each other's calls (used by C01 and C18).

use unimock::*;

use crate::explore::{Ctx, Stats};
use crate::json::J;
use crate::obs::catch;

/// Two traits of one module whose generic methods have the same name: distinct methods all the same.
pub mod traits {
    use unimock::*;

    #[unimock(api = TwinAMock)]
    pub trait TwinA {
        fn get<T: core::fmt::Debug + Copy + 'static>(&self, x: T) -> u32;
    }

    #[unimock(api = TwinBMock)]
    pub trait TwinB {
        fn get<T: core::fmt::Debug + Copy + 'static>(&self, x: T) -> u32;
    }

    /// A generic method with a default body, and one with a real function.
    #[unimock(api = GenFallbackMock, unmock_with = [_, real_gen])]
    pub trait GenFallback {
        fn with_body<T: core::fmt::Debug + Copy + 'static>(&self, x: T) -> u32 {
            let _ = x;
            77
        }
        fn with_real<T: core::fmt::Debug + Copy + 'static>(&self, x: T) -> u32;
    }

    pub fn real_gen<T: core::fmt::Debug + Copy + 'static>(_: &impl core::any::Any, _: T) -> u32 {
        88
    }
}

/// A clause for one instantiation of a generic method says nothing about another instantiation:
/// that one still runs its default body / its real function (partial mock) / fails as unmentioned.
fn fallback_cells(ctx: &Ctx, stats: &mut Stats, key: &str) {
    use traits::*;
    let mut cell = |name: &str, got: Result<u32, String>, want: Result<u32, &str>| {
        ctx.tick();
        stats.add("e_cells", 1);
        stats.add("transitions", 1);
        stats.add("traces_validated_against_impl", 1);
        let ok = match (&got, &want) {
            (Ok(g), Ok(w)) => g == w,
            (Err(msg), Err(needle)) => msg.contains(needle),
            _ => false,
        };
        if !ok {
            ctx.violation(key, &format!("generic-fallback/{name}: expected {want:?}, observed {got:?}"), J::obj().set("relation", "e").set("label", name));
        }
    };
    for partial in [false, true] {
        let new = |c: unimock::verif::DynClause| if partial { Unimock::new_partial(c) } else { Unimock::new(c) }.no_verify_in_drop();
        let mode = if partial { "partial" } else { "strict" };
        let mut c = unimock::verif::DynClause::new();
        c.push(GenFallbackMock::with_body.with_types::<u8>().each_call(matching!(_)).returns(1u32));
        let u = new(c);
        cell(&format!("{mode}/with_body::<u8> configured, called"), catch(|| u.with_body(0u8)), Ok(1));
        cell(&format!("{mode}/with_body::<u8> configured, ::<u16> called (default body)"), catch(|| u.with_body(0u16)), Ok(77));
        let mut c = unimock::verif::DynClause::new();
        c.push(GenFallbackMock::with_real.with_types::<u8>().each_call(matching!(_)).returns(2u32));
        let u = new(c);
        cell(&format!("{mode}/with_real::<u8> configured, called"), catch(|| u.with_real(0u8)), Ok(2));
        cell(
            &format!("{mode}/with_real::<u8> configured, ::<u16> called"),
            catch(|| u.with_real(0u16)),
            if partial { Ok(88) } else { Err("GenFallback::with_real(0): No mock implementation found") },
        );
    }
}

pub fn cells(ctx: &Ctx, stats: &mut Stats, key: &str) {
    use traits::*;
    fallback_cells(ctx, stats, key);
    // which of the three methods (A::get::<u8>, B::get::<u8>, A::get::<u16>) are configured, in which
    // clause order, ordered or unordered; then every call sequence of length 2 over the three
    let orders: [[usize; 3]; 6] = [[0, 1, 2], [0, 2, 1], [1, 0, 2], [1, 2, 0], [2, 0, 1], [2, 1, 0]];
    for subset in 1u8..8 {
        for order in orders {
            // 0: all unordered; 1: TwinB::get::<u8> ordered; 2: TwinA::get::<u16> ordered (next to the
            // unordered TwinA::get::<u8>: two instantiations of one generic method)
            for ordered_one in [0u8, 1, 2] {
                let b_ordered = ordered_one == 1;
                let a16_ordered = ordered_one == 2;
                let build = || {
                    let mut c = unimock::verif::DynClause::new();
                    for k in order {
                        if subset & (1 << k) == 0 {
                            continue;
                        }
                        match k {
                            0 => c.push(TwinAMock::get.with_types::<u8>().each_call(matching!(_)).returns(1u32)),
                            1 if b_ordered => c.push(TwinBMock::get.with_types::<u8>().next_call(matching!(_)).returns(2u32).n_times(2)),
                            1 => c.push(TwinBMock::get.with_types::<u8>().each_call(matching!(_)).returns(2u32)),
                            _ if a16_ordered => c.push(TwinAMock::get.with_types::<u16>().next_call(matching!(_)).returns(3u32).n_times(2)),
                            _ => c.push(TwinAMock::get.with_types::<u16>().each_call(matching!(_)).returns(3u32)),
                        }
                    }
                    Unimock::new(c)
                };
                for first in 0..3usize {
                    for second in 0..3usize {
                        ctx.tick();
                        stats.add("e_cells", 1);
                        stats.add("traces_validated_against_impl", 1);
                        let label = format!("configured {subset:03b} in clause order {order:?}, TwinB::get {}, TwinA::get::<u16> {}", if b_ordered { "ordered" } else { "unordered" }, if a16_ordered { "ordered" } else { "unordered" });
                        let u = match catch(build) {
                            Ok(u) => u,
                            Err(msg) => {
                                ctx.violation(key, &format!("{label}: construction panicked: {msg}"), J::obj().set("relation", "e"));
                                continue;
                            }
                        };
                        let mut called = [false; 3];
                        for k in [first, second] {
                            stats.add("transitions", 1);
                            let got = match k {
                                0 => catch(|| <Unimock as TwinA>::get::<u8>(&u, 0u8)),
                                1 => catch(|| <Unimock as TwinB>::get::<u8>(&u, 0u8)),
                                _ => catch(|| <Unimock as TwinA>::get::<u16>(&u, 0u16)),
                            };
                            let name = ["TwinA::get", "TwinB::get", "TwinA::get"][k];
                            let ok = if subset & (1 << k) != 0 {
                                called[k] = true;
                                got == Ok([1u32, 2, 3][k])
                            } else {
                                matches!(&got, Err(msg) if msg.contains(name) && msg.contains("No mock implementation found"))
                            };
                            stats.note("e_outcomes", format!("{k}:{:?}", got.as_ref().map(|v| *v).map_err(|m| crate::model::classify(m))));
                            if !ok {
                                ctx.violation(
                                    key,
                                    &format!("{label}: call of method {k} ({name}) gave {got:?}"),
                                    J::obj().set("relation", "e").set("label", label.as_str()),
                                );
                            }
                        }
                        // the verdict names exactly the configured methods that were never called
                        // (and TwinB's unmet exact count when it is ordered)
                        let erroneous = [first, second].iter().any(|k| subset & (1 << k) == 0);
                        let verdict = catch(move || drop(u));
                        if !erroneous {
                            let mut want_lines = 0;
                            for k in 0..3 {
                                if subset & (1 << k) != 0 && !called[k] {
                                    want_lines += 1;
                                }
                            }
                            let b_calls = [first, second].iter().filter(|k| **k == 1).count();
                            if subset & 2 != 0 && b_ordered && b_calls != 2 {
                                want_lines += 1;
                            }
                            let a16_calls = [first, second].iter().filter(|k| **k == 2).count();
                            if subset & 4 != 0 && a16_ordered && a16_calls != 2 {
                                want_lines += 1;
                            }
                            let lines = verdict.as_ref().err().map(|m| m.lines().count()).unwrap_or(0);
                            if lines != want_lines {
                                ctx.violation(
                                    key,
                                    &format!("{label}, calls {first},{second}: verification gave {verdict:?}, expected {want_lines} line(s)"),
                                    J::obj().set("relation", "e").set("label", label.as_str()),
                                );
                            }
                        }
                    }
                }
            }
        }
    }
}


//! Helpers for generated (engine G) programs.

use std::future::Future;
use std::pin::Pin;
use std::sync::Arc;
use std::task::{Context, Poll, Wake, Waker};

struct NoopWaker;

impl Wake for NoopWaker {
    fn wake(self: Arc<Self>) {}
}

/// Drive a future to completion on the current thread (busy polling with a no-op waker; the
/// futures of mocked methods never return Pending on their own).
pub fn block_on<F: Future>(fut: F) -> F::Output {
    let waker = Waker::from(Arc::new(NoopWaker));
    let mut cx = Context::from_waker(&waker);
    let mut fut = Box::pin(fut);
    for _ in 0..10_000 {
        if let Poll::Ready(v) = fut.as_mut().poll(&mut cx) {
            return v;
        }
    }
    panic!("future still pending after 10000 polls");
}

/// Poll a future exactly once.
pub fn poll_once<F: Future>(fut: Pin<&mut F>) -> Poll<F::Output> {
    let waker = Waker::from(Arc::new(NoopWaker));
    let mut cx = Context::from_waker(&waker);
    fut.poll(&mut cx)
}

thread_local! {
    static EVENTS: std::cell::RefCell<Vec<String>> = const { std::cell::RefCell::new(Vec::new()) };
}

/// Per-thread event log for generated programs.
pub fn ev(s: impl Into<String>) {
    EVENTS.with(|e| e.borrow_mut().push(s.into()));
}

pub fn take_events() -> Vec<String> {
    EVENTS.with(|e| std::mem::take(&mut *e.borrow_mut()))
}

pub fn n_events() -> usize {
    EVENTS.with(|e| e.borrow().len())
}

/// Run `f` with a task context whose waker does nothing.
pub fn with_cx<R>(f: impl FnOnce(&mut Context<'_>) -> R) -> R {
    let waker = Waker::from(Arc::new(NoopWaker));
    let mut cx = Context::from_waker(&waker);
    f(&mut cx)
}

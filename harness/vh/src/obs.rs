//! Observing the real mock: calls under `catch_unwind`, panic payloads, step conformance.

use std::panic::{catch_unwind, AssertUnwindSafe};

use unimock::verif::Snapshot;
use unimock::Unimock;

use crate::model::*;
use crate::universe::*;

/// Install a panic hook that prints nothing (panics are expected by the thousands).
pub fn silence_panics() {
    if std::env::var("VERIF_LOUD").is_ok() {
        return;
    }
    std::panic::set_hook(Box::new(|_| {}));
}

pub fn payload_to_string(p: Box<dyn std::any::Any + Send>) -> String {
    if let Some(s) = p.downcast_ref::<String>() {
        s.clone()
    } else if let Some(s) = p.downcast_ref::<&'static str>() {
        s.to_string()
    } else {
        "<non-string panic payload>".to_string()
    }
}

/// Run `f`, returning its value or the panic message.
pub fn catch<T>(f: impl FnOnce() -> T) -> Result<T, String> {
    catch_unwind(AssertUnwindSafe(f)).map_err(payload_to_string)
}

/// Owner of a mock whose drop never unwinds into the harness (the verdict of such a drop is not
/// what is being observed). Clones must be declared after (= dropped before) their original.
pub struct Quiet(Option<Unimock>);

impl Quiet {
    pub fn new(u: Unimock) -> Quiet {
        Quiet(Some(u))
    }
    /// Take the mock out (to observe its teardown explicitly).
    pub fn take(mut self) -> Unimock {
        self.0.take().unwrap()
    }
}

impl std::ops::Deref for Quiet {
    type Target = Unimock;
    fn deref(&self) -> &Unimock {
        self.0.as_ref().unwrap()
    }
}

impl std::ops::DerefMut for Quiet {
    fn deref_mut(&mut self) -> &mut Unimock {
        self.0.as_mut().unwrap()
    }
}

impl Drop for Quiet {
    fn drop(&mut self) {
        if let Some(u) = self.0.take() {
            let _ = catch(move || drop(u));
        }
    }
}

#[derive(Clone, Debug, PartialEq, Eq, PartialOrd, Ord, Hash)]
pub enum Obs {
    Value(u32),
    Panic(String),
}

impl Obs {
    pub fn short(&self) -> String {
        match self {
            Obs::Value(v) => format!("={v}"),
            Obs::Panic(msg) => format!("!{:?}", classify(msg)),
        }
    }
}

/// One observed call: result and the side effects logged by user-side code.
#[derive(Clone, Debug, PartialEq, Eq)]
pub struct Step {
    pub obs: Obs,
    pub log: Vec<LogEv>,
}

pub fn observe_call(u: &Unimock, m: M, x: u8) -> Step {
    let _ = take_log();
    let obs = match catch(|| call(u, m, x)) {
        Ok(v) => Obs::Value(v),
        Err(msg) => Obs::Panic(msg),
    };
    Step {
        obs,
        log: take_log(),
    }
}

/// Like `observe_call`, but the call is made on a scoped thread spawned for it and its panic
/// propagates to that thread's boundary (observed through `join`).
#[cfg(feature = "nolock")]
pub fn observe_call_on_thread(_: &Unimock, _: M, _: u8) -> Step {
    panic!("harness: without a mutex the mock is not Sync and cannot be called from another thread")
}

#[cfg(not(feature = "nolock"))]
pub fn observe_call_on_thread(u: &Unimock, m: M, x: u8) -> Step {
    let sink = std::sync::Arc::new(std::sync::Mutex::new(Vec::new()));
    let arg = user_panic_arg();
    let res = std::thread::scope(|s| {
        let sink = sink.clone();
        s.spawn(move || {
            set_log_sink(Some(sink));
            set_user_panic_arg(arg);
            call(u, m, x)
        })
        .join()
    });
    let obs = match res {
        Ok(v) => Obs::Value(v),
        Err(p) => Obs::Panic(payload_to_string(p)),
    };
    let log = std::mem::take(&mut *sink.lock().unwrap());
    Step { obs, log }
}

/// How a pattern of the real mock is named in messages (from the H3 snapshot).
pub fn pattern_name(snap: &Snapshot, pat: PatId) -> Option<String> {
    snap.method(pat.0.path())
        .and_then(|ms| ms.patterns.get(pat.1))
        .map(|p| p.debug.clone())
}

/// Compare one observed step with the model's prediction. `snap` is a snapshot of the mock (any
/// time; only pattern names are read from it).
pub fn check_step(pred: &Pred, m: M, x: u8, step: &Step, snap: &Snapshot) -> Result<(), String> {
    match pred {
        Pred::Value(v) => {
            if step.obs != Obs::Value(*v) {
                return Err(format!("expected stored value {v}, observed {:?}", step.obs));
            }
            if !step.log.is_empty() {
                return Err(format!("expected no user code to run, log {:?}", step.log));
            }
        }
        Pred::Answer(id) => {
            if step.obs != Obs::Value(*id) {
                return Err(format!("expected answer {id}, observed {:?}", step.obs));
            }
            if step.log != vec![LogEv::Answer(*id, x)] {
                return Err(format!(
                    "expected exactly one run of answer {id} with argument {x}, log {:?}",
                    step.log
                ));
            }
        }
        Pred::Real(rm) => {
            if step.obs != Obs::Value(real_value(*rm, x)) {
                return Err(format!(
                    "expected result of the real function {}, observed {:?}",
                    real_value(*rm, x),
                    step.obs
                ));
            }
            if step.log != vec![LogEv::Real(*rm, x)] {
                return Err(format!(
                    "expected exactly one run of the real function with argument {x}, log {:?}",
                    step.log
                ));
            }
        }
        Pred::DefaultBody(dm) => {
            if step.obs != Obs::Value(default_value(*dm, x)) {
                return Err(format!(
                    "expected result of the default body {}, observed {:?}",
                    default_value(*dm, x),
                    step.obs
                ));
            }
            if step.log != vec![LogEv::DefaultBody(*dm, x)] {
                return Err(format!(
                    "expected exactly one run of the default body with argument {x}, log {:?}",
                    step.log
                ));
            }
        }
        Pred::MockPanic(class, pat) => {
            let Obs::Panic(msg) = &step.obs else {
                return Err(format!(
                    "expected a mock-induced panic {class:?}, observed {:?}",
                    step.obs
                ));
            };
            let got = classify(msg);
            if got != *class {
                return Err(format!(
                    "expected panic class {class:?}, observed {got:?}: {msg:?}"
                ));
            }
            if !msg.contains(m.path()) {
                return Err(format!("panic does not name the call {}: {msg:?}", m.path()));
            }
            if let Some(pat) = pat {
                match pattern_name(snap, *pat) {
                    Some(name) => {
                        if !msg.contains(&name) {
                            return Err(format!(
                                "panic does not name pattern {pat:?} ({name}): {msg:?}"
                            ));
                        }
                    }
                    None => return Err(format!("pattern {pat:?} missing from the real mock")),
                }
            }
            if !step.log.is_empty() {
                return Err(format!("expected no user code to run, log {:?}", step.log));
            }
        }
        Pred::UserPanic(text, log) => {
            let Obs::Panic(msg) = &step.obs else {
                return Err(format!("expected the user panic {text:?}, observed {:?}", step.obs));
            };
            if msg != text {
                return Err(format!("expected the user panic {text:?} unchanged, observed {msg:?}"));
            }
            if &step.log != log {
                return Err(format!("expected user code to have run as {log:?}, log {:?}", step.log));
            }
        }
        Pred::Unspecified(_) => {}
    }
    Ok(())
}

/// Compare the real per-pattern counters and the ordered index with the model's.
pub fn check_counts(model: &Model, snap: &Snapshot) -> Result<(), String> {
    if snap.methods.len() != model.methods.len() {
        return Err(format!(
            "method table has {} entries, model {}",
            snap.methods.len(),
            model.methods.len()
        ));
    }
    for (m, pats) in &model.methods {
        let Some(ms) = snap.method(m.path()) else {
            return Err(format!("method {} missing from the real mock", m.path()));
        };
        if ms.patterns.len() != pats.len() {
            return Err(format!(
                "{}: {} patterns, model {}",
                m.path(),
                ms.patterns.len(),
                pats.len()
            ));
        }
        for (i, (rp, mp)) in ms.patterns.iter().zip(pats).enumerate() {
            if rp.count != mp.count {
                return Err(format!(
                    "{}[{i}]: match count {} but the model says {}",
                    m.path(),
                    rp.count,
                    mp.count
                ));
            }
        }
    }
    if snap.ordered_index != model.ordered_index {
        return Err(format!(
            "ordered index {} but the model says {}",
            snap.ordered_index, model.ordered_index
        ));
    }
    Ok(())
}

/// Structural conformance right after construction: modes, slot ranges, expectations.
pub fn check_assembly(
    model: &Model,
    snap: &Snapshot,
    ranges: bool,
    expectations: bool,
) -> Result<(), String> {
    check_counts(model, snap)?;
    if snap.partial != model.partial {
        return Err("fallback mode differs".into());
    }
    for (m, pats) in &model.methods {
        let ms = snap.method(m.path()).unwrap();
        if ms.ordered != pats[0].ordered {
            return Err(format!("{}: match mode differs", m.path()));
        }
        for (i, (rp, mp)) in ms.patterns.iter().zip(pats).enumerate() {
            if ranges && mp.ordered && rp.range != mp.range {
                return Err(format!(
                    "{}[{i}]: slot range {:?} but the model says {:?}",
                    m.path(),
                    rp.range,
                    mp.range
                ));
            }
            if expectations && (rp.minimum != mp.min || rp.exactness != mp.exact.name()) {
                return Err(format!(
                    "{}[{i}]: expectation {} {} but the model says {} {}",
                    m.path(),
                    rp.exactness,
                    rp.minimum,
                    mp.exact.name(),
                    mp.min
                ));
            }
        }
    }
    Ok(())
}

/// The outcome of verifying the original instance.
#[derive(Clone, Debug, PartialEq, Eq, PartialOrd, Ord, Hash)]
pub enum Verdict {
    Silent,
    Failed(Vec<String>),
}

/// Drop / verify the original inside `catch_unwind` and split the message into lines.
pub fn verify_by(u: Unimock, how: VerifyHow) -> Verdict {
    let res = match how {
        VerifyHow::Drop => catch(move || drop(u)),
        VerifyHow::Verify => catch(move || u.verify()),
    };
    match res {
        Ok(()) => Verdict::Silent,
        Err(msg) => Verdict::Failed(msg.lines().map(|l| l.to_string()).collect()),
    }
}

#[derive(Clone, Copy, Debug, PartialEq, Eq, PartialOrd, Ord, Hash)]
pub enum VerifyHow {
    Drop,
    Verify,
}

/// Expected text of a verification line.
pub fn expected_line(f: &ExpFail, snap: &Snapshot) -> String {
    match f {
        ExpFail::Count {
            pat,
            kind,
            bound,
            actual,
        } => format!(
            "{}: Expected {} to match {} {}, but it actually matched {}.",
            pat.0.path(),
            pattern_name(snap, *pat).unwrap_or_else(|| "<missing pattern>".into()),
            kind,
            ncalls(*bound),
            ncalls(*actual)
        ),
        ExpFail::NeverCalled(m) => format!(
            "Mock for {} was never called. Dead mocks should be removed.",
            m.path()
        ),
    }
}

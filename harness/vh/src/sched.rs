//! Engine T: a controlled scheduler over real OS threads (CHESS style).
//!
//! The threads of one execution are real threads serialised by a baton. At every scheduling
//! point announced by unimock's verification hooks (each atomic operation, each lock acquisition
//! and release, each `OnceCell` insertion of the value chain; announced *before* the operation)
//! the scheduler records a choice point and either lets the running thread continue or hands the
//! baton to another enabled thread. Locks are modelled as blocking. The explorer enumerates
//! choice sequences depth-first with a preemption bound; every execution runs to completion.
//!
//! Besides the points announced *before* an operation, the instrumented atomics and cells announce
//! `Op::Done` right *after* it: a switch there lets another thread run between an instrumented
//! operation and the next statement of the calling code (a check-then-act over state the hooks do
//! not see has its window exactly there). `run_once_with(.., post_points = false)` ignores them.
//!
//! The scheduler is instance based (looked up through a thread-local), so several explorations can
//! run in parallel inside one process.

use std::cell::RefCell;
use std::collections::BTreeMap;
use std::panic::{catch_unwind, AssertUnwindSafe};
use std::sync::{Arc, Condvar, Mutex};

use unimock::verif::Op;

use crate::obs::payload_to_string;

#[derive(Clone, Copy, Debug, PartialEq, Eq)]
pub struct Point {
    /// number of enabled threads at this point
    pub n_enabled: u8,
    /// index of the chosen thread in canonical order (running thread first, then ascending ids)
    pub chosen: u8,
    /// whether the running thread was among the enabled ones (switching away is a preemption)
    pub running_enabled: bool,
}

#[derive(Clone, Debug, Default)]
pub struct Trace {
    pub points: Vec<Point>,
    pub deadlock: bool,
    /// a replayed prefix asked for a choice that does not exist
    pub diverged: bool,
    /// (thread, operation) in execution order, for diagnostics
    pub ops: Vec<(u8, Op)>,
}

impl Trace {
    pub fn choices(&self) -> Vec<u8> {
        self.points.iter().map(|p| p.chosen).collect()
    }
    pub fn preemptions(&self) -> usize {
        self.points
            .iter()
            .filter(|p| p.running_enabled && p.chosen != 0)
            .count()
    }
}

#[derive(Clone, Copy, PartialEq, Eq, Debug)]
enum Status {
    Ready,
    Finished,
}

struct Inner {
    n: usize,
    current: Option<usize>,
    status: Vec<Status>,
    /// the operation each thread is about to perform (None = thread start)
    pending: Vec<Option<(Op, usize)>>,
    lock_owner: BTreeMap<usize, usize>,
    prefix: Vec<u8>,
    trace: Trace,
    abort: bool,
    done: bool,
}

pub struct Sched {
    inner: Mutex<Inner>,
    cv: Condvar,
    /// whether `Op::Done` announcements are scheduling points
    post_points: bool,
}

thread_local! {
    static CURRENT: RefCell<Option<(Arc<Sched>, usize)>> = const { RefCell::new(None) };
}

const DEADLOCK_PAYLOAD: &str = "__verif_scheduler_abort__";

/// The process-wide hook handed to `unimock::verif::set_hook`.
fn hook(op: Op, addr: usize) {
    let cur = CURRENT.with(|c| c.borrow().clone());
    if let Some((sched, tid)) = cur {
        if op == Op::Done && !sched.post_points {
            return;
        }
        sched.yield_point(tid, op, addr);
    }
}

pub fn install_hook() {
    // false = already installed by this process, which is fine
    let _ = unimock::verif::set_hook(hook);
}

impl Inner {
    fn enabled(&self, tid: usize) -> bool {
        if self.status[tid] != Status::Ready {
            return false;
        }
        match self.pending[tid] {
            Some((Op::LockAcquire, addr)) => match self.lock_owner.get(&addr) {
                Some(owner) => *owner == tid,
                None => true,
            },
            _ => true,
        }
    }

    /// Canonical order: running thread first (if enabled), then ascending ids.
    fn enabled_list(&self, running: Option<usize>) -> (Vec<usize>, bool) {
        let mut list = vec![];
        let mut running_enabled = false;
        if let Some(r) = running {
            if self.enabled(r) {
                list.push(r);
                running_enabled = true;
            }
        }
        for t in 0..self.n {
            if Some(t) != running && self.enabled(t) {
                list.push(t);
            }
        }
        (list, running_enabled)
    }

    /// Make a scheduling decision. Returns false if no thread can run although some are unfinished.
    fn choose(&mut self, running: Option<usize>) -> bool {
        let (list, running_enabled) = self.enabled_list(running);
        if list.is_empty() {
            if self.status.iter().all(|s| *s == Status::Finished) {
                self.done = true;
                self.current = None;
                return true;
            }
            self.trace.deadlock = true;
            self.abort = true;
            self.current = None;
            return false;
        }
        let pos = self.trace.points.len();
        let mut chosen = 0usize;
        if pos < self.prefix.len() {
            chosen = self.prefix[pos] as usize;
            if chosen >= list.len() {
                self.trace.diverged = true;
                chosen = 0;
            }
        }
        self.trace.points.push(Point {
            n_enabled: list.len() as u8,
            chosen: chosen as u8,
            running_enabled,
        });
        self.current = Some(list[chosen]);
        true
    }
}

impl Sched {
    fn new(n: usize, prefix: &[u8], post_points: bool) -> Arc<Sched> {
        Arc::new(Sched {
            post_points,
            inner: Mutex::new(Inner {
                n,
                current: None,
                status: vec![Status::Ready; n],
                pending: vec![None; n],
                lock_owner: BTreeMap::new(),
                prefix: prefix.to_vec(),
                trace: Trace::default(),
                abort: false,
                done: false,
            }),
            cv: Condvar::new(),
        })
    }

    fn wait_for_turn(&self, mut g: std::sync::MutexGuard<'_, Inner>, tid: usize) {
        while g.current != Some(tid) && !g.abort {
            g = self.cv.wait(g).unwrap();
        }
        if g.abort {
            drop(g);
            if !std::thread::panicking() {
                std::panic::resume_unwind(Box::new(DEADLOCK_PAYLOAD));
            }
            return;
        }
        // about to perform the pending operation
        if let Some((op, addr)) = g.pending[tid] {
            g.trace.ops.push((tid as u8, op));
            if op == Op::LockAcquire {
                g.lock_owner.insert(addr, tid);
            }
        }
    }

    fn yield_point(&self, tid: usize, op: Op, addr: usize) {
        let mut g = self.inner.lock().unwrap();
        if g.abort {
            drop(g);
            if !std::thread::panicking() {
                std::panic::resume_unwind(Box::new(DEADLOCK_PAYLOAD));
            }
            return;
        }
        if op == Op::LockRelease {
            // releasing is not a conflict by itself; it only enables others
            if g.lock_owner.get(&addr) == Some(&tid) {
                g.lock_owner.remove(&addr);
            }
        }
        if op == Op::LockHeld {
            // the lock has really been taken (blocking or try_lock): other threads scheduled now
            // run inside this thread's critical section
            g.lock_owner.insert(addr, tid);
        }
        g.pending[tid] = Some((op, addr));
        g.choose(Some(tid));
        self.cv.notify_all();
        self.wait_for_turn(g, tid);
    }

    fn thread_start(&self, tid: usize) {
        let g = self.inner.lock().unwrap();
        self.wait_for_turn(g, tid);
    }

    fn thread_finish(&self, tid: usize) {
        let mut g = self.inner.lock().unwrap();
        g.status[tid] = Status::Finished;
        g.pending[tid] = None;
        // a finished thread must not keep modelled locks
        g.lock_owner.retain(|_, owner| *owner != tid);
        if !g.abort {
            g.choose(None);
        }
        self.cv.notify_all();
    }
}

/// Result of one thread of an execution.
pub type ThreadResult<R> = Result<R, String>;

/// Run one execution: `threads` are started as real OS threads under the scheduler, following
/// `prefix` at the first choice points and the default choice (index 0 = keep running / lowest id)
/// afterwards. Returns per-thread results (Err = the thread's closure panicked) and the trace.
pub fn run_once<R: Send + 'static>(
    prefix: &[u8],
    threads: Vec<Box<dyn FnOnce() -> R + Send + 'static>>,
) -> (Vec<ThreadResult<R>>, Trace) {
    run_once_with(prefix, threads, true)
}

/// `run_once` with the choice whether the points announced after an operation count.
pub fn run_once_with<R: Send + 'static>(
    prefix: &[u8],
    threads: Vec<Box<dyn FnOnce() -> R + Send + 'static>>,
    post_points: bool,
) -> (Vec<ThreadResult<R>>, Trace) {
    install_hook();
    let n = threads.len();
    let sched = Sched::new(n, prefix, post_points);
    let mut handles = vec![];
    for (tid, f) in threads.into_iter().enumerate() {
        let sched = sched.clone();
        handles.push(
            std::thread::Builder::new()
                .stack_size(512 * 1024)
                .spawn(move || {
                    CURRENT.with(|c| *c.borrow_mut() = Some((sched.clone(), tid)));
                    let result = catch_unwind(AssertUnwindSafe(|| {
                        sched.thread_start(tid);
                        f()
                    }));
                    // no more scheduling points from this thread (drops of the closure's captures
                    // already happened inside f)
                    CURRENT.with(|c| *c.borrow_mut() = None);
                    sched.thread_finish(tid);
                    result.map_err(payload_to_string)
                })
                .expect("spawn"),
        );
    }
    {
        let mut g = sched.inner.lock().unwrap();
        g.choose(None);
        sched.cv.notify_all();
        while !g.done && !g.abort {
            g = sched.cv.wait(g).unwrap();
        }
    }
    let results: Vec<ThreadResult<R>> = handles
        .into_iter()
        .map(|h| match h.join() {
            Ok(r) => r,
            Err(p) => Err(payload_to_string(p)),
        })
        .collect();
    let trace = std::mem::take(&mut sched.inner.lock().unwrap().trace);
    (results, trace)
}

pub fn is_scheduler_abort(msg: &str) -> bool {
    msg == DEADLOCK_PAYLOAD
}

#[derive(Clone, Debug, Default)]
pub struct ExploreStats {
    pub executions: u64,
    pub choice_points: u64,
    pub max_points: usize,
    pub by_preemptions: BTreeMap<usize, u64>,
    pub capped: bool,
    pub deadlocks: u64,
    pub divergences: u64,
}

/// Depth-first enumeration of all schedules with at most `bound` preemptions (`None` =
/// unbounded). `run(prefix)` executes one schedule and returns its trace; it is also where the
/// caller checks the execution. `cap` limits the number of executions (reported as `capped`).
pub fn explore(
    bound: Option<usize>,
    cap: u64,
    mut run: impl FnMut(&[u8]) -> Trace,
    mut keep_going: impl FnMut() -> bool,
) -> ExploreStats {
    let mut stats = ExploreStats::default();
    let mut stack: Vec<Vec<u8>> = vec![vec![]];
    while let Some(prefix) = stack.pop() {
        if stats.executions >= cap {
            stats.capped = true;
            break;
        }
        if !keep_going() {
            stats.capped = true;
            break;
        }
        let trace = run(&prefix);
        stats.executions += 1;
        stats.choice_points += trace.points.len() as u64;
        stats.max_points = stats.max_points.max(trace.points.len());
        *stats.by_preemptions.entry(trace.preemptions()).or_insert(0) += 1;
        if trace.deadlock {
            stats.deadlocks += 1;
        }
        if trace.diverged {
            stats.divergences += 1;
            continue;
        }
        if trace.points.len() < prefix.len() {
            // the replayed prefix was not consumed: the execution is not deterministic
            stats.divergences += 1;
            continue;
        }
        let choices = trace.choices();
        // preemptions before point i
        let mut cost = 0usize;
        let mut costs = Vec::with_capacity(trace.points.len());
        for p in &trace.points {
            costs.push(cost);
            if p.running_enabled && p.chosen != 0 {
                cost += 1;
            }
        }
        // push deeper alternatives first so that shallow ones are explored first (stack order)
        for i in (prefix.len()..trace.points.len()).rev() {
            let p = trace.points[i];
            let extra = if p.running_enabled { 1 } else { 0 };
            if let Some(b) = bound {
                if costs[i] + extra > b {
                    continue;
                }
            }
            for alt in (1..p.n_enabled).rev() {
                let mut np = choices[..i].to_vec();
                np.push(alt);
                stack.push(np);
            }
        }
    }
    stats
}

//! Run-time descriptions of clauses, and their translation into *real* builder-API calls.
//!
//! Every terminal clause is produced by `some_call / each_call / next_call / stub` with a real
//! `matching!` invocation and the real response / quantifier methods; only the outer list is a
//! `unimock::verif::DynClause` (hook H1).

use std::collections::BTreeMap;
use std::sync::Arc;

use unimock::build::*;
use unimock::property::{AtLeast, Exact, InAnyOrder, InOrder, Ordering};
use unimock::verif::DynClause;
use unimock::*;

use crate::json::J;
use crate::universe::*;

#[derive(Clone, Copy, Debug, PartialEq, Eq, PartialOrd, Ord, Hash)]
pub enum Resp {
    /// `.returns(id)`
    Ret(u32),
    /// `.returns_default()` (yields 0)
    RetDefault,
    /// `.answers(&'static closure)` yielding id
    Ans(u32),
    /// `.answers_arc(closure)` yielding id
    AnsArc(u32),
    /// `.panics("boom<id>")`
    Panics(u32),
    /// `.applies_unmocked()`
    Unmock,
    /// `.applies_default_impl()`
    DefaultImpl,
}

#[derive(Clone, Copy, Debug, PartialEq, Eq, PartialOrd, Ord, Hash)]
pub enum Quant {
    /// no quantifier (only as the last segment)
    Open,
    Once,
    N(usize),
    /// only unordered, only last
    AtLeast(usize),
}

#[derive(Clone, Copy, Debug, PartialEq, Eq, PartialOrd, Ord, Hash)]
pub struct Seg {
    pub resp: Resp,
    pub quant: Quant,
}

#[derive(Clone, Copy, Debug, PartialEq, Eq, PartialOrd, Ord, Hash)]
pub enum Entry {
    SomeCall,
    EachCall,
    NextCall,
}

#[derive(Clone, Debug, PartialEq, Eq, PartialOrd, Ord, Hash)]
pub struct PatSpec {
    /// bit i set <=> argument i accepted
    pub mask: u8,
    /// response chain; empty only inside a stub (pattern without output)
    pub segs: Vec<Seg>,
}

#[derive(Clone, Debug, PartialEq, Eq, PartialOrd, Ord, Hash)]
pub enum ClauseSpec {
    Single { m: M, entry: Entry, pat: PatSpec },
    Stub { m: M, pats: Vec<PatSpec> },
}

impl ClauseSpec {
    pub fn method(&self) -> M {
        match self {
            ClauseSpec::Single { m, .. } | ClauseSpec::Stub { m, .. } => *m,
        }
    }
    pub fn ordered(&self) -> bool {
        matches!(
            self,
            ClauseSpec::Single {
                entry: Entry::NextCall,
                ..
            }
        )
    }
}

#[derive(Clone, Debug, PartialEq, Eq, PartialOrd, Ord, Hash)]
pub struct Config {
    pub partial: bool,
    pub clauses: Vec<ClauseSpec>,
}

// ---------------------------------------------------------------------------------------------
// JSON (for replay files and evidence samples)
// ---------------------------------------------------------------------------------------------

impl Resp {
    pub fn to_json(&self) -> J {
        match self {
            Resp::Ret(i) => J::obj().set("returns", *i),
            Resp::RetDefault => J::Str("returns_default".into()),
            Resp::Ans(i) => J::obj().set("answers", *i),
            Resp::AnsArc(i) => J::obj().set("answers_arc", *i),
            Resp::Panics(i) => J::obj().set("panics", *i),
            Resp::Unmock => J::Str("applies_unmocked".into()),
            Resp::DefaultImpl => J::Str("applies_default_impl".into()),
        }
    }
    pub fn from_json(j: &J) -> Option<Resp> {
        if let Some(s) = j.as_str() {
            return match s {
                "returns_default" => Some(Resp::RetDefault),
                "applies_unmocked" => Some(Resp::Unmock),
                "applies_default_impl" => Some(Resp::DefaultImpl),
                _ => None,
            };
        }
        for (k, f) in [
            ("returns", Resp::Ret as fn(u32) -> Resp),
            ("answers", Resp::Ans),
            ("answers_arc", Resp::AnsArc),
            ("panics", Resp::Panics),
        ] {
            if let Some(v) = j.get(k) {
                return Some(f(v.as_i64()? as u32));
            }
        }
        None
    }
}

impl Quant {
    pub fn to_json(&self) -> J {
        match self {
            Quant::Open => J::Str("open".into()),
            Quant::Once => J::Str("once".into()),
            Quant::N(n) => J::obj().set("n_times", *n),
            Quant::AtLeast(n) => J::obj().set("at_least_times", *n),
        }
    }
    pub fn from_json(j: &J) -> Option<Quant> {
        match j.as_str() {
            Some("open") => return Some(Quant::Open),
            Some("once") => return Some(Quant::Once),
            _ => {}
        }
        if let Some(n) = j.get("n_times") {
            return Some(Quant::N(n.as_i64()? as usize));
        }
        if let Some(n) = j.get("at_least_times") {
            return Some(Quant::AtLeast(n.as_i64()? as usize));
        }
        None
    }
}

impl PatSpec {
    pub fn to_json(&self) -> J {
        J::obj().set("mask", self.mask).set(
            "segs",
            J::Arr(
                self.segs
                    .iter()
                    .map(|s| J::Arr(vec![s.resp.to_json(), s.quant.to_json()]))
                    .collect(),
            ),
        )
    }
    pub fn from_json(j: &J) -> Option<PatSpec> {
        let mask = j.get("mask")?.as_i64()? as u8;
        let mut segs = vec![];
        for s in j.get("segs")?.as_arr()? {
            let a = s.as_arr()?;
            segs.push(Seg {
                resp: Resp::from_json(&a[0])?,
                quant: Quant::from_json(&a[1])?,
            });
        }
        Some(PatSpec { mask, segs })
    }
}

impl ClauseSpec {
    pub fn to_json(&self) -> J {
        match self {
            ClauseSpec::Single { m, entry, pat } => J::obj()
                .set("m", m.name())
                .set(
                    "entry",
                    match entry {
                        Entry::SomeCall => "some_call",
                        Entry::EachCall => "each_call",
                        Entry::NextCall => "next_call",
                    },
                )
                .set("pat", pat.to_json()),
            ClauseSpec::Stub { m, pats } => J::obj()
                .set("m", m.name())
                .set("entry", "stub")
                .set("pats", J::Arr(pats.iter().map(|p| p.to_json()).collect())),
        }
    }
    pub fn from_json(j: &J) -> Option<ClauseSpec> {
        let m = M::from_name(j.get("m")?.as_str()?)?;
        match j.get("entry")?.as_str()? {
            "stub" => {
                let mut pats = vec![];
                for p in j.get("pats")?.as_arr()? {
                    pats.push(PatSpec::from_json(p)?);
                }
                Some(ClauseSpec::Stub { m, pats })
            }
            e => {
                let entry = match e {
                    "some_call" => Entry::SomeCall,
                    "each_call" => Entry::EachCall,
                    "next_call" => Entry::NextCall,
                    _ => return None,
                };
                Some(ClauseSpec::Single {
                    m,
                    entry,
                    pat: PatSpec::from_json(j.get("pat")?)?,
                })
            }
        }
    }
}

impl Config {
    pub fn to_json(&self) -> J {
        J::obj().set("partial", self.partial).set(
            "clauses",
            J::Arr(self.clauses.iter().map(|c| c.to_json()).collect()),
        )
    }
    pub fn from_json(j: &J) -> Option<Config> {
        let mut clauses = vec![];
        for c in j.get("clauses")?.as_arr()? {
            clauses.push(ClauseSpec::from_json(c)?);
        }
        Some(Config {
            partial: j.get("partial")?.as_bool()?,
            clauses,
        })
    }
}

// ---------------------------------------------------------------------------------------------
// Building real clauses
// ---------------------------------------------------------------------------------------------

/// `matching!` invocation selected by mask. All eight sub-patterns of one invocation report the
/// *same* source line (that of the `by_mask!` call), therefore every (entry, position) pair below
/// has its own line and a pattern is identified by (path, line, pattern text).
macro_rules! by_mask {
    ($recv:expr, $entry:ident, $mask:expr) => {
        match $mask & 7 {
            0 => $recv.$entry(matching!(3)),
            1 => $recv.$entry(matching!(0)),
            2 => $recv.$entry(matching!(1)),
            // the disjunctive form (top-level alternatives), not an or-pattern
            3 => $recv.$entry(matching!((0) | (1))),
            4 => $recv.$entry(matching!(2)),
            5 => $recv.$entry(matching!(0 | 2)),
            6 => $recv.$entry(matching!((2) | (1))),
            _ => $recv.$entry(matching!(_)),
        }
    };
}

pub const MAX_POS: usize = 6;

/// Special "masks": a matcher that panics (user code), and a pattern without matcher function.
/// A hand-written matcher that accepts exactly {0} and, when it rejects, reports the mismatch
/// through the reporter it is handed - whether or not diagnostics are being collected.
pub const MASK_REPORTING_MATCHER: u8 = 253;
/// A hand-written disjunctive matcher accepting {0, 1}: for 1 it first reports that the
/// alternative "0" did not fit and then accepts by the alternative "1"; for 2 it reports and rejects.
pub const MASK_REPORTING_ACCEPTING_MATCHER: u8 = 252;
pub const MASK_PANICKING_MATCHER: u8 = 254;
pub const MASK_NO_MATCHER_FN: u8 = 255;

/// `answers_arc` ids in VIA_REF_ANSWER_ID..LENDING_ANSWER_ID produce their value through a reference
/// lent by the instance they run on (`*u.make_ref(id + x) - x`): a call that is handed another
/// call's lent value answers with a wrong number.
pub const VIA_REF_ANSWER_ID: u32 = 7000;

/// `answers_arc` ids in LENDING_ANSWER_ID..PANICKING_ANSWER_ID additionally lend a clone of the mock
/// (`u.make_ref(u.clone())`).
pub const LENDING_ANSWER_ID: u32 = 8000;

/// Answer ids from this value on panic instead of answering (user panic).
pub const PANICKING_ANSWER_ID: u32 = 9000;

macro_rules! special_or {
    ($recv:expr, $entry:ident, $mask:expr, $normal:expr) => {
        if $mask == MASK_NO_MATCHER_FN {
            $recv.$entry(&|_m| {})
        } else if $mask == MASK_PANICKING_MATCHER {
            $recv.$entry(&|m| {
                m.func(|_, _| panic!("{}", USER_PANIC_MATCHER));
            })
        } else if $mask == MASK_REPORTING_ACCEPTING_MATCHER {
            $recv.$entry(&|m| {
                m.func(|x, reporter| {
                    if *x == 0 {
                        return true;
                    }
                    reporter.pat_fail(0, Some(format!("{x}")), Some("0"));
                    *x == 1
                });
            })
        } else if $mask == MASK_REPORTING_MATCHER {
            $recv.$entry(&|m| {
                m.func(|x, reporter| {
                    if *x == 0 {
                        true
                    } else {
                        reporter.pat_fail(0, Some(format!("{x}")), Some("0"));
                        false
                    }
                });
            })
        } else {
            $normal
        }
    };
}

fn start_some<F: UF>(f: F, pos: usize, mask: u8) -> DefineResponse<'static, F, InAnyOrder> {
    if mask >= MASK_REPORTING_ACCEPTING_MATCHER {
        return special_or!(f, some_call, mask, unreachable!());
    }
    match pos {
        0 => by_mask!(f, some_call, mask),
        1 => by_mask!(f, some_call, mask),
        2 => by_mask!(f, some_call, mask),
        3 => by_mask!(f, some_call, mask),
        4 => by_mask!(f, some_call, mask),
        5 => by_mask!(f, some_call, mask),
        _ => panic!("harness: position {pos} out of range"),
    }
}

fn start_each<F: UF>(f: F, pos: usize, mask: u8) -> DefineMultipleResponses<'static, F, InAnyOrder> {
    if mask >= MASK_REPORTING_ACCEPTING_MATCHER {
        return special_or!(f, each_call, mask, unreachable!());
    }
    match pos {
        0 => by_mask!(f, each_call, mask),
        1 => by_mask!(f, each_call, mask),
        2 => by_mask!(f, each_call, mask),
        3 => by_mask!(f, each_call, mask),
        4 => by_mask!(f, each_call, mask),
        5 => by_mask!(f, each_call, mask),
        _ => panic!("harness: position {pos} out of range"),
    }
}

fn start_next<F: UF>(f: F, pos: usize, mask: u8) -> DefineResponse<'static, F, InOrder> {
    if mask >= MASK_REPORTING_ACCEPTING_MATCHER {
        return special_or!(f, next_call, mask, unreachable!());
    }
    match pos {
        0 => by_mask!(f, next_call, mask),
        1 => by_mask!(f, next_call, mask),
        2 => by_mask!(f, next_call, mask),
        3 => by_mask!(f, next_call, mask),
        4 => by_mask!(f, next_call, mask),
        5 => by_mask!(f, next_call, mask),
        _ => panic!("harness: position {pos} out of range"),
    }
}

fn start_stub<'e, F: UF>(
    each: &'e mut Each<F>,
    pos: usize,
    mask: u8,
) -> DefineMultipleResponses<'e, F, InAnyOrder> {
    if mask >= MASK_REPORTING_ACCEPTING_MATCHER {
        return special_or!(each, call, mask, unreachable!());
    }
    match pos {
        0 => by_mask!(each, call, mask),
        1 => by_mask!(each, call, mask),
        2 => by_mask!(each, call, mask),
        3 => by_mask!(each, call, mask),
        4 => by_mask!(each, call, mask),
        5 => by_mask!(each, call, mask),
        _ => panic!("harness: position {pos} out of range"),
    }
}

/// Where finished terminal clauses go.
trait Sinker<'p> {
    fn take<C: Clause + 'p>(&mut self, clause: C);
}

struct ToDyn<'a>(&'a mut DynClause);

impl Sinker<'static> for ToDyn<'_> {
    fn take<C: Clause + 'static>(&mut self, clause: C) {
        self.0.push(clause);
    }
}

/// Inside a stub the builder objects are simply dropped (the `Each` owns the patterns).
struct DropIt;

impl<'p> Sinker<'p> for DropIt {
    fn take<C: Clause + 'p>(&mut self, clause: C) {
        #[allow(clippy::drop_non_drop)]
        drop(clause);
    }
}

/// Ordering-specific operations (`at_least_times` only exists for unordered patterns). The
/// finished clause goes straight to the sink, so that the harness does not name the builder's
/// result type (a change of the type-state must show up in the checks, not break the harness).
trait OrdX: Ordering + Copy + 'static {
    fn at_least<'p, F: UF, S: Sinker<'p>>(q: Quantify<'p, F, Self>, n: usize, sink: &mut S);
    fn at_least_rv<'p, F: UF, S: Sinker<'p>>(
        q: QuantifyReturnValue<'p, F, u32, Self>,
        n: usize,
        sink: &mut S,
    );
}

impl OrdX for InAnyOrder {
    fn at_least<'p, F: UF, S: Sinker<'p>>(q: Quantify<'p, F, Self>, n: usize, sink: &mut S) {
        sink.take(q.at_least_times(n))
    }
    fn at_least_rv<'p, F: UF, S: Sinker<'p>>(
        q: QuantifyReturnValue<'p, F, u32, Self>,
        n: usize,
        sink: &mut S,
    ) {
        sink.take(q.at_least_times(n))
    }
}

impl OrdX for InOrder {
    fn at_least<'p, F: UF, S: Sinker<'p>>(_: Quantify<'p, F, Self>, _: usize, _: &mut S) {
        panic!("harness: at_least_times is not available on ordered patterns")
    }
    fn at_least_rv<'p, F: UF, S: Sinker<'p>>(
        _: QuantifyReturnValue<'p, F, u32, Self>,
        _: usize,
        _: &mut S,
    ) {
        panic!("harness: at_least_times is not available on ordered patterns")
    }
}

thread_local! {
    static STATIC_ANSWERS: std::cell::RefCell<BTreeMap<u32, &'static UAnswerFn>> =
        const { std::cell::RefCell::new(BTreeMap::new()) };
}

/// A `&'static` answer closure yielding `id` (leaked once per distinct id and thread).
fn static_answer(id: u32) -> &'static UAnswerFn {
    STATIC_ANSWERS.with(|m| {
        *m.borrow_mut().entry(id).or_insert_with(|| {
            let f: Box<UAnswerFn> = Box::new(move |_u, x| {
                log(LogEv::Answer(id, x));
                if id >= PANICKING_ANSWER_ID {
                    panic!("{}", USER_PANIC_ANSWER);
                }
                id
            });
            Box::leak(f)
        })
    })
}

fn arc_answer(id: u32) -> Arc<UAnswerFn> {
    Arc::new(move |u: &Unimock, x: u8| {
        log(LogEv::Answer(id, x));
        if (LENDING_ANSWER_ID..PANICKING_ANSWER_ID).contains(&id) {
            // the answer parks a derived instance in the value chain of the instance it runs on
            #[cfg(not(feature = "nolock"))]
            let _lent: &Unimock = u.make_ref(u.clone());
        }
        if id >= PANICKING_ANSWER_ID {
            panic!("{}", USER_PANIC_ANSWER);
        }
        if (VIA_REF_ANSWER_ID..LENDING_ANSWER_ID).contains(&id) {
            let lent: &u32 = u.make_ref(id + x as u32);
            return *lent - x as u32;
        }
        id
    })
}

pub fn panic_msg(id: u32) -> String {
    format!("boom{id}")
}

/// The response methods shared by `DefineResponse` and `DefineMultipleResponses`.
macro_rules! apply_common {
    ($d:expr, $resp:expr) => {
        match $resp {
            Resp::RetDefault => $d.returns_default(),
            Resp::Ans(id) => $d.answers(static_answer(id)),
            Resp::AnsArc(id) => $d.answers_arc(arc_answer(id)),
            Resp::Panics(id) => $d.panics(panic_msg(id)),
            Resp::Unmock => $d.applies_unmocked(),
            Resp::DefaultImpl => $d.applies_default_impl(),
            Resp::Ret(_) => unreachable!(),
        }
    };
}

fn quantify<'p, F: UF, O: OrdX, S: Sinker<'p>>(
    q: Quantify<'p, F, O>,
    quant: Quant,
    rest: &[Seg],
    sink: &mut S,
) {
    match quant {
        Quant::Open => {
            assert!(rest.is_empty(), "harness: open segment must be last");
            sink.take(q)
        }
        Quant::Once => after_exact(q.once(), rest, sink),
        Quant::N(n) => after_exact(q.n_times(n), rest, sink),
        Quant::AtLeast(n) => {
            assert!(rest.is_empty(), "harness: at-least segment must be last");
            O::at_least(q, n, sink)
        }
    }
}

fn after_exact<'p, F: UF, O: OrdX, S: Sinker<'p>>(
    r: QuantifiedResponse<'p, F, O, Exact>,
    rest: &[Seg],
    sink: &mut S,
) {
    if rest.is_empty() {
        sink.take(r)
    } else {
        // whichever builder stage `then()` hands back (the harness does not name it)
        r.then().chain(rest, sink)
    }
}

/// A builder stage that can take the next response segment.
trait Chain<'p> {
    fn chain<S: Sinker<'p>>(self, segs: &[Seg], sink: &mut S);
}

impl<'p, F: UF, O: OrdX> Chain<'p> for DefineMultipleResponses<'p, F, O> {
    fn chain<S: Sinker<'p>>(self, segs: &[Seg], sink: &mut S) {
        chain_multi(self, segs, sink)
    }
}

impl<'p, F: UF, O: OrdX> Chain<'p> for DefineResponse<'p, F, O> {
    fn chain<S: Sinker<'p>>(self, segs: &[Seg], sink: &mut S) {
        chain_first(self, segs, sink)
    }
}

fn chain_multi<'p, F: UF, O: OrdX, S: Sinker<'p>>(
    d: DefineMultipleResponses<'p, F, O>,
    segs: &[Seg],
    sink: &mut S,
) {
    let seg = segs[0];
    let q = match seg.resp {
        Resp::Ret(id) => d.returns(id),
        other => apply_common!(d, other),
    };
    quantify(q, seg.quant, &segs[1..], sink)
}

fn chain_first<'p, F: UF, O: OrdX, S: Sinker<'p>>(
    d: DefineResponse<'p, F, O>,
    segs: &[Seg],
    sink: &mut S,
) {
    let seg = segs[0];
    let rest = &segs[1..];
    match seg.resp {
        Resp::Ret(id) => {
            let q = d.returns(id);
            match seg.quant {
                Quant::Open => {
                    assert!(rest.is_empty());
                    sink.take(q)
                }
                Quant::Once => after_exact(q.once(), rest, sink),
                Quant::N(n) => after_exact(q.n_times(n), rest, sink),
                Quant::AtLeast(n) => {
                    assert!(rest.is_empty());
                    O::at_least_rv(q, n, sink)
                }
            }
        }
        other => {
            let q = apply_common!(d, other);
            quantify(q, seg.quant, rest, sink)
        }
    }
}

fn push_single<F: UF>(f: F, entry: Entry, pos: usize, pat: &PatSpec, out: &mut DynClause) {
    assert!(!pat.segs.is_empty(), "harness: single clause needs a response");
    match entry {
        Entry::SomeCall => chain_first(start_some(f, pos, pat.mask), &pat.segs, &mut ToDyn(out)),
        Entry::EachCall => chain_multi(start_each(f, pos, pat.mask), &pat.segs, &mut ToDyn(out)),
        Entry::NextCall => chain_first(start_next(f, pos, pat.mask), &pat.segs, &mut ToDyn(out)),
    }
}

fn push_stub<F: UF>(f: F, first_pos: usize, pats: &[PatSpec], out: &mut DynClause) {
    let each = f.stub(|each| {
        for (i, pat) in pats.iter().enumerate() {
            let d = start_stub(each, (first_pos + i) % MAX_POS, pat.mask);
            if pat.segs.is_empty() {
                // a call pattern without any response
                let _ = d;
            } else {
                chain_multi(d, &pat.segs, &mut DropIt);
            }
        }
    });
    out.push(each);
}

/// Translate the clause specs into one real clause. Position numbers (which select the source
/// line of the `matching!` invocation) count the patterns of the same method, left to right
/// (modulo MAX_POS: lists longer than that reuse lines, which only matters for pattern *names*).
pub fn build_clause(clauses: &[ClauseSpec]) -> DynClause {
    let mut items: Vec<DynClause> = vec![];
    let mut next_pos: BTreeMap<M, usize> = BTreeMap::new();
    for clause in clauses {
        let mut out = DynClause::new();
        match clause {
            ClauseSpec::Single { m, entry, pat } => {
                let pos = next_pos.entry(*m).or_insert(0);
                let p = *pos;
                *pos += 1;
                crate::with_mockfn!(*m, push_single(*entry, p % MAX_POS, pat, &mut out));
            }
            ClauseSpec::Stub { m, pats } => {
                let pos = next_pos.entry(*m).or_insert(0);
                let p = *pos;
                *pos += pats.len();
                crate::with_mockfn!(*m, push_stub(p, pats, &mut out));
            }
        }
        items.push(out);
    }
    compose(items)
}

/// Compose clauses through unimock's own tuple implementations: n <= 16 clauses become one real
/// n-tuple, longer lists become a tuple of 16-tuples (and so on). The run-time-length list of the
/// hooks (H1) only erases the element types.
pub fn compose(items: Vec<DynClause>) -> DynClause {
    if items.len() > 16 {
        let mut chunks: Vec<DynClause> = vec![];
        let mut it = items.into_iter().peekable();
        while it.peek().is_some() {
            chunks.push(compose(it.by_ref().take(16).collect()));
        }
        return compose(chunks);
    }
    let n = items.len();
    let mut it = items.into_iter();
    let mut out = DynClause::new();
    macro_rules! tuple_of {
        ($($x:ident)+) => {{
            $(let $x = it.next().unwrap();)+
            out.push(($($x),+));
        }};
    }
    match n {
        0 => out.push(()),
        1 => out.push(it.next().unwrap()),
        2 => tuple_of!(a b),
        3 => tuple_of!(a b c),
        4 => tuple_of!(a b c d),
        5 => tuple_of!(a b c d e),
        6 => tuple_of!(a b c d e f),
        7 => tuple_of!(a b c d e f g),
        8 => tuple_of!(a b c d e f g h),
        9 => tuple_of!(a b c d e f g h i),
        10 => tuple_of!(a b c d e f g h i j),
        11 => tuple_of!(a b c d e f g h i j k),
        12 => tuple_of!(a b c d e f g h i j k l),
        13 => tuple_of!(a b c d e f g h i j k l m),
        14 => tuple_of!(a b c d e f g h i j k l m n2),
        15 => tuple_of!(a b c d e f g h i j k l m n2 o),
        _ => tuple_of!(a b c d e f g h i j k l m n2 o p),
    }
    out
}

/// Build the real mock for a configuration. Construction may panic (invalid setups).
pub fn build_mock(config: &Config) -> Unimock {
    let clause = build_clause(&config.clauses);
    if config.partial {
        Unimock::new_partial(clause)
    } else {
        Unimock::new(clause)
    }
}

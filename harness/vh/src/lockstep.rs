//! Engine S core: run one history on a fresh real mock in lock-step with the reference model.

use unimock::verif::Snapshot;
use unimock::Unimock;

use crate::json::J;
use crate::model::*;
use crate::obs::*;
use crate::spec::*;
use crate::universe::*;

/// One call of a history: method, argument, and the instance it is routed through
/// (low 7 bits of `via`: 0 = original, k = k-th clone; bit 7: the call is made on a scoped thread
/// spawned for it, where its panic propagates to the thread boundary instead of being caught).
#[derive(Clone, Copy, Debug, PartialEq, Eq, PartialOrd, Ord, Hash)]
pub struct Call {
    pub m: M,
    pub x: u8,
    pub via: u8,
}

impl Call {
    pub fn new(m: M, x: u8) -> Call {
        Call { m, x, via: 0 }
    }
    pub fn to_json(&self) -> J {
        J::Str(format!("{}({})@{}", self.m.name(), self.x, self.via))
    }
    pub fn from_json(j: &J) -> Option<Call> {
        let s = j.as_str()?;
        let (name, rest) = s.split_once('(')?;
        let (x, via) = rest.split_once(")@")?;
        Some(Call {
            m: M::from_name(name)?,
            x: x.parse().ok()?,
            via: via.parse().ok()?,
        })
    }
}

pub fn history_to_json(h: &[Call]) -> J {
    J::Arr(h.iter().map(|c| c.to_json()).collect())
}

pub fn history_from_json(j: &J) -> Option<Vec<Call>> {
    j.as_arr()?.iter().map(Call::from_json).collect()
}

#[derive(Clone, Copy, Debug)]
pub struct RunOpts {
    /// compare the real per-pattern counters with the model after every step
    pub counts_each_step: bool,
    /// how to verify the original at the end (None = drop it and ignore the verdict)
    pub verify: Option<VerifyHow>,
    /// whether this feature set can store single-use values
    pub has_mutex: bool,
    /// stop at the first step whose outcome the model leaves unspecified
    pub stop_at_unspecified: bool,
    /// compare the slot ranges of ordered patterns right after construction (C04's business)
    pub check_ranges: bool,
    /// compare the count expectations right after construction (C03's business)
    pub check_expectations: bool,
    /// call `no_verify_in_drop()` on the original right after construction (clones made later
    /// inherit the flag); an explicit `verify()` / `report()` at the end judges all the same
    pub no_verify_in_drop_first: bool,
    /// which predictions are in the scope of the property being checked: for a step outside the
    /// scope only "no pattern's stored response was fabricated" is checked (plus counters)
    pub in_scope: fn(&Pred) -> bool,
}

pub fn all_in_scope(_: &Pred) -> bool {
    true
}

impl Default for RunOpts {
    fn default() -> Self {
        RunOpts {
            counts_each_step: true,
            verify: None,
            has_mutex: true,
            stop_at_unspecified: false,
            check_ranges: false,
            check_expectations: false,
            no_verify_in_drop_first: false,
            in_scope: all_in_scope,
        }
    }
}

#[derive(Clone, Debug)]
pub struct RunOut {
    pub preds: Vec<Pred>,
    pub steps: Vec<Step>,
    pub model: Model,
    /// messages of the observed panics that the model classifies as mock-induced
    pub mock_panics: Vec<String>,
    pub verdict: Option<Verdict>,
    /// snapshot taken right after construction (pattern names)
    pub names: Snapshot,
    /// snapshot taken before verification
    pub final_snap: Snapshot,
    /// a mock-induced panic happened on the original instance (without `std` this deliberately
    /// disables its verification)
    pub original_panicked: bool,
}

#[derive(Clone, Debug)]
pub struct Fail {
    /// which check failed (stable, used in violation keys)
    pub kind: &'static str,
    /// index of the failing step, if any
    pub step: Option<usize>,
    pub what: String,
}

fn fail(kind: &'static str, step: Option<usize>, what: String) -> Fail {
    Fail { kind, step, what }
}

/// Light comparison of counters (no string formatting).
pub fn check_counters(model: &Model, u: &Unimock) -> Result<(), String> {
    let (methods, ordered_index) = unimock::verif::counters(u);
    if methods.len() != model.methods.len() {
        return Err(format!(
            "method table has {} entries, model {}",
            methods.len(),
            model.methods.len()
        ));
    }
    for (m, pats) in &model.methods {
        let Some((_, _, counts)) = methods
            .iter()
            .find(|(t, f, _)| m.path().split_once("::") == Some((t, f)))
        else {
            return Err(format!("method {} missing from the real mock", m.path()));
        };
        if counts.len() != pats.len() {
            return Err(format!(
                "{}: {} patterns, model {}",
                m.path(),
                counts.len(),
                pats.len()
            ));
        }
        for (i, (rc, mp)) in counts.iter().zip(pats).enumerate() {
            if *rc != mp.count {
                return Err(format!(
                    "{}[{i}]: match count {} but the model says {}",
                    m.path(),
                    rc,
                    mp.count
                ));
            }
        }
    }
    if ordered_index != model.ordered_index {
        return Err(format!(
            "ordered index {} but the model says {}",
            ordered_index, model.ordered_index
        ));
    }
    Ok(())
}

/// Build the mock for `config`, run `history` against it and the model, compare every step.
pub fn run_history(config: &Config, history: &[Call], opts: RunOpts) -> Result<RunOut, Fail> {
    let mut model = match Model::build(config, opts.has_mutex) {
        Ok(m) => m,
        Err(e) => {
            return Err(fail(
                "harness",
                None,
                format!("configuration is not constructible in the model: {e:?}"),
            ))
        }
    };
    let original = match catch(|| build_mock(config)) {
        Ok(u) => u,
        Err(msg) => {
            return Err(fail(
                "construction",
                None,
                format!("constructing the mock panicked: {msg}"),
            ))
        }
    };
    let names = unimock::verif::snapshot(&original);
    if let Err(what) = check_assembly(&model, &names, opts.check_ranges, opts.check_expectations) {
        let _ = catch(move || drop(original));
        return Err(fail("assembly", None, what));
    }
    model.user_panic_arg = user_panic_arg();
    let original = if opts.no_verify_in_drop_first {
        original.no_verify_in_drop()
    } else {
        original
    };
    let n_clones = history.iter().map(|c| c.via & 0x7f).max().unwrap_or(0) as usize;
    let clones: Vec<Unimock> = (0..n_clones).map(|_| original.clone()).collect();

    let mut preds = vec![];
    let mut steps = vec![];
    let mut mock_panics = vec![];
    let mut failure = None;
    let mut original_panicked = false;
    for (i, c) in history.iter().enumerate() {
        let pred = model.call(c.m, c.x);
        if opts.stop_at_unspecified && matches!(pred, Pred::Unspecified(_)) {
            // undo nothing: the real call is not made, the model state is discarded by the caller
            preds.push(pred);
            break;
        }
        let inst = if c.via & 0x7f == 0 {
            &original
        } else {
            &clones[(c.via & 0x7f) as usize - 1]
        };
        let step = if c.via & 0x80 != 0 {
            observe_call_on_thread(inst, c.m, c.x)
        } else {
            observe_call(inst, c.m, c.x)
        };
        if c.via & 0x7f == 0 && matches!(pred, Pred::MockPanic(..)) {
            original_panicked = true;
        }
        if (opts.in_scope)(&pred) {
            if let Err(what) = check_step(&pred, c.m, c.x, &step, &names) {
                failure = Some(fail("step", Some(i), what));
            }
        } else if let Obs::Value(v) = &step.obs {
            // out of scope: only make sure no pattern's stored response was handed out
            if config_response_ids(config).contains(v) {
                failure = Some(fail(
                    "step",
                    Some(i),
                    format!("no pattern applies to this call, yet the stored response {v} was returned"),
                ));
            }
        }
        if let (Pred::MockPanic(..), Obs::Panic(msg)) = (&pred, &step.obs) {
            mock_panics.push(msg.clone());
        }
        if let (Pred::Unspecified(_), Obs::Panic(msg)) = (&pred, &step.obs) {
            if classify(msg) != PanicClass::Other {
                mock_panics.push(msg.clone());
                if c.via & 0x7f == 0 {
                    original_panicked = true;
                }
            }
        }
        preds.push(pred);
        steps.push(step);
        if failure.is_none() && opts.counts_each_step {
            if let Err(what) = check_counters(&model, &original) {
                failure = Some(fail("counts", Some(i), what));
            }
        }
        if failure.is_some() {
            break;
        }
    }
    drop(clones);
    let final_snap = unimock::verif::snapshot(&original);
    if failure.is_none() {
        if let Err(what) = check_counts(&model, &final_snap) {
            failure = Some(fail("counts", None, what));
        }
    }
    let verdict = match opts.verify {
        Some(how) => Some(verify_by(original, how)),
        None => {
            let _ = catch(move || drop(original));
            None
        }
    };
    if let Some(f) = failure {
        return Err(f);
    }
    Ok(RunOut {
        preds,
        steps,
        model,
        mock_panics,
        verdict,
        names,
        final_snap,
        original_panicked,
    })
}

/// All ids used by `returns` / `answers` responses of a configuration.
pub fn config_response_ids(config: &Config) -> Vec<u32> {
    let mut ids = vec![];
    for clause in &config.clauses {
        let pats: Vec<&PatSpec> = match clause {
            ClauseSpec::Single { pat, .. } => vec![pat],
            ClauseSpec::Stub { pats, .. } => pats.iter().collect(),
        };
        for p in pats {
            for s in &p.segs {
                match s.resp {
                    Resp::Ret(id) | Resp::Ans(id) | Resp::AnsArc(id) => ids.push(id),
                    _ => {}
                }
            }
        }
    }
    ids
}

/// The C03 / C08 oracle for the verdict of verifying the original after a history.
pub fn check_verdict(out: &RunOut) -> Result<(), String> {
    let Some(verdict) = &out.verdict else {
        return Ok(());
    };
    // A call beyond the end of an exactly quantified chain has an unspecified *response* (it may
    // even be refused with a mock-induced panic), but it matched its pattern: the count is defined,
    // and so is the verdict - the recorded errors if it was refused, the expectation lines if not.
    if !cfg!(feature = "std") && out.original_panicked {
        // no_std: a mock-induced panic on the original disables its verification (documented):
        // whatever happened before or after, verifying it is silent - in particular it does not
        // panic a second time
        return match verdict {
            Verdict::Silent => Ok(()),
            Verdict::Failed(lines) => Err(format!(
                "without std a mock-induced panic on the original disables its verification, yet verifying it failed with {lines:?}"
            )),
        };
    }
    if !out.model.errors.is_empty() || !out.mock_panics.is_empty() {
        // C08: verification fails and carries the text of every mock-induced panic
        let Verdict::Failed(lines) = verdict else {
            return Err(format!(
                "{} mock-induced panic(s) happened but verification was silent",
                out.mock_panics.len().max(out.model.errors.len())
            ));
        };
        let text = lines.join("\n");
        let mut from = 0;
        for msg in &out.mock_panics {
            let msg = msg.trim_end();
            match text[from..].find(msg) {
                Some(pos) => from += pos + msg.len(),
                None => {
                    return Err(format!(
                        "verification message lacks (in order) the recorded error {msg:?}; got {text:?}"
                    ))
                }
            }
        }
        return Ok(());
    }
    let mut expected: Vec<String> = out
        .model
        .expectation_failures()
        .iter()
        .map(|f| expected_line(f, &out.names))
        .collect();
    expected.sort();
    let mut observed = match verdict {
        Verdict::Silent => vec![],
        Verdict::Failed(lines) => lines.clone(),
    };
    observed.sort();
    if expected != observed {
        return Err(format!(
            "verification lines differ: expected {expected:?}, observed {observed:?}"
        ));
    }
    Ok(())
}

/// Replay-file form of a (config, history) case.
pub fn case_json(config: &Config, history: &[Call]) -> J {
    J::obj()
        .set("config", config.to_json())
        .set("history", history_to_json(history))
}

pub fn case_from_json(j: &J) -> Option<(Config, Vec<Call>)> {
    Some((
        Config::from_json(j.get("config")?)?,
        history_from_json(j.get("history")?)?,
    ))
}

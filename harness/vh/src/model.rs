//! Reference model of the unimock runtime (DESIGN.md §0.1). Deliberately boring: vectors and
//! integers. It is the *oracle*; the real code is what gets explored.

use std::collections::BTreeMap;

use crate::spec::*;
use crate::universe::*;

#[derive(Clone, Copy, Debug, PartialEq, Eq, PartialOrd, Ord, Hash)]
pub enum Exactness {
    Exact,
    AtLeast,
    AtLeastPlusOne,
}

impl Exactness {
    pub fn name(self) -> &'static str {
        match self {
            Exactness::Exact => "Exact",
            Exactness::AtLeast => "AtLeast",
            Exactness::AtLeastPlusOne => "AtLeastPlusOne",
        }
    }
}

/// Classes of mock-induced panics, recognised by the stable sentence of each error.
#[derive(Clone, Copy, Debug, PartialEq, Eq, PartialOrd, Ord, Hash)]
pub enum PanicClass {
    NoMockImpl,
    NoMatch,
    NoOutput,
    WrongOrder,
    OutOfRange,
    InputsNotMatched,
    MoreThanOnce,
    Explicit,
    CannotUnmock,
    NoDefaultImpl,
    NoMatcherFn,
    /// not one of unimock's call-time errors
    Other,
}

pub fn classify(msg: &str) -> PanicClass {
    use PanicClass::*;
    let table: [(&str, PanicClass); 11] = [
        ("No mock implementation found.", NoMockImpl),
        ("No matching call patterns.", NoMatch),
        ("No output available for after matching", NoOutput),
        ("Method matched in wrong order. Expected a call matching", WrongOrder),
        ("out of range: There were no more ordered call patterns in line for selection", OutOfRange),
        ("but inputs didn't match", InputsNotMatched),
        ("Cannot return value more than once from", MoreThanOnce),
        ("Explicit panic from", Explicit),
        ("cannot be unmocked as there is no function available to call", CannotUnmock),
        ("has not been set up with default implementation delegation", NoDefaultImpl),
        ("No function supplied for matching inputs for", NoMatcherFn),
    ];
    for (needle, class) in table {
        if msg.contains(needle) {
            return class;
        }
    }
    Other
}

#[derive(Clone, Debug, PartialEq, Eq, PartialOrd, Ord, Hash)]
pub struct MResponder {
    pub start: usize,
    pub resp: Resp,
    pub single_use: bool,
    pub taken: bool,
}

#[derive(Clone, Debug, PartialEq, Eq, PartialOrd, Ord, Hash)]
pub struct MPattern {
    pub mask: u8,
    pub ordered: bool,
    pub responders: Vec<MResponder>,
    pub min: usize,
    pub exact: Exactness,
    /// sum of all quantifier counts (end of the last quantified segment)
    pub chain_end: usize,
    /// whether the last segment is open-ended (unquantified or at-least)
    pub open_ended: bool,
    pub range: (usize, usize),
    pub count: usize,
    /// index of the clause this pattern came from
    pub clause: usize,
}

impl MPattern {
    pub fn accepts(&self, x: u8) -> bool {
        if self.mask == MASK_REPORTING_MATCHER {
            return x == 0;
        }
        if self.mask == MASK_REPORTING_ACCEPTING_MATCHER {
            return x <= 1;
        }
        self.mask < 8 && x < 3 && (self.mask >> x) & 1 == 1
    }

    pub fn lower_bound(&self) -> usize {
        match self.exact {
            Exactness::Exact | Exactness::AtLeast => self.min,
            Exactness::AtLeastPlusOne => self.min + 1,
        }
    }

    /// `None` = expectation met, `Some((kind, bound))` = violated
    pub fn violation(&self) -> Option<(&'static str, usize)> {
        match self.exact {
            Exactness::Exact if self.count != self.min => Some(("exactly", self.min)),
            Exactness::AtLeast | Exactness::AtLeastPlusOne if self.count < self.lower_bound() => {
                Some(("at least", self.lower_bound()))
            }
            _ => None,
        }
    }
}

/// Identity of a pattern: (method, index in that method's list).
pub type PatId = (M, usize);

#[derive(Clone, Debug, PartialEq, Eq)]
pub enum Pred {
    /// a stored value is returned
    Value(u32),
    /// an answer closure with this id runs once with the caller's argument and its result returns
    Answer(u32),
    /// the registered real function runs once with the caller's argument
    Real(M),
    /// the trait's default body runs once with the caller's argument
    DefaultBody(M),
    /// the mock panics (and records the error)
    MockPanic(PanicClass, Option<PatId>),
    /// user-side code panics with this message; log = what ran before the panic
    UserPanic(&'static str, Vec<LogEv>),
    /// the call is counted for this pattern, but which response it gets is not specified
    /// (a match beyond the end of a chain whose last segment is exactly quantified)
    Unspecified(PatId),
}

#[derive(Clone, Debug, PartialEq, Eq)]
pub enum BuildError {
    MixedModes(M),
    EmptyStub(M),
    NoMutex(M),
}

#[derive(Clone, Debug, PartialEq, Eq, PartialOrd, Ord, Hash)]
pub struct Model {
    pub partial: bool,
    pub methods: BTreeMap<M, Vec<MPattern>>,
    pub ordered_index: usize,
    pub total_slots: usize,
    /// classes of the mock-induced panics so far, in order
    pub errors: Vec<PanicClass>,
    /// a call with unspecified outcome happened (recorded errors are then unknown)
    pub unspecified: bool,
    /// argument for which real functions / default bodies panic (user panic)
    pub user_panic_arg: Option<u8>,
}

pub fn pattern_from_spec(pat: &PatSpec, entry: Option<Entry>, clause: usize) -> MPattern {
    let ordered = entry == Some(Entry::NextCall);
    let via_define_response = matches!(entry, Some(Entry::SomeCall) | Some(Entry::NextCall));
    let mut min = 0;
    let mut exact = Exactness::AtLeast;
    let mut cur = 0;
    let mut responders = vec![];
    let n = pat.segs.len();
    let mut open_ended = n == 0;
    for (i, seg) in pat.segs.iter().enumerate() {
        let mut single_use = false;
        if i == 0 && via_define_response {
            if let Resp::Ret(_) = seg.resp {
                single_use = matches!(seg.quant, Quant::Open | Quant::Once);
            }
        }
        responders.push(MResponder {
            start: cur,
            resp: seg.resp,
            single_use,
            taken: false,
        });
        match seg.quant {
            Quant::Once => {
                min += 1;
                cur += 1;
                exact = Exactness::Exact;
            }
            Quant::N(k) => {
                min += k;
                cur += k;
                exact = Exactness::Exact;
            }
            Quant::AtLeast(k) => {
                min += k;
                cur += k;
                exact = Exactness::AtLeast;
                open_ended = true;
            }
            Quant::Open => {
                open_ended = true;
                if single_use {
                    // QuantifyReturnValue used as a clause == .once()
                    min += 1;
                    cur += 1;
                    exact = Exactness::Exact;
                    open_ended = false;
                } else if ordered {
                    // unquantified ordered clause == exactly one more
                    min += 1;
                    cur += 1;
                    exact = Exactness::Exact;
                    open_ended = false;
                }
            }
        }
        if i + 1 < n {
            // .then()
            exact = Exactness::AtLeastPlusOne;
        }
    }
    MPattern {
        mask: pat.mask,
        ordered,
        responders,
        min,
        exact,
        chain_end: cur,
        open_ended,
        range: (0, 0),
        count: 0,
        clause,
    }
}

impl Model {
    /// Assemble the model of a configuration; `has_mutex` = whether single-use values can be
    /// stored in this feature set.
    pub fn build(config: &Config, has_mutex: bool) -> Result<Model, BuildError> {
        let mut methods: BTreeMap<M, Vec<MPattern>> = BTreeMap::new();
        let mut slot = 0;
        for (ci, clause) in config.clauses.iter().enumerate() {
            let (m, pats): (M, Vec<MPattern>) = match clause {
                ClauseSpec::Single { m, entry, pat } => {
                    (*m, vec![pattern_from_spec(pat, Some(*entry), ci)])
                }
                ClauseSpec::Stub { m, pats } => {
                    if pats.is_empty() {
                        return Err(BuildError::EmptyStub(*m));
                    }
                    (
                        *m,
                        pats.iter().map(|p| pattern_from_spec(p, None, ci)).collect(),
                    )
                }
            };
            for mut p in pats {
                if !has_mutex && p.responders.iter().any(|r| r.single_use) {
                    return Err(BuildError::NoMutex(m));
                }
                if p.ordered {
                    p.range = (slot, slot + p.min);
                    slot += p.min;
                }
                let list = methods.entry(m).or_default();
                if let Some(first) = list.first() {
                    if first.ordered != p.ordered {
                        return Err(BuildError::MixedModes(m));
                    }
                }
                list.push(p);
            }
        }
        Ok(Model {
            partial: config.partial,
            methods,
            ordered_index: 0,
            total_slots: slot,
            errors: vec![],
            unspecified: false,
            user_panic_arg: None,
        })
    }

    fn unmock(&mut self, m: M, x: u8) -> Pred {
        if m.has_unmock_fn() {
            if self.user_panic_arg == Some(x) {
                return Pred::UserPanic(USER_PANIC_REAL, vec![LogEv::Real(m, x)]);
            }
            Pred::Real(m)
        } else {
            self.errors.push(PanicClass::CannotUnmock);
            Pred::MockPanic(PanicClass::CannotUnmock, None)
        }
    }

    fn default_body(&mut self, m: M, x: u8) -> Pred {
        if self.user_panic_arg == Some(x) {
            return Pred::UserPanic(USER_PANIC_DEFAULT, vec![LogEv::DefaultBody(m, x)]);
        }
        Pred::DefaultBody(m)
    }

    fn fail(&mut self, class: PanicClass, pat: Option<PatId>) -> Pred {
        self.errors.push(class);
        Pred::MockPanic(class, pat)
    }

    /// Owner (method, pattern index) of an ordered slot.
    pub fn slot_owner(&self, slot: usize) -> Option<PatId> {
        for (m, pats) in &self.methods {
            for (i, p) in pats.iter().enumerate() {
                if p.ordered && p.range.0 <= slot && slot < p.range.1 {
                    return Some((*m, i));
                }
            }
        }
        None
    }

    /// Predict the outcome of calling `m(x)` and advance the model state.
    pub fn call(&mut self, m: M, x: u8) -> Pred {
        let Some(pats) = self.methods.get(&m) else {
            return if m.has_default_body() {
                self.default_body(m, x)
            } else if self.partial {
                self.unmock(m, x)
            } else {
                self.fail(PanicClass::NoMockImpl, None)
            };
        };

        let ordered = pats[0].ordered;
        let index = if !ordered {
            match pats.iter().position(|p| p.accepts(x) || p.mask >= 254) {
                Some(i) if pats[i].mask == MASK_NO_MATCHER_FN => {
                    return self.fail(PanicClass::NoMatcherFn, Some((m, i)));
                }
                Some(i) if pats[i].mask == MASK_PANICKING_MATCHER => {
                    return Pred::UserPanic(USER_PANIC_MATCHER, vec![]);
                }
                Some(i) => i,
                None => {
                    return if self.partial {
                        self.unmock(m, x)
                    } else {
                        self.fail(PanicClass::NoMatch, None)
                    };
                }
            }
        } else {
            let slot = self.ordered_index;
            self.ordered_index += 1;
            match pats
                .iter()
                .position(|p| p.range.0 <= slot && slot < p.range.1)
            {
                None => {
                    return if self.slot_owner(slot).is_some() {
                        self.fail(PanicClass::WrongOrder, self.slot_owner(slot))
                    } else {
                        self.fail(PanicClass::OutOfRange, None)
                    };
                }
                Some(i) => {
                    if pats[i].mask == MASK_NO_MATCHER_FN {
                        return self.fail(PanicClass::NoMatcherFn, Some((m, i)));
                    }
                    if pats[i].mask == MASK_PANICKING_MATCHER {
                        return Pred::UserPanic(USER_PANIC_MATCHER, vec![]);
                    }
                    if !pats[i].accepts(x) {
                        return self.fail(PanicClass::InputsNotMatched, Some((m, i)));
                    }
                    i
                }
            }
        };

        let p = &mut self.methods.get_mut(&m).unwrap()[index];
        let k = p.count;
        p.count += 1;

        // governing responder: the last one (in declaration order) whose start <= k
        let Some(ri) = p.responders.iter().rposition(|r| r.start <= k) else {
            return self.fail(PanicClass::NoOutput, Some((m, index)));
        };
        let beyond_exact_end = !p.open_ended && k >= p.chain_end;
        let r = &mut p.responders[ri];
        match r.resp {
            Resp::Ret(id) => {
                if r.single_use {
                    if r.taken {
                        self.fail(PanicClass::MoreThanOnce, Some((m, index)))
                    } else {
                        r.taken = true;
                        Pred::Value(id)
                    }
                } else if beyond_exact_end {
                    self.unspecified = true;
                    Pred::Unspecified((m, index))
                } else {
                    Pred::Value(id)
                }
            }
            _ if beyond_exact_end => {
                // not specified which response governs; a mock-induced panic may or may not occur
                self.unspecified = true;
                Pred::Unspecified((m, index))
            }
            Resp::RetDefault => Pred::Value(0),
            Resp::Ans(id) | Resp::AnsArc(id) if id >= PANICKING_ANSWER_ID => {
                Pred::UserPanic(USER_PANIC_ANSWER, vec![LogEv::Answer(id, x)])
            }
            Resp::Ans(id) | Resp::AnsArc(id) => Pred::Answer(id),
            Resp::Panics(_) => self.fail(PanicClass::Explicit, Some((m, index))),
            Resp::Unmock => self.unmock(m, x),
            Resp::DefaultImpl => {
                if m.has_default_body() {
                    self.default_body(m, x)
                } else {
                    self.fail(PanicClass::NoDefaultImpl, None)
                }
            }
        }
    }

    /// Expected verification lines when no mock-induced panic happened: (pattern or method,
    /// kind, bound, actual). `None` pattern index = "never called" line for the method.
    pub fn expectation_failures(&self) -> Vec<ExpFail> {
        let mut out = vec![];
        for (m, pats) in &self.methods {
            let mut total = 0;
            for (i, p) in pats.iter().enumerate() {
                total += p.count;
                if let Some((kind, bound)) = p.violation() {
                    out.push(ExpFail::Count {
                        pat: (*m, i),
                        kind,
                        bound,
                        actual: p.count,
                    });
                }
            }
            if total == 0 {
                out.push(ExpFail::NeverCalled(*m));
            }
        }
        out
    }

    pub fn counts(&self) -> BTreeMap<PatId, usize> {
        let mut out = BTreeMap::new();
        for (m, pats) in &self.methods {
            for (i, p) in pats.iter().enumerate() {
                out.insert((*m, i), p.count);
            }
        }
        out
    }
}

#[derive(Clone, Debug, PartialEq, Eq, PartialOrd, Ord)]
pub enum ExpFail {
    Count {
        pat: PatId,
        kind: &'static str,
        bound: usize,
        actual: usize,
    },
    NeverCalled(M),
}

pub fn ncalls(n: usize) -> String {
    match n {
        0 => "no calls".to_string(),
        1 => "1 call".to_string(),
        n => format!("{n} calls"),
    }
}

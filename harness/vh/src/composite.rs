//! Composite output types: single-use responses are handed out once and then refused (never
//! replaced by a made-up value), repeatable ones are handed out every time (used by C02 and C07).

// ---------------------------------------------------------------------------------------------
// Composite outputs: single-use vs repeatable responses beyond plain integers
// ---------------------------------------------------------------------------------------------

use core::task::Poll;
use unimock::*;
use crate::explore::{Ctx, Stats};
use crate::obs::{catch, Quiet};

#[unimock(api = CompMock)]
pub trait Comp {
    fn opt(&self) -> Option<u32>;
    fn res(&self) -> Result<u32, u32>;
    fn vecs(&self) -> Vec<u32>;
    fn optres(&self) -> Option<Result<&u32, u32>>;
    fn poll(&self) -> Poll<Result<&u32, u32>>;
    fn tup(&self) -> (u32, &u32);
    fn text(&self) -> String;
}

/// One method with a value that contains an owned leaf: how to configure it through a path,
/// and how to request it (rendered for comparison).
macro_rules! cells_for {
    ($ctx:expr, $stats:expr, $name:literal, $f:ident, $value:expr) => {{
        for path in ["some", "some-once", "next", "each", "some-2x", "stub"] {
            let built = catch(|| match path {
                "some" => Unimock::new(CompMock::$f.some_call(matching!()).returns($value)),
                "some-once" => Unimock::new(CompMock::$f.some_call(matching!()).returns($value).once()),
                "next" => Unimock::new(CompMock::$f.next_call(matching!()).returns($value)),
                "each" => Unimock::new(CompMock::$f.each_call(matching!()).returns($value)),
                "some-2x" => Unimock::new(CompMock::$f.some_call(matching!()).returns($value).n_times(2)),
                _ => Unimock::new(CompMock::$f.stub(|each| {
                    each.call(matching!()).returns($value);
                })),
            });
            let cell = format!("composite/{}/{}", $name, path);
            $stats.add("composite_cells", 1);
            $stats.add("traces_validated_against_impl", 1);
            let u = match built {
                Ok(u) => Quiet::new(u.no_verify_in_drop()),
                Err(msg) => {
                    $ctx.violation(&cell, &format!("{cell}: construction panicked: {msg}"), crate::json::J::obj().set("composite_cell", cell.as_str()));
                    continue;
                }
            };
            let want = format!("{:?}", $value);
            // number of requests that must yield the configured value; the next one must panic
            // for a single-use path and yield the value again for a repeatable one
            let single_use = matches!(path, "some" | "some-once" | "next");
            for k in 0..3 {
                $stats.add("transitions", 1);
                let got = catch(|| format!("{:?}", <Unimock as Comp>::$f(&u)));
                let ok = match (&got, single_use, k) {
                    (Ok(v), _, 0) => *v == want,
                    (Ok(_), true, _) => false,
                    (Err(msg), true, _) => msg.contains("Comp::"),
                    (Ok(v), false, _) => *v == want,
                    (Err(_), false, _) => false,
                };
                if !ok {
                    $ctx.violation(
                        &cell,
                        &format!("{cell}: request {} gave {got:?}; configured value {want}, {}", k + 1, if single_use { "single-use: only the first request may yield it, later ones must panic" } else { "repeatable: every request yields it" }),
                        crate::json::J::obj().set("composite_cell", cell.as_str()),
                    );
                    break;
                }
            }
        }
    }};
}

pub fn cells(ctx: &Ctx, stats: &mut Stats) {
    cells_for!(ctx, stats, "Option<u32>/Some", opt, Some(7u32));
    cells_for!(ctx, stats, "Result<u32,u32>/Ok", res, Ok::<u32, u32>(7));
    cells_for!(ctx, stats, "Result<u32,u32>/Err", res, Err::<u32, u32>(8));
    cells_for!(ctx, stats, "Vec<u32>", vecs, vec![1u32, 2, 3]);
    cells_for!(ctx, stats, "Option<Result<&u32,u32>>/SomeErr", optres, Some(Err::<u32, u32>(9)));
    cells_for!(ctx, stats, "Poll<Result<&u32,u32>>/ReadyErr", poll, Poll::Ready(Err::<u32, u32>(9)));
    cells_for!(ctx, stats, "(u32,&u32)", tup, (4u32, 5u32));
    cells_for!(ctx, stats, "String", text, String::from("s"));
}

"""Which machinery decides which property."""
import vcommon
from vcommon import run_rust_check


def rust(level, quick_plan, thorough_plan=None, timeout=None):
    def run(pid, tier, replay, start):
        plan = quick_plan if tier == "quick" or thorough_plan is None else thorough_plan
        return run_rust_check(pid, tier, replay, start, level, plan, timeout=timeout)
    run.plans = (quick_plan, thorough_plan or quick_plan)
    return run


def gen(module):
    def run(pid, tier, replay, start):
        import importlib
        import os
        import sys
        sys.path.insert(0, os.path.join(vcommon.ROOT, "gen"))
        mod = importlib.import_module(module)
        return mod.run(pid, tier, replay, start)
    run.gen_module = module
    return run


# checks with a concurrent half explored by the controlled scheduler (engine T)
SCHEDULER_CHECKS = {"C08", "C10", "C12", "C13"}

CHECKS = {
    "C05": gen("c05"),
    "C16": gen("c16"),
    "C20": rust("exploration", [("bundled", "c20", [])]),
    "C19": gen("c19"),
    "C14": gen("c14"),
    "C17": gen("c17"),
    "C06": gen("c06"),
    "C15": gen("c15"),
    "C01": rust("model_checking", [("std", "c01", []), ("nostd", "c01", [])], [("std", "c01", []), ("nostd", "c01", [])]),
    "C02": rust("model_checking", [("std", "c02", []), ("nostd", "c02", [])], [("std", "c02", []), ("nostd", "c02", [])]),
    "C04": rust("model_checking", [("std", "c04", []), ("nostd", "c04", [])], [("std", "c04", []), ("nostd", "c04", [])]),
    "C07": rust("model_checking", [("std", "c07", []), ("nostd", "c07", []), ("std", "c07s", ["optional"])], [("std", "c07", []), ("nostd", "c07", []), ("std", "c07s", ["optional"])]),
    "C10": rust("model_checking", [("std", "c10", [])]),
    "C09": rust("model_checking", [("std", "c09", [])]),
    "C08": rust("model_checking", [("std", "c08", []), ("nostd", "c08", [])], [("std", "c08", []), ("nostd", "c08", [])]),
    "C18": rust("model_checking", [("std", "c18", [])]),
    "C12": gen("c12"),
    "C13": rust("model_checking", [("std", "c13", []), ("nostd", "c13", [])], [("std", "c13", []), ("nostd", "c13", [])]),
    "C11": rust("fault_enumeration", [("std", "c11", []), ("stdcs", "c11", [])]),
    "C03": rust("model_checking", [("std", "c03", []), ("nostd", "c03", [])], [("std", "c03", []), ("nostd", "c03", [])]),
}


def build_all():
    """Build every harness binary for every variant it is used in (setup)."""
    wanted = {"std": {"c12"}, "nostd": {"c12"}, "nolock": {"c14n"}}
    for pid, fn in CHECKS.items():
        plans = getattr(fn, "plans", None)
        if not plans:
            continue
        for plan in plans:
            for variant, binname, _ in plan:
                wanted.setdefault(variant, set()).add(binname)
    for variant, bins in wanted.items():
        vcommon.build(variant, sorted(bins))
    return 0

"""Interception audit for engine T.

The controlled scheduler sees exactly the operations of the instrumented synchronisation types
(verif::AtomicUsize, StdMutex, SpinMutex, OnceCell). Code that synchronises through anything else is
invisible to it, and an exploration that cannot see must say so instead of reporting "held".
The audit lists every synchronisation / interior-mutability primitive named in /repo/src (outside
src/verif.rs, the bundled mocks, comments and strings) and compares it with the inventory of the
pinned tree (lib/sync_inventory.json): a primitive kind that is new for its file, or a std / spin /
once_cell path that is not behind `cfg(not(unimock_verif))`, fails the audit (exit 2, not a verdict).
"""
import json
import os
import re

import vcommon

TOKENS = re.compile(
    r"\b(Atomic(?:Bool|U8|U16|U32|U64|Usize|I8|I16|I32|I64|Isize|Ptr)|Mutex|RwLock|OnceCell|OnceLock|OnceBox|Condvar|Barrier|"
    r"LazyLock|LazyCell|Lazy|UnsafeCell|RefCell|Cell|thread_local|mpsc|fence|compiler_fence|spin_loop|park|yield_now)\b|static\s+mut\b")
PATHS = re.compile(r"(?:core|std)::sync::atomic::(?!Ordering)|sync::atomic::\{|(?:::)?std::sync::(?:Mutex|RwLock|Once|Condvar|Barrier|mpsc|LazyLock|OnceLock)|(?:::)?spin::|once_cell::")
INVENTORY = os.path.join(vcommon.ROOT, "lib", "sync_inventory.json")


def strip(text):
    """Remove comments and string literals (good enough for this code base: no raw strings with quotes)."""
    text = re.sub(r"/\*.*?\*/", "", text, flags=re.S)
    out = []
    for line in text.split("\n"):
        line = re.sub(r'"(?:\\.|[^"\\])*"', '""', line)
        i = line.find("//")
        if i >= 0:
            line = line[:i]
        out.append(line)
    return out


def scan(repo):
    found = {}
    unguarded = []
    src = os.path.join(repo, "src")
    for root, _, files in os.walk(src):
        for f in sorted(files):
            if not f.endswith(".rs"):
                continue
            path = os.path.join(root, f)
            rel = os.path.relpath(path, repo)
            if rel == "src/verif.rs" or rel.startswith("src/mock"):
                continue
            lines = strip(open(path).read())
            for n, line in enumerate(lines):
                for m in TOKENS.finditer(line):
                    tok = re.sub(r"\s+", " ", m.group(0))
                    found.setdefault(rel, set()).add(tok)
                if PATHS.search(line):
                    # allowed only right under a cfg attribute that excludes the verification build
                    prev = " ".join(l.strip() for l in lines[max(0, n - 3):n])
                    if "not(unimock_verif)" not in prev and "not(unimock_verif)" not in line:
                        unguarded.append(f"{rel}:{n + 1}: {line.strip()[:120]}")
    return {k: sorted(v) for k, v in found.items()}, unguarded


def audit():
    """Returns a list of problems (empty = the scheduler intercepts everything the code uses)."""
    found, unguarded = scan(vcommon.REPO)
    if os.environ.get("VERIF_WRITE_SYNC_INVENTORY") == "1":
        json.dump({"primitives": found, "unguarded_paths": unguarded}, open(INVENTORY, "w"), indent=1, sort_keys=True)
    inv = json.load(open(INVENTORY))
    problems = []
    for rel, toks in found.items():
        for t in toks:
            if t not in inv["primitives"].get(rel, []):
                problems.append(f"{rel} names `{t}`, which the pinned tree does not use there: the controlled scheduler has no scheduling points for it")
    known_unguarded = set(re.sub(r":\d+:", ":", u) for u in inv["unguarded_paths"])
    for u in unguarded:
        if re.sub(r":\d+:", ":", u) not in known_unguarded:
            problems.append(f"{u}: a std / spin / once_cell synchronisation path that is not replaced in the verification build")
    return problems

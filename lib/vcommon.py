"""Shared plumbing of the check driver (stdlib only)."""
import json
import os
import subprocess
import sys
import time

ROOT = os.path.dirname(os.path.dirname(os.path.abspath(__file__)))
HARNESS = os.path.join(ROOT, "harness")
TARGET = os.path.join(ROOT, "target")
REPO = os.environ.get("VERIF_REPO", "/repo")

VARIANTS = {
    # name -> cargo feature arguments of the vh crate
    "std": [],
    "nostd": ["--no-default-features", "--features", "nostd"],
    "nolock": ["--no-default-features", "--features", "nolock"],
    "bundled": ["--features", "bundled"],
    "stdcs": ["--features", "stdcs"],
}


def machinery(msg):
    print(f"MACHINERY-ERROR: {msg}", file=sys.stderr)
    sys.exit(2)


def cargo_env(variant):
    env = dict(os.environ)
    env["CARGO_NET_OFFLINE"] = "true"
    env["RUSTFLAGS"] = "--cfg unimock_verif"
    env["CARGO_TARGET_DIR"] = os.path.join(TARGET, variant)
    env["VERIF_ROOT"] = ROOT
    env.setdefault("CARGO_TERM_COLOR", "never")
    return env


def render(path_in, path_out, subst):
    text = open(path_in).read()
    for k, v in subst.items():
        text = text.replace(k, v)
    old = open(path_out).read() if os.path.exists(path_out) else None
    if old != text:
        with open(path_out, "w") as f:
            f.write(text)


def render_manifests():
    gdir = os.path.join(HARNESS, "g")
    members = ""
    if os.path.isdir(gdir):
        for d in sorted(os.listdir(gdir)):
            if os.path.exists(os.path.join(gdir, d, "Cargo.toml")):
                members += f', "g/{d}"'
    subst = {"@REPO@": REPO, "@GMEMBERS@": members}
    render(os.path.join(HARNESS, "Cargo.toml.in"), os.path.join(HARNESS, "Cargo.toml"), subst)
    render(os.path.join(HARNESS, "vh", "Cargo.toml.in"), os.path.join(HARNESS, "vh", "Cargo.toml"), subst)
    lock = os.path.join(HARNESS, "Cargo.lock")
    if not os.path.exists(lock):
        import shutil
        shutil.copy(os.path.join(ROOT, "harness", "Cargo.lock.seed"), lock)


def build(variant, bins, optional=False):
    """Build the given bins of the vh crate for a variant; returns the directory of the binaries
    (None if an `optional` build fails)."""
    render_manifests()
    cmd = ["cargo", "build", "--offline", "--quiet", "-p", "vh"]
    for b in bins:
        cmd += ["--bin", b]
    cmd += VARIANTS[variant]
    t = time.time()
    r = subprocess.run(cmd, cwd=HARNESS, env=cargo_env(variant), stdout=subprocess.PIPE,
                       stderr=subprocess.STDOUT, text=True)
    if r.returncode != 0:
        tail = "\n".join(r.stdout.splitlines()[-60:])
        if optional:
            first = next((l for l in r.stdout.splitlines() if l.startswith("error")), "build error")
            print(f"note: optional explorer {' '.join(bins)} ({variant}) does not build on this tree and is skipped: {first[:200]}")
            return None
        machinery(f"cargo build failed for variant {variant} bins {bins}:\n{tail}")
    dt = time.time() - t
    if dt > 2:
        print(f"[build {variant} {' '.join(bins)}: {dt:.1f}s]")
    return os.path.join(TARGET, variant, "debug")


def run_bin(variant, binname, tier, extra, part_out=None, replay=None, timeout=None, tolerate_crash=False):
    """Run an explorer; returns (exit code, stdout). A crash is a machinery failure (exit 2), unless
    `tolerate_crash`: then (2, stdout) is returned and the caller decides."""
    bindir = os.path.join(TARGET, variant, "debug")
    cmd = [os.path.join(bindir, binname), tier, "--variant", variant] + list(extra)
    if part_out:
        os.makedirs(os.path.dirname(part_out), exist_ok=True)
        cmd += ["--part-out", part_out]
    if replay:
        cmd += ["--replay", replay]
    env = dict(os.environ)
    env["VERIF_ROOT"] = ROOT
    try:
        r = subprocess.run(cmd, cwd=ROOT, env=env, stdout=subprocess.PIPE, stderr=subprocess.PIPE,
                           text=True, timeout=timeout)
    except subprocess.TimeoutExpired:
        machinery(f"{binname} ({variant}) exceeded its wall-clock cap of {timeout}s")
    sys.stdout.write(r.stdout)
    if r.returncode not in (0, 1):
        sys.stderr.write(r.stderr[-4000:])
        if tolerate_crash:
            print(f"MACHINERY-ERROR: {binname} ({variant}) ended with status {r.returncode}")
            if part_out and os.path.exists(part_out):
                os.remove(part_out)
            return 2, r.stdout
        machinery(f"{binname} ({variant}) ended with status {r.returncode}")
    if r.returncode == 1 and "VIOLATION property=" not in r.stdout:
        sys.stderr.write(r.stderr[-4000:])
        machinery(f"{binname} ({variant}) exited 1 without a VIOLATION line")
    return r.returncode, r.stdout


SUM_KEYS_SKIP = {"exhaustive", "variant", "samples", "rule", "explanation"}


def merge_parts(pid, tier, level, parts, start, assumptions=None, extra_cov=None):
    """Merge part results (evidence-shaped dicts) into the evidence file."""
    cov = {}
    samples = []
    exhaustive = True
    violations = 0
    known = 0
    per_part = {}
    assume = list(assumptions or [])
    for name, part in parts:
        c = part.get("coverage", {})
        per_part[name] = {k: v for k, v in c.items() if k != "samples"}
        for k, v in c.items():
            if k in SUM_KEYS_SKIP:
                continue
            if isinstance(v, bool):
                continue
            if isinstance(v, int):
                cov[k] = cov.get(k, 0) + v
        samples += c.get("samples", [])[:3]
        if not c.get("exhaustive", False):
            exhaustive = False
        if "rule" in c and "rule" not in cov:
            cov["rule"] = c["rule"]
        violations += part.get("violations", 0)
        known += part.get("known_finding_hits", 0)
        for a in part.get("assumptions", []):
            if a not in assume:
                assume.append(a)
    cov["samples"] = samples[:8]
    cov["exhaustive"] = exhaustive
    cov["parts"] = per_part
    if extra_cov:
        cov.update(extra_cov)
    doc = {
        "property_id": pid,
        "tier": tier,
        "seed": int(os.environ.get("VERIF_SEED", "0") or 0),
        "level": level,
        "coverage": cov,
        "assumptions": assume,
        "wall_s": round(time.time() - start, 3),
        "violations": violations,
        "known_finding_hits": known,
    }
    os.makedirs(os.path.join(ROOT, "evidence"), exist_ok=True)
    with open(os.path.join(ROOT, "evidence", f"{pid}.json"), "w") as f:
        json.dump(doc, f, indent=1)
    return doc


def run_rust_check(pid, tier, replay, start, level, plan, timeout=None):
    """plan: list of (variant, bin, extra args). Builds, runs, merges."""
    os.makedirs(os.path.join(TARGET, "parts"), exist_ok=True)
    # an entry whose extra arguments are ["optional"] is built on its own; if it does not build on
    # this tree it is skipped (with a note) instead of failing the check
    optional = [(v, b) for v, b, e in plan if e == ["optional"]]
    plan = [(v, b, [] if e == ["optional"] else e) for v, b, e in plan]
    by_variant = {}
    for variant, binname, extra in plan:
        if (variant, binname) in optional:
            continue
        by_variant.setdefault(variant, set()).add(binname)
    if replay:
        doc = json.load(open(replay))
        variant = doc.get("variant", "std")
        binname = doc.get("bin") or [b for v, b, _ in plan][0]
        plan = [(variant, binname, [])]
        by_variant = {variant: {binname}}
    if len(by_variant) > 1:
        # the variants have separate target directories: build them side by side
        import threading
        render_manifests()
        errors = []

        def one(variant, bins):
            try:
                build(variant, sorted(bins))
            except SystemExit as e:
                errors.append(e.code)

        threads = [threading.Thread(target=one, args=(v, b)) for v, b in by_variant.items()]
        for t in threads:
            t.start()
        for t in threads:
            t.join()
        if errors:
            sys.exit(errors[0])
    else:
        for variant, bins in by_variant.items():
            build(variant, sorted(bins))
    for variant, binname in optional:
        if not replay and build(variant, [binname], optional=True) is None:
            plan = [(v, b, e) for v, b, e in plan if (v, b) != (variant, binname)]
    worst = 0
    parts = []
    crashed = []
    violation_printed = False
    for idx, (variant, binname, extra) in enumerate(plan):
        part_out = os.path.join(TARGET, "parts", f"{pid}-{idx}-{variant}-{binname}.json")
        if os.path.exists(part_out):
            os.remove(part_out)
        code, _ = run_bin(variant, binname, tier, extra, part_out=part_out, replay=replay, timeout=timeout, tolerate_crash=not replay)
        worst = max(worst, code)
        if code == 1:
            # (an explorer that reports a hang prints its VIOLATION line and leaves without a result file)
            violation_printed = True
        if replay:
            return code
        if not os.path.exists(part_out):
            # an explorer that died (e.g. a second panic while unwinding aborts the process) gives no
            # verdict; a violation reported by another explorer of the same check still stands
            crashed.append(f"{binname} ({variant})")
            continue
        parts.append((f"{binname}:{variant}" + (":" + " ".join(extra) if extra else ""), json.load(open(part_out))))
    violation_seen = violation_printed or any(doc.get("violations", 0) > 0 for _, doc in parts)
    if crashed and not violation_seen:
        machinery(f"{', '.join(crashed)} wrote no result file")
    if parts:
        merge_parts(pid, tier, level, parts, start)
    if crashed:
        print(f"note: {', '.join(crashed)} ended without a result (machinery failure); the violations above were reported by the other explorer(s)")
        return 1
    return worst

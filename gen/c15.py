"""C15 - default-method delegation runs the trait's own body against the same mock.

Bounded grammar: receiver of the provided method x signature shape x number of required-method
calls in the default body (0..3, plus a by-value required call for by-value receivers, plus a lent
reference) x {no clause, applies_default_impl()} x {strict, partial} x {unordered exact counts,
one global ordered sequence}; every instance runs a history mixing direct calls of required
methods with delegated ones. The generator's own evaluator computes the expected results and the
expected global call sequence.
"""
import itertools
import os
import sys

sys.path.insert(0, os.path.dirname(os.path.abspath(__file__)))
import glib  # noqa: E402
from glib import Instance  # noqa: E402

RECVS = ["ref", "mut", "own", "rc", "arc", "pin"]
BODIES = [0, 1, 2, 3, "v", "lent"]
PRELUDE = """
use unimock::*;
use vh::gsupport::{ev, take_events};
"""


def key(s):
    return "/".join([s["recv"], f"body{s['body']}", s["sig"], s["clause"], s["mode"], s["order"]]) + ("/" + s["final"] if s.get("final", "drop") != "drop" else "") + ("/with-unmock-fn" if s.get("unm") else "")


def recv_decl(recv):
    return {"ref": "&self", "mut": "&mut self", "own": "self", "rc": "self: std::rc::Rc<Self>", "arc": "self: std::sync::Arc<Self>",
            "pin": "self: core::pin::Pin<&mut Self>"}[recv]


def required_calls(body, x):
    """Required-method calls (name, arg) made by the default body for argument x, in order."""
    if body == 0:
        return []
    if body == 1:
        return [("r0", x)]
    if body == 2:
        return [("r0", x), ("r1", x + 1)]
    if body == 3:
        return [("r0", x), ("r1", x + 1), ("r0", x + 2)]
    if body == "v":
        return [("r0", x), ("rv", x)]
    if body == "lent":
        return [("rl", None)]
    raise ValueError(body)


def body_src(body, rich, recv="ref"):
    pre = 'ev(format!("body:{x}"));'
    if rich:
        pre += "\n            *m += 1;\n            let extra = s.len() as u64;"
    else:
        pre += "\n            let extra = 0u64;"
    if body == 0:
        return pre + "\n            1000 + extra"
    if body == 1:
        return pre + "\n            self.r0(x) + 1 + extra"
    if body == 2:
        return pre + "\n            self.r0(x) * 3 + self.r1(x + 1) + extra"
    if body == 3:
        return pre + "\n            let a = self.r0(x);\n            let b = self.r1(x + 1);\n            let c = self.r0(x + 2);\n            a * 10000 + b * 100 + c + extra"
    if body == "v":
        return pre + "\n            let a = self.r0(x);\n            a * 100 + self.rv(x) + extra"
    if body == "lent":
        if recv == "pin":
            return pre + "\n            self.into_ref().get_ref().rl()"
        return pre + "\n            self.rl()"
    raise ValueError(body)


def body_eval(body, vals, extra):
    if body == 0:
        return 1000 + extra
    if body == 1:
        return vals[0] + 1 + extra
    if body == 2:
        return vals[0] * 3 + vals[1] + extra
    if body == 3:
        return vals[0] * 10000 + vals[1] * 100 + vals[2] + extra
    if body == "v":
        return vals[0] * 100 + vals[1] + extra
    if body == "lent":
        return vals[0]
    raise ValueError(body)


def render(idx, s):
    recv, body, sig, clause, mode, order = s["recv"], s["body"], s["sig"], s["clause"], s["mode"], s["order"]
    final_mode = s.get("final", "drop")
    rich = sig == "rich"
    lent = body == "lent"
    byval = recv in ("own", "rc", "arc")
    ret = "&u64" if lent else "u64"
    p_params = "x: u8" + (", s: &str, m: &mut u32" if rich else "")
    rd = recv_decl(recv)
    sized = ": Sized" if recv == "own" else ""
    rv_decl = f"        fn rv({rd}, x: u8) -> u64;\n" if body == "v" else ""
    unm_attr = ""
    unm_fn = ""
    if s.get("unm"):
        # the provided method also has a real function registered: the default body still wins
        n_before = 4 if body == "v" else 3
        unm_attr = ", unmock_with=[" + ", ".join(["_"] * n_before + ["real_p"]) + "]"
        unm_fn = """    pub fn real_p(_: &impl core::any::Any, x: u8) -> u64 {
        ev(format!("real:{x}"));
        9999
    }
"""
    trait_src = unm_fn + f"""    #[unimock(api=Mk{unm_attr})]
    pub trait Tr{sized} {{
        fn r0(&self, x: u8) -> u64;
        fn r1(&self, x: u8) -> u64;
        fn rl(&self) -> &u64;
{rv_decl}        fn p({rd}, {p_params}) -> {ret} {{
            {body_src(body, rich, recv)}
        }}
    }}
"""
    # history: direct r0(5); p(1); direct r1(7); p(2)   (by-value receivers own: the second p is
    # impossible, the instance is consumed by the first)
    p_args = [1] if recv == "own" else [1, 2]
    events = [("direct", "r0", 5), ("p", None, p_args[0])]
    if recv != "own":
        events += [("direct", "r1", 7), ("p", None, p_args[1])]
    # global sequence of required-method calls
    seq = []
    for kind, name, arg in events:
        if kind == "direct":
            seq.append((name, arg))
        else:
            seq += required_calls(body, arg)
    # values: k-th call of the global sequence returns 11 + k
    values = [11 + k for k in range(len(seq))]
    clauses = []
    if order == "ordered":
        for (name, arg), v in zip(seq, values):
            if name == "rl":
                clauses.append(f"Mk::rl.next_call(matching!()).returns({v}u64)")
            else:
                clauses.append(f"Mk::{name}.next_call(matching!({arg})).returns({v}u64)")
        value_of = lambda k: values[k]  # noqa: E731
    else:
        # unordered: one stub per method, one pattern per distinct argument with an exact count
        per = {}
        for (name, arg) in seq:
            per.setdefault(name, {}).setdefault(arg, 0)
            per[name][arg] += 1
        code = {"r0": 100, "r1": 200, "rv": 300, "rl": 400}
        for name, d in sorted(per.items()):
            lines = []
            for arg, cnt in sorted(d.items(), key=lambda kv: (kv[0] is None, kv[0])):
                if name == "rl":
                    lines.append(f"each.call(matching!()).returns({code[name]}u64).n_times({cnt});")
                else:
                    lines.append(f"each.call(matching!({arg})).returns({code[name] + arg}u64).n_times({cnt});")
            clauses.append(f"Mk::{name}.stub(|each| {{ {' '.join(lines)} }})")
        value_of = lambda k: (code[seq[k][0]] + (seq[k][1] or 0))  # noqa: E731
    if clause == "explicit":
        n_p = len(p_args)
        wild = "_, _, _" if rich else "_"
        clauses.append(f"Mk::p.each_call(matching!({wild})).applies_default_impl().n_times({n_p})")
    if final_mode == "unmet":
        # an expectation that stays unmet: verification (wherever it finally happens) must report it
        clauses.append("Mk::r1.some_call(matching!(99)).returns(0u64)")
    if len(clauses) == 1:
        clause_src = clauses[0]
    else:
        clause_src = "(\n            " + ",\n            ".join(clauses) + ",\n        )" if clauses else "()"
    new = f"Unimock::new{'_partial' if mode == 'partial' else ''}({clause_src})"
    holder = {"ref": f"let u = {new};", "mut": f"let mut u = {new};", "own": f"let u = {new};", "rc": f"let u = std::rc::Rc::new({new});",
              "arc": f"let u = std::sync::Arc::new({new});", "pin": f"let mut u = {new};"}[recv]
    self_expr = {"ref": "&u", "mut": "&mut u", "own": "u", "rc": "u.clone()", "arc": "u.clone()", "pin": "core::pin::Pin::new(&mut u)"}[recv]
    uref = "&*u" if recv in ("rc", "arc") else "&u"
    steps = []
    k = 0
    expected_events = []
    for kind, name, arg in events:
        if kind == "direct":
            steps.append(f"""
        let d = <Unimock as Tr>::{name}({uref}, {arg});
        if d != {value_of(k)}u64 {{ return Err(format!("direct call {name}({arg}) returned {{d}}, expected {value_of(k)}")); }}""")
            k += 1
        else:
            calls = required_calls(body, arg)
            vals = [value_of(k + j) for j in range(len(calls))]
            k += len(calls)
            extra = 3 if rich else 0
            want = body_eval(body, vals, extra)
            expected_events.append(f"body:{arg}")
            rich_args = ', "abc", &mut mm' if rich else ""
            deref = "*" if lent else ""
            rich_pre = "let mut mm: u32 = 40;" if rich else ""
            rich_post = 'if mm != 41 { return Err(format!("write through &mut parameter by the default body not visible: {mm}")); }' if rich else ""
            last_own = recv == "own"
            steps.append(f"""
        {rich_pre}
        let pr = {deref}<Unimock as Tr>::p({self_expr}, {arg}{rich_args});
        if pr != {want}u64 {{ return Err(format!("provided method p({arg}) returned {{pr}}, expected {want} (the default body over the mock's answers)")); }}
        {rich_post}""")
    # final state: every required call was counted on the shared state
    total_seq = len(seq)
    if recv == "own":
        final = ""
    else:
        final = f"""
        let snap = unimock::verif::snapshot({uref});
        let counted: usize = snap.methods.iter().filter(|m| m.path != "Tr::p").map(|m| m.patterns.iter().map(|p| p.count).sum::<usize>()).sum();
        if counted != {total_seq} {{
            return Err(format!("{{counted}} required-method calls were counted on the mock, expected {total_seq} (direct and delegated calls share one state)"));
        }}
        if {str(order == 'ordered').lower()} && snap.ordered_index != {total_seq} {{
            return Err(format!("ordered index {{}} after {total_seq} ordered calls", snap.ordered_index));
        }}
        if !snap.panic_reasons.is_empty() {{
            return Err(format!("mock errors were recorded: {{:?}}", snap.panic_reasons));
        }}"""
    exp_ev = ", ".join(f'"{e}".to_string()' for e in expected_events)
    if final_mode == "unmet" and recv == "own":
        # the consuming call itself ends with the verification of the original
        steps[-1] = f"""
        let pr = vh::obs::catch(move || <Unimock as Tr>::p({self_expr}, {p_args[-1]}{', "abc", &mut 40u32' if rich else ''}));
        match &pr {{
            Err(msg) if msg.contains("to match exactly 1 call, but it actually matched no calls") => {{}}
            other => return Err(format!("the original travels through the by-value provided method and must be verified when it is dropped there (one expectation is unmet), observed {{other:?}}")),
        }}
        let _ = take_events();
        return Ok(());"""
    drop_src = {
        "ref": "let verdict = vh::obs::catch(move || drop(u));",
        "mut": "let verdict = vh::obs::catch(move || drop(u));",
        "pin": "let verdict = vh::obs::catch(move || drop(u));",
        "own": "let verdict: Result<(), String> = Ok(());",
        "rc": "let verdict = vh::obs::catch(move || drop(u));",
        "arc": "let verdict = vh::obs::catch(move || drop(u));",
    }[recv]
    if final_mode == "verify":
        drop_src = drop_src.replace("drop(u)", "u.verify()")
    if final_mode == "unmet" and recv != "own":
        drop_src += """
        let verdict = match verdict {
            Err(msg) if msg.contains("to match exactly 1 call, but it actually matched no calls") => Ok(()),
            other => Err(format!("one expectation is unmet, verification must say so; observed {other:?}")),
        };"""
    body_fn = f"""
        let _ = take_events();
        {holder}
        {''.join(steps)}
        let events = take_events();
        if events != vec![{exp_ev}] {{
            return Err(format!("the default body must run once per call with the caller's argument: events {{events:?}}"));
        }}{final}
        // verification of the original at the very end is silent: every expectation was met by
        // direct and delegated calls together
        {drop_src}
        if let Err(msg) = verdict {{
            return Err(format!("final verification failed: {{msg}}"));
        }}
        Ok(())
"""
    return trait_src + f"    pub fn run() -> Result<(), String> {{{body_fn}    }}\n"


def render_assoc(idx, recv, override):
    """Associated consts / types: the default body must see the same items as `<Unimock as Tr>`."""
    attr = "const N: u8 = 9; type T = u16;" + (" const K: u8 = 7;" if override else "")
    k = 7 if override else 1
    decl = recv_decl(recv)
    if recv == "ref":
        call = "u.p(3)"
        setup = "let u = Unimock::new(clause);"
    elif recv == "mut":
        call = "u.p(3)"
        setup = "let mut u = Unimock::new(clause);"
    elif recv == "own":
        call = "u.clone().p(3)"
        setup = "let u = Unimock::new(clause);"
    elif recv == "pin":
        call = "core::pin::Pin::new(&mut u).p(3)"
        setup = "let mut u = Unimock::new(clause);"
    else:
        raise ValueError(recv)
    return f"""    #[unimock(api=Mk, {attr})]
    pub trait Tr {{
        const K: u8 = 1;
        const N: u8;
        type T: From<u8> + Into<u32>;
        fn r0(&self, x: u8) -> u32;
        fn p({decl}, x: u8) -> u32 where Self: Sized {{
            let widened: Self::T = Self::T::from(Self::N);
            self.r0(x + Self::K) + widened.into()
        }}
    }}
    pub fn run() -> Result<(), String> {{
        if <Unimock as Tr>::K != {k} || <Unimock as Tr>::N != 9 {{
            return Err(format!("<Unimock as Tr>::K = {{}}, N = {{}}", <Unimock as Tr>::K, <Unimock as Tr>::N));
        }}
        let clause = Mk::r0.next_call(matching!({3 + k})).answers(&|_, x| 100 + x as u32);
        {setup}
        let got = vh::obs::catch(|| {call});
        let want = 100 + {3 + k} + 9;
        if got != Ok(want) {{
            return Err(format!("the default body reading Self::K / Self::N / Self::T gave {{got:?}}, the same body evaluated with the items of <Unimock as Tr> gives {{want}}"));
        }}
        #[allow(unused_mut)]
        let mut u = u;
        let _ = &mut u;
        vh::obs::catch(move || drop(u)).map_err(|m| format!("verification failed although the ordered call was made: {{m}}"))
    }}
"""


def render_assoc_sig(idx, recv, form):
    """A required method whose signature mentions an associated type, called from a delegated body."""
    decl = recv_decl(recv)
    t = "Self::T" if form == "short" else "<Self as Tr>::T"
    if recv == "ref":
        call, setup = "u.p(3)", "let u = Unimock::new(clause);"
    elif recv == "mut":
        call, setup = "u.p(3)", "let mut u = Unimock::new(clause);"
    elif recv == "own":
        call, setup = "u.clone().p(3)", "let u = Unimock::new(clause);"
    elif recv == "pin":
        call, setup = "core::pin::Pin::new(&mut u).p(3)", "let mut u = Unimock::new(clause);"
    else:
        raise ValueError(recv)
    return f"""    #[unimock(api=Mk, type T = u16;)]
    pub trait Tr {{
        type T: From<u8> + Into<u32>;
        fn conv(&self, x: u8) -> {t};
        fn take(&self, v: {t}, w: u8) -> u32;
        fn p({decl}, x: u8) -> u32 where Self: Sized {{
            let t = self.conv(x);
            self.take(t, x) + 1
        }}
    }}
    pub fn run() -> Result<(), String> {{
        let clause = (
            Mk::conv.next_call(matching!(3)).returns(20u16),
            Mk::take.next_call(matching!(20, 3)).answers(&|_, v, w| 100 + v as u32 + w as u32),
        );
        {setup}
        let got = vh::obs::catch(|| {call});
        if got != Ok(124) {{
            return Err(format!("the default body calling required methods whose signatures mention the associated type gave {{got:?}}, the same body over the same mock gives 124"));
        }}
        #[allow(unused_mut)]
        let mut u = u;
        let _ = &mut u;
        vh::obs::catch(move || drop(u)).map_err(|m| format!("verification failed although both ordered calls were made: {{m}}"))
    }}
"""


def render_mirror(idx, explicit):
    """A trait mocked through `mirror=`: its provided methods are declared with placeholder bodies,
    the bodies that run are the mirrored trait's own."""
    extra = "UpMock::put_pair.next_call(matching!(1, 2)).applies_default_impl(), " if explicit else ""
    return f"""    pub mod up {{
        pub trait Up {{
            fn put(&mut self, x: u8);
            fn get(&self, x: u8) -> u32;
            fn put_pair(&mut self, a: u8, b: u8) {{
                self.put(a);
                self.put(b);
            }}
            fn note(&self, a: u8) {{
                let _ = self.get(a);
            }}
            fn sum(&self, a: u8, b: u8) -> u32 {{
                self.get(a) + self.get(b)
            }}
        }}
    }}
    #[unimock(api=UpMock, mirror=up::Up)]
    pub trait Up {{
        fn put(&mut self, x: u8);
        fn get(&self, x: u8) -> u32;
        fn put_pair(&mut self, a: u8, b: u8) {{}}
        fn note(&self, a: u8) {{}}
        fn sum(&self, a: u8, b: u8) -> u32 {{}}
    }}
    pub fn run() -> Result<(), String> {{
        use up::Up as _;
        let mut u = Unimock::new((
            {extra}UpMock::put.next_call(matching!(1)).returns(()),
            UpMock::put.next_call(matching!(2)).returns(()),
            UpMock::get.each_call(matching!(_)).answers(&|_, x| x as u32 * 10).n_times(3),
        ));
        vh::obs::catch(std::panic::AssertUnwindSafe(|| u.put_pair(1, 2))).map_err(|m| format!("put_pair(1, 2): {{m}}"))?;
        let snap = unimock::verif::snapshot(&u);
        let counts: Vec<usize> = snap.method("Up::put").map(|m| m.patterns.iter().map(|p| p.count).collect()).unwrap_or_default();
        if counts != vec![1usize, 1] {{
            return Err(format!("after put_pair(1, 2) the mirrored default body must have called put(1) and put(2) on the same mock; counters of Up::put: {{counts:?}}"));
        }}
        vh::obs::catch(|| u.note(5)).map_err(|m| format!("note(5): {{m}}"))?;
        let got = vh::obs::catch(|| u.sum(3, 4));
        if got != Ok(70) {{
            return Err(format!("sum(3, 4) through the mirrored default body gave {{got:?}}, expected 70"));
        }}
        vh::obs::catch(move || drop(u)).map_err(|m| format!("verification failed although every expected call was made through the default bodies: {{m}}"))
    }}
"""


def render_escaped_clone(idx, recv, n_clones):
    """Delegation leaves no trace in the bookkeeping of live clones: after a delegated call the
    original still refuses to verify while exactly n user-made clones are alive, and verifies once
    they are gone."""
    if recv == "ref":
        call, mutq = "u.p(3)", ""
    elif recv == "mut":
        call, mutq = "u.p(3)", "mut "
    else:
        call, mutq = "core::pin::Pin::new(&mut u).p(3)", "mut "
    decl = recv_decl(recv)
    return f"""    #[unimock(api=Mk)]
    pub trait Tr {{
        fn r0(&self, x: u8) -> u32;
        fn p({decl}, x: u8) -> u32 {{
            self.r0(x) + 1
        }}
    }}
    pub fn run() -> Result<(), String> {{
        #[allow(unused_mut)]
        let {mutq}u = Unimock::new(Mk::r0.each_call(matching!(_)).answers(&|_, x| x as u32));
        let clones: Vec<Unimock> = (0..{n_clones}).map(|_| u.clone()).collect();
        let got = vh::obs::catch(|| {call});
        if got != Ok(4) {{
            return Err(format!("delegated call gave {{got:?}}"));
        }}
        let verdict = vh::obs::catch(move || drop(u));
        drop(clones);
        match verdict {{
            Err(msg) if {n_clones} > 0 && msg.contains("clones still alive") => Ok(()),
            Ok(()) if {n_clones} == 0 => Ok(()),
            other => Err(format!("after a delegated call with {n_clones} user-made clone(s) alive, dropping the original gave {{other:?}} (a direct-call history refuses exactly when a clone is alive)")),
        }}
    }}
"""


def render_nested(idx, variant):
    """Delegation inside delegation, and a derived mock lent from inside a delegated body: the
    default bodies run against the same mock, and the final verification judges the counts."""
    if variant == "nested":
        answer = "&|u, x| if x > 0 { u.q(x - 1) } else { 5 }"
        calls = "let got = u.p(2);"
        want = "7"          # p(2) -> r0(2) -> q(1) = r0(1) + 1 -> q(0) = r0(0) + 1 = 6 -> 7 ; p adds nothing
        n_r0 = 3
    else:
        # the required method parks a clone of the mock in the instance it runs on
        answer = "&|u, x| { let _lent: &Unimock = u.make_ref(u.clone()); x as u64 + 40 }"
        calls = "let got = u.p(2);"
        want = "42"
        n_r0 = 1
    return f"""    #[unimock(api=Mk)]
    pub trait Tr {{
        fn r0(&self, x: u8) -> u64;
        fn p(&self, x: u8) -> u64 {{
            self.r0(x)
        }}
        fn q(&self, x: u8) -> u64 {{
            self.r0(x) + 1
        }}
    }}
    pub fn run() -> Result<(), String> {{
        let u = Unimock::new(Mk::r0.each_call(matching!(_)).answers({answer}).n_times({n_r0}));
        {calls}
        if got != {want} {{
            return Err(format!("the delegated bodies evaluated to {{got}}, expected {want}"));
        }}
        let direct = u.r0(0);
        let _ = direct;
        // one direct call too many on purpose: the verdict must be about the count ({n_r0} expected,
        // {n_r0 + 1} matched), whatever the delegation helpers still hold
        match vh::obs::catch(move || drop(u)) {{
            Err(msg) if msg.contains("to match exactly {n_r0} call") && msg.contains("matched {n_r0 + 1} calls") && msg.lines().count() == 1 => Ok(()),
            other => Err(format!("expected exactly the count line ({n_r0} expected, {n_r0 + 1} matched), observed {{other:?}}")),
        }}
    }}
"""


def render_zero_clauses(idx, recv, partial):
    """A mock without any clause: a provided method whose body needs no required method still runs."""
    decl = recv_decl(recv)
    new = "Unimock::new_partial(())" if partial else "Unimock::new(())"
    call = {"ref": "u.p(3)", "mut": "u.p(3)", "own": "u.clone().p(3)", "pin": "core::pin::Pin::new(&mut u).p(3)",
            "rc": "std::rc::Rc::new(u.clone()).p(3)", "arc": "std::sync::Arc::new(u.clone()).p(3)"}[recv]
    return f"""    #[unimock(api=Mk)]
    pub trait Tr {{
        fn r0(&self, x: u8) -> u64;
        fn p({decl}, x: u8) -> u64 where Self: Sized {{
            ev(format!("body:{{x}}"));
            1000 + x as u64
        }}
    }}
    pub fn run() -> Result<(), String> {{
        let _ = take_events();
        #[allow(unused_mut)]
        let mut u = {new};
        let got = vh::obs::catch(|| {call});
        let events = take_events();
        if got != Ok(1003) || events != vec!["body:3".to_string()] {{
            return Err(format!("a mock without clauses: the provided method gave {{got:?}} (events {{events:?}}), its default body gives 1003"));
        }}
        vh::obs::catch(move || drop(u)).map_err(|m| format!("verification of a mock without clauses failed: {{m}}"))
    }}
"""


def render_byref_then_byvalue(idx):
    """A by-reference delegation (which caches a helper) followed by a by-value delegation on the
    same original: the instance itself travels through the by-value default body."""
    return """    #[unimock(api=Mk)]
    pub trait Tr: Sized {
        fn r0(&self, x: u8) -> u64;
        fn rv(self, x: u8) -> u64;
        fn p(&self, x: u8) -> u64 {
            self.r0(x) + 1
        }
        fn pv(self, x: u8) -> u64 {
            let a = self.r0(x);
            a + self.rv(x)
        }
    }
    pub fn run() -> Result<(), String> {
        for prior in [false, true] {
            let u = Unimock::new((
                Mk::r0.each_call(matching!(_)).returns(10u64),
                Mk::rv.each_call(matching!(_)).returns(20u64),
            ));
            if prior {
                let got = vh::obs::catch(|| u.p(1));
                if got != Ok(11) {
                    return Err(format!("by-reference provided method gave {got:?}, expected 11"));
                }
            }
            // the original is consumed by the call and verified when the default body lets go of it
            let got = vh::obs::catch(move || u.pv(2));
            if got != Ok(30) {
                return Err(format!("by-value provided method {} gave {got:?}, its default body over the mock gives 30", if prior { "after a by-reference delegation" } else { "alone" }));
            }
        }
        Ok(())
    }
"""


def render_after_failure(idx, recv):
    """A recorded failure does not stop later delegation: the temporary clones that Pin / Rc / Arc /
    by-value delegation creates go away quietly, the body runs, the verdict carries the one error."""
    decl = recv_decl(recv)
    call = {"pin": "core::pin::Pin::new(&mut u).p(3)", "rc": "rc.clone().p(3)", "arc": "arc.clone().p(3)", "own": "u.clone().p(3)",
            "ref": "u.p(3)", "mut": "u.p(3)"}[recv]
    holder = {"rc": "let rc = std::rc::Rc::new(u.clone());", "arc": "let arc = std::sync::Arc::new(u.clone());"}.get(recv, "")
    drop_holder = {"rc": "drop(rc);", "arc": "drop(arc);"}.get(recv, "")
    return f"""    #[unimock(api=Mk)]
    pub trait Tr {{
        fn r0(&self, x: u8) -> u64;
        fn p({decl}, x: u8) -> u64 where Self: Sized {{
            self.r0(x) + 1
        }}
    }}
    pub fn run() -> Result<(), String> {{
        #[allow(unused_mut)]
        let mut u = Unimock::new(Mk::r0.each_call(matching!(3)).returns(40u64));
        {holder}
        // a failing call, contained: recorded for the final verdict, nothing else
        let first = vh::obs::catch(|| u.r0(9));
        if !matches!(&first, Err(msg) if msg.contains("Tr::r0(9)")) {{
            return Err(format!("harness: the preparatory failing call gave {{first:?}}"));
        }}
        for round in 0..2 {{
            let got = vh::obs::catch(|| {call});
            if got != Ok(41) {{
                return Err(format!("round {{round}}: after a recorded failure the provided method gave {{got:?}}, its default body over the mock gives 41"));
            }}
        }}
        {drop_holder}
        match vh::obs::catch(move || drop(u)) {{
            Err(msg) if msg.contains("Tr::r0(9)") && msg.matches("No matching call patterns").count() == 1 => Ok(()),
            other => Err(format!("the final verdict must carry exactly the one recorded error, observed {{other:?}}")),
        }}
    }}
"""


def shapes(tier):
    out = []
    for recv, body, sig, clause, mode, order in itertools.product(RECVS, BODIES, ["simple", "rich"], ["implicit", "explicit"], ["strict", "partial"], ["unordered", "ordered"]):
        if body == "v" and recv not in ("own", "rc", "arc"):
            continue
        if body == "lent" and recv in ("own", "rc", "arc"):
            continue
        if body == "lent" and sig == "rich":
            continue
        if tier == "quick" and sig == "rich" and body not in (2, "v"):
            continue
        out.append(dict(recv=recv, body=body, sig=sig, clause=clause, mode=mode, order=order))
        if sig == "simple" and mode == "strict" and order == "unordered":
            if recv in ("ref", "mut", "pin"):
                out.append(dict(recv=recv, body=body, sig=sig, clause=clause, mode=mode, order=order, final="verify"))
            if body != "lent":
                out.append(dict(recv=recv, body=body, sig=sig, clause=clause, mode=mode, order=order, final="unmet"))
        if recv == "ref" and sig == "simple" and body in (0, 1, 2):
            out.append(dict(recv=recv, body=body, sig=sig, clause=clause, mode=mode, order=order, unm=True))
    return out


def run(pid, tier, replay, start):
    rep = glib.Reporter(pid)
    insts = []
    for s in shapes(tier):
        insts.append(Instance(len(insts), key(s), render(len(insts), s), s))
    for recv in ("ref", "mut", "own", "pin"):
        for override in (True, False):
            k = f"assoc-items/{recv}/{'attribute-overrides-default-const' if override else 'default-const-kept'}"
            insts.append(Instance(len(insts), k, render_assoc(len(insts), recv, override), {"body": 1, "recv": recv}))
    for recv in ("ref", "mut", "own", "pin"):
        for form in ("short", "qualified"):
            insts.append(Instance(len(insts), f"assoc-type-in-required-signature/{recv}/{form}", render_assoc_sig(len(insts), recv, form), {"body": 1, "recv": recv}))
    for recv in ("ref", "mut", "pin"):
        for n_clones in (0, 1, 2):
            insts.append(Instance(len(insts), f"live-clones-after-delegation/{recv}/{n_clones}", render_escaped_clone(len(insts), recv, n_clones), {"body": 1, "recv": recv}))
    for explicit in (False, True):
        insts.append(Instance(len(insts), f"mirrored-trait/{'applies_default_impl' if explicit else 'no-clause'}", render_mirror(len(insts), explicit), {"body": 1, "recv": "mut"}))
    for recv in RECVS:
        for partial in (False, True):
            insts.append(Instance(len(insts), f"zero-clauses/{recv}/{'partial' if partial else 'strict'}", render_zero_clauses(len(insts), recv, partial), {"body": 1, "recv": recv}))
        insts.append(Instance(len(insts), f"delegation-after-a-recorded-failure/{recv}", render_after_failure(len(insts), recv), {"body": 1, "recv": recv}))
    insts.append(Instance(len(insts), "by-reference-then-by-value-delegation", render_byref_then_byvalue(len(insts)), {"body": 1, "recv": "own"}))
    for variant in ("nested", "lent-handle"):
        insts.append(Instance(len(insts), f"delegation-in-delegation/{variant}", render_nested(len(insts), variant), {"body": 1, "recv": "ref"}))
    if replay:
        import json
        want = json.load(open(replay))["case"]["shape"]
        insts = [i for i in insts if i.key == want] or glib.machinery("shape not in this tier")
    crate = glib.Crate("g_c15", features=("std", "pretty-print"), prelude=PRELUDE)
    kept, rejected = glib.build_until_green(crate, insts)
    results = crate.run()
    n_ok = 0
    for inst in kept:
        ok, msg = results.get(inst.idx, (False, "no result"))
        if ok:
            n_ok += 1
        else:
            rep.violation(f"shape:{inst.key}", f"shape {inst.key}: {msg}", {"shape": inst.key})
    for k, v in results.items():
        if isinstance(k, tuple):
            rep.violation("generated-program-died", v[1], {"bin": k[1]})
    by_idx = {i.idx: i for i in insts}
    if len(kept) < 50:
        glib.machinery("vacuous: fewer than 50 accepted shapes")
    sample = kept[len(kept) // 3]
    cov = {
        "evaluations": len(kept),
        "distinct_nontrivial": len(set(i.key for i in kept if i.meta["body"] != 0)),
        "rule": "receiver of the provided method {&self,&mut self,self,Rc,Arc,Pin} x default body calling 0..3 required methods (plus a by-value required call for by-value receivers, plus a lent reference) x signature {(u8), (u8,&str,&mut u32)} x {no clause, applies_default_impl()} x {strict, partial} x {unordered exact counts, one global ordered sequence}; each instance runs a history mixing direct and delegated calls; plus associated consts/types read by the body, associated types in the signatures of the required methods the body calls, a trait mocked through mirror= (placeholder bodies, unit and non-unit provided methods), zero clauses, delegation after a recorded failure, delegation in delegation; non-trivial = the body calls at least one required method; distinct = distinct shape keys",
        "samples": [{"shape": sample.key, "code": sample.code[:1800]}],
        "exhaustive": True,
        "generated": len(insts),
        "rejected_by_macro_or_compiler": len(rejected),
        "rejected_shapes": sorted(by_idx[i].key for i in rejected)[:40],
        "passed": n_ok,
    }
    glib.write_evidence(pid, tier, "exploration", cov, start, rep.violations,
                        ["only shapes the macro and rustc accept are subject to the property",
                         "Rc / Arc receivers are driven with the caller keeping a second handle (handing over the only handle drops the original while the helper clone lives, which C09 prescribes to panic)"],
                        rep.known_hits)
    return rep.exit_code()

"""Builder type-state sweep (compile-time halves of C12 and C14).

The builder API is a finite automaton over the states DefineResponse, DefineMultipleResponses,
QuantifyReturnValue, Quantify, QuantifiedResponse<Exact|AtLeast>. Every *valid* prefix (up to a
length bound) is extended by every method of the alphabet and by "use as a clause"; the reference
automaton below (written from the documentation of the builder, not from its where-clauses)
predicts accept / reject for each resulting word, and rustc must agree on every word: accepted
words are compiled together (zero errors expected), rejected words are compiled together and every
one of them must produce at least one error (attributed through rustc's JSON diagnostics).
"""
import os
import sys

sys.path.insert(0, os.path.dirname(os.path.abspath(__file__)))
import glib  # noqa: E402
from glib import Instance  # noqa: E402

PRELUDE = """
use unimock::*;

pub struct NC(pub u32);

#[unimock(api=Mk)]
pub trait Tr {
    fn fc(&self) -> u32;
    fn fnc(&self) -> NC;
    fn fin(&self) -> NCI;
}

/// Not Clone, but convertible from a value that is: `returns(7u32)` is the same single-use response.
pub struct NCI(pub u32);
impl From<u32> for NCI {
    fn from(v: u32) -> NCI {
        NCI(v)
    }
}
"""

TOKENS = ["returns", "answers", "panics", "once", "n_times", "at_least_times", "then"]
STARTS = ["some_call", "each_call", "next_call", "stub_call"]


def start_state(start):
    if start == "some_call":
        return ("DR", "any")
    if start == "next_call":
        return ("DR", "ord")
    return ("DMR", "any")


def step(state, tok, clone):
    """Reference automaton: next state or None (must not type-check)."""
    # ("into" = an output type that is not Clone, configured through `Into` from a value that is)
    clone = clone is True
    kind, order = state[0], state[1]
    if kind == "DR":
        if tok == "returns":
            return ("QRV", order)
        if tok in ("answers", "panics"):
            return ("Q", order)
        return None
    if kind == "DMR":
        if tok == "returns":
            return ("Q", order) if clone else None
        if tok in ("answers", "panics"):
            return ("Q", order)
        return None
    if kind == "QRV":
        if tok == "once":
            return ("QR", order, "exact")
        if tok == "n_times":
            return ("QR", order, "exact") if clone else None
        if tok == "at_least_times":
            return ("QR", order, "atleast") if (clone and order == "any") else None
        return None
    if kind == "Q":
        if tok in ("once", "n_times"):
            return ("QR", order, "exact")
        if tok == "at_least_times":
            return ("QR", order, "atleast") if order == "any" else None
        return None
    if kind == "QR":
        if tok == "then":
            return ("DMR", order) if state[2] == "exact" else None
        return None
    raise ValueError(state)


def is_clause(state):
    return state[0] in ("QRV", "Q", "QR")


def tok_src(tok, clone):
    if tok == "returns":
        return ".returns(7u32)" if clone in (True, "into") else ".returns(NC(7))"
    if tok == "answers":
        return ".answers(&|_| 8u32)" if clone is True else (".answers(&|_| NCI(8))" if clone == "into" else ".answers(&|_| NC(8))")
    if tok == "panics":
        return '.panics("x")'
    if tok == "once":
        return ".once()"
    if tok == "n_times":
        return ".n_times(2)"
    if tok == "at_least_times":
        return ".at_least_times(1)"
    if tok == "then":
        return ".then()"
    raise ValueError(tok)


def word_text(start, clone, toks, as_clause):
    m = "Mk::fc" if clone is True else ("Mk::fin" if clone == "into" else "Mk::fnc")
    chain = "".join(tok_src(t, clone) for t in toks)
    if start == "stub_call":
        body = f"let _s = {m}.stub(|each| {{ let _b = each.call(matching!()){chain}; }});"
        if as_clause:
            body = f"let _u = Unimock::new({m}.stub(|each| {{ each.call(matching!()){chain}; }}));"
        return body
    expr = f"{m}.{start}(matching!()){chain}"
    if as_clause:
        return f"let _u = Unimock::new({expr});"
    return f"let _b = {expr};"


def enumerate_words(max_len):
    """(key, source, expected_accept) for every valid prefix extended by every token / clause use."""
    words = []
    for start in STARTS:
        for clone in (True, False, "into"):
            frontier = [([], start_state(start))]
            for length in range(0, max_len + 1):
                nxt = []
                for toks, st in frontier:
                    label = f"{start}[{'Clone' if clone is True else ('non-Clone via Into' if clone == 'into' else 'non-Clone')}]" + "".join("." + t for t in toks)
                    # use as a clause
                    if start == "stub_call":
                        # inside a stub every valid builder state may simply be dropped
                        words.append((label + " (stub as clause)", word_text(start, clone, toks, True), True))
                    else:
                        words.append((label + " (as clause)", word_text(start, clone, toks, True), is_clause(st)))
                    if length == max_len:
                        continue
                    for tok in TOKENS:
                        ns = step(st, tok, clone)
                        if ns is None:
                            words.append((label + "." + tok, word_text(start, clone, toks + [tok], False), False))
                        else:
                            nxt.append((toks + [tok], ns))
                frontier = nxt
    # tuples without a Clause impl
    c = "Mk::fc.each_call(matching!()).returns(1u32)"
    words.append(("1-tuple (c,)", f"let _u = Unimock::new(({c},));", False))
    words.append(("17-tuple", "let _u = Unimock::new((" + ", ".join([c] * 17) + "));", False))
    words.append(("16-tuple", "let _u = Unimock::new((" + ", ".join([c] * 16) + "));", True))
    words.append(("unit", "let _u = Unimock::new(());", True))
    return words


def sweep(tier, rep, pid, focus=None):
    max_len = 3 if tier == "quick" else 5
    words = enumerate_words(max_len)
    acc = [w for w in words if w[2]]
    rej = [w for w in words if not w[2]]
    result = {"words": len(words), "accepted": len(acc), "rejected": len(rej), "max_chain_length": max_len}

    def make(ws, offset):
        return [Instance(offset + i, k, f"    pub fn run() -> Result<(), String> {{\n        if false {{ {src} }}\n        Ok(())\n    }}\n", {})
                for i, (k, src, _) in enumerate(ws)]

    a_inst = make(acc, 0)
    r_inst = make(rej, 100000)
    ca = glib.Crate(f"g_ts_acc_{pid.lower()}", features=("std", "pretty-print"), prelude=PRELUDE, n_bins=8)
    ca.write(a_inst)
    ok, bad, unattributed, stderr = ca.build()
    by_idx = {i.idx: i for i in a_inst}
    if not ok:
        if not bad:
            glib.machinery("type-state accept crate fails to build with unattributable errors:\n" + "\n".join(unattributed[:3]) + stderr[-1500:])
        for i in sorted(bad):
            rep.violation(f"word:{by_idx[i].key}", f"builder chain {by_idx[i].key} must type-check (reference automaton) but rustc rejects it", {"word": by_idx[i].key})
    # the reject crate: every function must have at least one error
    cr = glib.Crate(f"g_ts_rej_{pid.lower()}", features=("std", "pretty-print"), prelude=PRELUDE, n_bins=8)
    cr.write(r_inst)
    ok2, bad2, unattributed2, stderr2 = cr.build()
    by_idx_r = {i.idx: i for i in r_inst}
    missing = [i for i in by_idx_r if i not in bad2]
    for i in sorted(missing):
        rep.violation(f"word:{by_idx_r[i].key}", f"builder chain {by_idx_r[i].key} must NOT type-check (reference automaton) but rustc accepts it", {"word": by_idx_r[i].key})
    # remove the reject crate again: it can never build and must not sit in the workspace
    import shutil
    shutil.rmtree(cr.dir, ignore_errors=True)
    result["rustc_agrees_on_accepted"] = len(acc) - len(bad)
    result["rustc_agrees_on_rejected"] = len(rej) - len(missing)
    return result

"""C19 - panic messages identify the call, its arguments and the pattern involved.

(A) call rendering: parameter lists over {u8, String, &u32, &mut u32, &&u32, &str, &[u8], a type
    without Debug by value and by reference, Option<&u32>, generic with / without Debug bound} of
    arity 1..4 x every mock-induced error kind: the message must start with `Tr::f(` + the Debug
    renderings of the caller's arguments in declaration order ('?' where no Debug is available) +
    `)`; the missing-implementation kinds name `Tr::f` only; a pattern is named by its source text
    and the file:line of its matching! invocation.
(B) mismatch reports: guard-free single-alternative patterns over 2-3 arguments from {literal,
    or-literals, _, eq!, ne!} x every failing argument tuple of {0,1,2}^n, unordered (one and two
    patterns) and ordered: the report lists exactly the positions whose sub-pattern rejects the
    value, in order, each with that value. Built without pretty-print so that diffs are plain text.
"""
import itertools
import os
import re
import sys

sys.path.insert(0, os.path.dirname(os.path.abspath(__file__)))
import glib  # noqa: E402
from glib import Instance  # noqa: E402
from c05 import rs_str  # noqa: E402

PRELUDE = """
use unimock::*;

pub struct NoDbg(pub u8);
#[derive(Debug)]
pub struct Wrap<'a>(pub &'a u32);
"""

# kind -> (declared type, setup, argument expression, Debug rendering)
def kind(k, p):
    if k == "u8":
        return ("u8", "", f"{10 + p}u8", f"{10 + p}")
    if k == "string":
        return ("String", "", f'"s{p}".to_string()', f'"s{p}"')
    if k == "ref":
        return ("&u32", f"let r{p}: u32 = {100 + p};", f"&r{p}", f"{100 + p}")
    if k == "mut":
        return ("&mut u32", f"let mut m{p}: u32 = {200 + p};", f"&mut m{p}", f"{200 + p}")
    if k == "refref":
        return ("&&u32", f"let rr{p}: u32 = {300 + p}; let rr{p}b = &rr{p};", f"&rr{p}b", f"{300 + p}")
    if k == "str":
        return ("&str", "", f'"str{p}"', f'"str{p}"')
    if k == "slice":
        return ("&[u8]", f"let sl{p}: [u8; 3] = [{p}, 1, 2];", f"&sl{p}", f"[{p}, 1, 2]")
    if k == "nodbg":
        return ("NoDbg", "", f"NoDbg({p})", "?")
    if k == "refnodbg":
        return ("&NoDbg", f"let nd{p} = NoDbg({p});", f"&nd{p}", "?")
    if k == "optref":
        return ("Option<&u32>", f"let o{p}: u32 = {400 + p};", f"Some(&o{p})", f"Some({400 + p})")
    if k == "mutlt":
        # a `&mut` parameter whose pointee has a lifetime: unimock cannot hand it to matchers and
        # shows the marker `Impossible` in its place - it still occupies its position in the call
        return ("&mut Wrap<'_>", f"let wv{p}: u32 = {700 + p}; let mut w{p} = Wrap(&wv{p});", f"&mut w{p}", "Impossible")
    if k == "gen_dbg":
        return ("GD", "", f"{500 + p}u16", f"{500 + p}")
    if k == "gen_nodbg":
        return ("GN", "", f"{600 + p}u16", "?")
    raise ValueError(k)


KINDS = ["u8", "string", "ref", "mut", "refref", "str", "slice", "nodbg", "refnodbg", "optref", "gen_dbg", "gen_nodbg"]
ERRORS = ["no_impl", "no_impl_hidden", "no_match", "ordered_mismatch", "out_of_range", "more_than_once", "explicit", "no_output", "cannot_unmock", "no_default",
          # the same post-selection failures raised by the *second* pattern of the method (the first rejects)
          "explicit_2nd", "more_than_once_2nd", "no_output_2nd", "explicit_2nd_text"]


def render_a(idx, kinds, err):
    # (a trait mocked without api=: it has no nameable mock api, its calls are rendered all the same)
    hidden = err == "no_impl_hidden"
    if hidden:
        err = "no_impl"
    code = render_a_inner(idx, kinds, err)
    return code.replace("#[unimock(api=Mk)]", "#[unimock]") if hidden else code


def render_a_inner(idx, kinds, err):
    infos = [kind(k, p) for p, k in enumerate(kinds)]
    generics = []
    if "gen_dbg" in kinds:
        generics.append("GD: core::fmt::Debug + 'static")
    if "gen_nodbg" in kinds:
        generics.append("GN: 'static")
    g = f"<{', '.join(generics)}>" if generics else ""
    wt = []
    if "gen_dbg" in kinds:
        wt.append("u16")
    if "gen_nodbg" in kinds:
        wt.append("u16")
    with_types = f".with_types::<{', '.join(wt)}>()" if wt else ""
    params = ", ".join(f"a{p}: {i[0]}" for p, i in enumerate(infos))
    setups = "\n        ".join(i[1] for i in infos if i[1])
    args = ", ".join(i[2] for i in infos)
    rendered = ", ".join(i[3] for i in infos)
    callname = f"Tr::f({rendered})"
    never = "&|m| { m.func(|_, _| false); }"
    always = "&|m| { m.func(|_, _| true); }"
    mf = f"Mk::f{with_types}"
    pre = ""
    if err == "no_impl":
        new = "Unimock::new(())"
        expect = f"{callname}: No mock implementation found."
    elif err == "no_match":
        new = f"Unimock::new({mf}.each_call({never}).returns(1u32))"
        expect = f"{callname}: No matching call patterns. "
    elif err == "ordered_mismatch":
        new = f"Unimock::new({mf}.next_call({never}).returns(1u32))"
        expect = f"{callname}: Method invoked in the correct order (1), but inputs didn't match call pattern Tr::f[#0]. "
    elif err == "out_of_range":
        new = f"Unimock::new({mf}.next_call({always}).returns(1u32).n_times(0))"
        expect = f"{callname}: Ordered call (1) out of range: There were no more ordered call patterns in line for selection."
    elif err == "more_than_once":
        new = f"Unimock::new({mf}.some_call({always}).returns(1u32))"
        pre = "FIRST"
        expect = f"{callname}: Cannot return value more than once from call pattern Tr::f[#0], because of missing Clone bound. Try using `.each_call()` or explicitly quantifying the response."
    elif err == "explicit":
        new = f"Unimock::new({mf}.each_call({always}).panics(\"boom\"))"
        expect = f"{callname}: Explicit panic from call pattern Tr::f[#0]: boom"
    elif err == "explicit_2nd":
        new = f"Unimock::new({mf}.stub(|each| {{ each.call({never}).returns(1u32); each.call({always}).panics(\"boom\"); }}))"
        expect = f"{callname}: Explicit panic from call pattern Tr::f[#1]: boom"
    elif err == "explicit_2nd_text":
        # patterns written with matching!: the failing one is named by its own text and line
        wild = ", ".join("_" for _ in kinds)
        new = f"Unimock::new(({mf}.each_call({never}).returns(1u32),\n            {mf}.each_call({never}).returns(2u32),\n            {mf}.each_call(matching!({wild})).panics(\"boom\")))"
        expect = None
    elif err == "more_than_once_2nd":
        new = f"Unimock::new(({mf}.each_call({never}).returns(1u32), {mf}.some_call({always}).returns(2u32)))"
        pre = "FIRST"
        expect = f"{callname}: Cannot return value more than once from call pattern Tr::f[#1], because of missing Clone bound. Try using `.each_call()` or explicitly quantifying the response."
    elif err == "no_output_2nd":
        new = f"Unimock::new({mf}.stub(|each| {{ each.call({never}).returns(1u32); each.call({always}); }}))"
        expect = f"{callname}: No output available for after matching call pattern Tr::f[#1]."
    elif err == "no_output":
        new = f"Unimock::new({mf}.stub(|each| {{ each.call({always}); }}))"
        expect = f"{callname}: No output available for after matching call pattern Tr::f[#0]."
    elif err == "cannot_unmock":
        new = f"Unimock::new({mf}.each_call({always}).applies_unmocked())"
        expect = "Tr::f cannot be unmocked as there is no function available to call."
    elif err == "no_default":
        new = f"Unimock::new({mf}.each_call({always}).applies_default_impl())"
        expect = "Tr::f has not been set up with default implementation delegation."
    call = f"<Unimock as Tr>::f(&u{', ' + args if args else ''})"
    # the &mut arguments need fresh variables for the first call of more_than_once
    first_call = ""
    if pre == "FIRST":
        setups2 = setups.replace("let mut m", "let mut n").replace("let r", "let q").replace("let sl", "let tl").replace("let nd", "let ne_").replace("let o", "let p_")
        args2 = args.replace("&mut m", "&mut n").replace("&rr", "&qr").replace("&r", "&q").replace("&sl", "&tl").replace("&nd", "&ne_").replace("&o", "&p_")
        setups2 = setups2.replace("&rr", "&qr")
        first_call = f"""
        {setups2}
        let _ = <Unimock as Tr>::f(&u{', ' + args2 if args2 else ''});"""
    if expect is None:
        pat = "(" + ", ".join("_" for _ in kinds) + ")" if kinds else "()"
        return f"""    #[unimock(api=Mk)]
    pub trait Tr {{
        fn f{g}(&self{", " + params if params else ""}) -> u32;
    }}
    pub fn run() -> Result<(), String> {{
        let first_line = line!() + 1;
        let u = {new}.no_verify_in_drop();
        {setups}
        let r = vh::obs::catch(|| {call});
        let expect = format!("{{}}: Explicit panic from {{}} at {{}}:{{}}: boom", {rs_str(callname)}, {rs_str("Tr::f" + pat)}, file!(), first_line + 2);
        match r {{
            Err(msg) if msg == expect => Ok(()),
            other => Err(format!("expected the message {{expect:?}}, observed {{other:?}}")),
        }}
    }}
"""
    return f"""    #[unimock(api=Mk)]
    pub trait Tr {{
        fn f{g}(&self{", " + params if params else ""}) -> u32;
    }}
    pub fn run() -> Result<(), String> {{
        let u = {new}.no_verify_in_drop();{first_call}
        {setups}
        let r = vh::obs::catch(|| {call});
        let expect = {rs_str(expect)};
        match r {{
            Err(msg) if msg == expect => Ok(()),
            other => Err(format!("expected the message {{expect:?}}, observed {{other:?}}")),
        }}
    }}
"""


def render_wrong_order(idx, first, second, stub):
    """Ordered patterns on two methods (and an unordered stub on a third, or none): the second is
    called first; the message names the pattern in line by source text and location."""
    stub_clause = f"Mk::{stub}.each_call(matching!(_)).returns(9u32)," if stub else ""
    stub_call = f"let _ = u.{stub}(5);" if stub else ""
    return f"""    #[unimock(api=Mk)]
    pub trait Tr {{
        fn f(&self, a: u8) -> u32;
        fn g(&self, a: u8) -> u32;
        fn h(&self, a: u8) -> u32;
    }}
    pub fn run() -> Result<(), String> {{
        let line = line!() + 3;
        let u = Unimock::new((
            {stub_clause}
            Mk::{first}.next_call(matching!(1)).returns(1u32),
            Mk::{second}.next_call(matching!(2)).returns(2u32),
        )).no_verify_in_drop();
        {stub_call}
        let r = vh::obs::catch(|| u.{second}(2));
        let expect = format!("Tr::{second}(2): Method matched in wrong order. Expected a call matching Tr::{first}(1) at {{}}:{{}}.", file!(), line);
        match r {{
            Err(msg) if msg == expect => Ok(()),
            other => Err(format!("expected the message {{expect:?}}, observed {{other:?}}")),
        }}
    }}
"""


def render_trait_generic(idx, bound_form, err):
    """A generic *trait*: Debug bound inline, in a where-clause, or absent."""
    decl = {"inline": "pub trait Tr<T: core::fmt::Debug + 'static>", "where": "pub trait Tr<T> where T: core::fmt::Debug + 'static",
            "none": "pub trait Tr<T: 'static>"}[bound_form]
    shown = "?" if bound_form == "none" else "42"
    callname = f'Tr::f("k", {shown})'
    if err == "no_impl":
        new = "Unimock::new(())"
        expect = f"{callname}: No mock implementation found."
    else:
        new = "Unimock::new(Mk::f.with_types::<u16>().each_call(&|m| { m.func(|_, _| false); }).returns(1u32))"
        expect = f"{callname}: No matching call patterns. "
    return f"""    #[unimock(api=Mk)]
    {decl} {{
        fn f(&self, a0: &str, a1: T) -> u32;
    }}
    pub fn run() -> Result<(), String> {{
        let u = {new}.no_verify_in_drop();
        let r = vh::obs::catch(|| <Unimock as Tr<u16>>::f(&u, "k", 42u16));
        let expect = {rs_str(expect)};
        match r {{
            Err(msg) if msg == expect => Ok(()),
            other => Err(format!("expected the message {{expect:?}}, observed {{other:?}}")),
        }}
    }}
"""


# ----------------------------------------------------------------------------------------- (B)

SUBPATS = ["1", "_", "0 | 2", "eq!(&1)", "ne!(&1)", "0x1..=0b10"]
# sub-patterns over Option<u8>, among them refutable bare identifiers (`None`)
SUBPATS_OPT = ["None", "Some(1)", "Some(_)", "_", "Some(0) | None"]
OPT_DOMAIN = [("None", "None"), ("Some(0u8)", "Some(0)"), ("Some(1u8)", "Some(1)")]


# sub-patterns over &str, char and a type whose Debug rendering hides the field that == reads
SUBPATS_STR = ['"a" | "b"', '"a"', '"o\'b" | "bl\u00e5"', '"\u00e9t\u00e9"']
SUBPATS_CHAR = ["'a'..='f'", "'x' | 'y'", "'\"' | '\u00e5'"]
SUBPATS_HID = ["eq!(&Hid(1, 0))", "ne!(&Hid(1, 0))"]
# type name -> (parameter type, [(argument literal, Debug rendering, value for `accepts`)])
TYPED = {
    "u8": ("u8", [(f"{v}u8", str(v), v) for v in range(3)]),
    "opt": ("Option<u8>", [(lit, shown, shown) for lit, shown in OPT_DOMAIN]),
    "str": ("&str", [('"a"', '"a"', "a"), ('"c"', '"c"', "c"), ('""', '""', "")]),
    "char": ("char", [("'a'", "'a'", "a"), ("'g'", "'g'", "g"), ("'\\n'", "'\\n'", "\n")]),
    "hid": ("Hid", [("Hid(1, 0)", "Hid(1)", (1, 0)), ("Hid(1, 1)", "Hid(1)", (1, 1)), ("Hid(2, 0)", "Hid(2)", (2, 0))]),
}


def accepts(sp, v):
    if sp == "_":
        return True
    if sp in SUBPATS_STR:
        return v in [x.strip().strip('"') for x in sp.split("|")]
    if sp in SUBPATS_CHAR:
        return ("a" <= v <= "f") if ".." in sp else v in [x.strip().strip("'") for x in sp.split("|")]
    if sp in SUBPATS_HID:
        return (v == (1, 0)) == sp.startswith("eq!")
    if sp in SUBPATS_OPT:
        return {"None": v == "None", "Some(1)": v == "Some(1)", "Some(_)": v != "None", "Some(0) | None": v in ("Some(0)", "None")}[sp]
    if sp == "1":
        return v == 1
    if sp == "0 | 2":
        return v in (0, 2)
    if sp == "0x1..=0b10":
        # a range whose bounds are not written in decimal: named by its source text all the same
        return v in (1, 2)
    if sp == "eq!(&1)":
        return v == 1
    if sp == "ne!(&1)":
        return v != 1
    raise ValueError(sp)


def mismatch_kind(sp):
    if sp.startswith("eq!"):
        return "Equality"
    if sp.startswith("ne!"):
        return "Inequality"
    return "Pattern"


def pinned_text(pats):
    """Source text of a pattern tuple as the macro renders it (only for the pinned subset)."""
    if any(p.startswith(("eq!", "ne!")) for p in pats):
        return None
    return "(" + ", ".join(pats) + ")"


def render_b(idx, pats, mode):
    if any(p in SUBPATS_OPT and p != "_" for p in pats) or (isinstance(mode, tuple)):
        return render_b_typed(idx, pats, mode)
    n = len(pats)
    params = ", ".join(f"a{p}: u8" for p in range(n))
    pat_text = ", ".join(pats)
    text = pinned_text(pats)
    name_check = f'if !msg.contains(&format!("Tr::f{text} at {{}}:{{}}", file!(), line)) {{ return Err(format!("pattern not named by source text and location (line {{line}}): {{msg}}")); }}' if text else 'if !msg.contains(&format!(" at {}:{}", file!(), line)) { return Err(format!("pattern location missing (line {line}): {msg}")); }'
    cases = []
    for vals in itertools.product(range(3), repeat=n):
        rej = [p for p in range(n) if not accepts(pats[p], vals[p])]
        if not rej:
            continue
        exp = ", ".join(f'({p}, "{mismatch_kind(pats[p])}", "{vals[p]}")' for p in rej)
        if mode == "unordered3":
            # a third pattern (all 9s) rejects every position
            exp += ", " + ", ".join(f'({p}, "Pattern", "{vals[p]}")' for p in range(n))
        cases.append(f"(vec![{', '.join(str(v) + 'u8' for v in vals)}], vec![{exp}])")
    if mode == "unordered":
        new = f"Unimock::new(clause)"
        clause = f"let (clause, line) = (Mk::f.each_call(matching!({pat_text})).returns(1u32), line!());"
        head = "No matching call patterns."
        prefix = ""
    elif mode == "unordered2":
        # a second pattern that rejects everything: entries are labelled with the pattern index
        new = "Unimock::new(clause)"
        clause = f"let (clause, line) = (Mk::f.stub(|each| {{ each.call(matching!({pat_text})).returns(1u32); each.call(&|m| {{ m.func(|_, _| false); }}).returns(2u32); }}), line!());"
        head = "No matching call patterns."
        prefix = ""
    elif mode == "unordered3":
        # three patterns: a hand-written matcher that rejects without reporting, the pattern under
        # test, and one that rejects every position: entries carry the index of *their* pattern
        new = "Unimock::new(clause)"
        nines = ", ".join("9" for _ in pats)
        clause = f"let (clause, line) = (Mk::f.stub(|each| {{ each.call(&|m| {{ m.func(|_, _| false); }}).returns(0u32); each.call(matching!({pat_text})).returns(1u32); each.call(matching!({nines})).returns(2u32); }}), line!());"
        head = "No matching call patterns."
        prefix = ""
    elif mode == "ordered2":
        # a second ordered pattern of the same method that rejects the arguments as well: the report
        # is about the pattern in line only
        new = "Unimock::new(clause)"
        nines = ", ".join("9" for _ in pats)
        clause = f"let (clause, line) = ((Mk::f.next_call(matching!({pat_text})).returns(1u32), Mk::f.next_call(matching!({nines})).returns(2u32)), line!());"
        head = "but inputs didn't match"
        prefix = ""
        mode = "ordered"
    elif mode == "ordered-multiline":
        # the invocation spans several lines: the pattern is named by the line of `matching!(`
        new = "Unimock::new(clause)"
        spread = (",\n                ").join(pats)
        clause = f"let (line, clause) = (line!(), Mk::f.next_call(matching!(\n                {spread}\n            )).returns(1u32));"
        head = "but inputs didn't match"
        prefix = ""
        mode = "ordered"
    else:
        new = "Unimock::new(clause)"
        clause = f"let (clause, line) = (Mk::f.next_call(matching!({pat_text})).returns(1u32), line!());"
        head = "but inputs didn't match"
        prefix = ""
    args = ", ".join(f"vals[{p}]" for p in range(n))
    rendered = ', '.join('{}' for _ in range(n))
    rendered_args = ", ".join(f"vals[{p}]" for p in range(n))
    named = name_check if mode == "ordered" else "let _ = line;"
    labels_check = ""
    if mode == "unordered3":
        labels_check = f"""let labels = parse_pattern_labels(&msg);
            let n_first = expected.len() - {n};
            let want_labels: Vec<Option<usize>> = (0..expected.len()).map(|k| Some(if k < n_first {{ 1 }} else {{ 2 }})).collect();
            if labels != want_labels {{
                return Err(format!("arguments {{vals:?}}: each entry must carry the index of the pattern that rejected the position ({{want_labels:?}}), the report has {{labels:?}}; message: {{msg}}"));
            }}"""
    return f"""    #[unimock(api=Mk)]
    pub trait Tr {{
        fn f(&self, {params}) -> u32;
    }}
    pub fn run() -> Result<(), String> {{
        let cases: Vec<(Vec<u8>, Vec<(usize, &str, &str)>)> = vec![
            {(',' + chr(10) + '            ').join(cases)}
        ];
        for (vals, expected) in cases {{
            {clause}
            let u = {new}.no_verify_in_drop();
            let msg = match vh::obs::catch(|| u.f({args})) {{
                Err(msg) => msg,
                Ok(v) => return Err(format!("arguments {{vals:?}} must be rejected, the call returned {{v}}")),
            }};
            let call = format!("Tr::f({rendered})", {rendered_args});
            if !msg.starts_with(&format!("{{call}}: ")) || !msg.contains("{head}") {{
                return Err(format!("arguments {{vals:?}}: message does not render the call as {{call}}: {{msg}}"));
            }}
            {named}
            let entries = parse_mismatches(&msg);
            let want: Vec<(usize, String, String)> = expected.iter().map(|(p, k, a)| (*p, k.to_string(), a.to_string())).collect();
            if entries != want {{
                return Err(format!("arguments {{vals:?}} against ({pat_text}): the report must list exactly the rejected positions with their values {{want:?}}, it lists {{entries:?}}; message: {{msg}}"));
            }}
            {labels_check}
        }}
        Ok(())
    }}
"""


def render_b_typed(idx, pats, mode):
    """Like render_b, with per-position parameter types (u8 or Option<u8>); `mode` = (mode, types)."""
    mode, types = mode
    n = len(pats)
    params = ", ".join(f"a{p}: {TYPED[types[p]][0]}" for p in range(n))
    pat_text = ", ".join(pats)
    text = pinned_text(pats)
    doms = [TYPED[types[p]][1] for p in range(n)]
    cases = []
    for combo in itertools.product(*doms):
        rej = [p for p in range(n) if not accepts(pats[p], combo[p][2])]
        if not rej:
            continue
        # (for the type with the reticent Debug the entry carries prose next to the value: `~` = contains)
        exp = ", ".join(f'({p}, "{mismatch_kind(pats[p])}", r#"{"~" if types[p] == "hid" else ""}{combo[p][1]}"#)' for p in rej)
        shown = ", ".join(c[1] for c in combo)
        lits = ", ".join(c[0] for c in combo)
        cases.append(f'(r#"{shown}"#, Box::new(|u: &Unimock| u.f({lits})) as Box<dyn Fn(&Unimock) -> u32>, vec![{exp}])')
    entry = "each_call" if mode == "unordered" else "next_call"
    head = "No matching call patterns." if mode == "unordered" else "but inputs didn't match"
    named = (f'if !msg.contains(&format!("Tr::f{{}} at {{}}:{{}}", r#"{text}"#, file!(), line)) {{ return Err(format!("pattern not named by source text and location (line {{line}}): {{msg}}")); }}' if text else 'if !msg.contains(&format!(" at {}:{}", file!(), line)) { return Err(format!("pattern location missing (line {line}): {msg}")); }') if mode == "ordered" else "let _ = line;"
    return f"""    #[unimock(api=Mk)]
    pub trait Tr {{
        fn f(&self, {params}) -> u32;
    }}
    pub fn run() -> Result<(), String> {{
        let cases: Vec<(&str, Box<dyn Fn(&Unimock) -> u32>, Vec<(usize, &str, &str)>)> = vec![
            {(',' + chr(10) + '            ').join(cases)}
        ];
        for (shown, call_it, expected) in cases {{
            let (clause, line) = (Mk::f.{entry}(matching!({pat_text})).returns(1u32), line!());
            let u = Unimock::new(clause).no_verify_in_drop();
            let msg = match vh::obs::catch(|| call_it(&u)) {{
                Err(msg) => msg,
                Ok(v) => return Err(format!("arguments ({{shown}}) must be rejected, the call returned {{v}}")),
            }};
            let call = format!("Tr::f({{shown}})");
            if !msg.starts_with(&format!("{{call}}: ")) || !msg.contains("{head}") {{
                return Err(format!("arguments ({{shown}}): message does not render the call as {{call}}: {{msg}}"));
            }}
            {named}
            let entries = parse_mismatches(&msg);
            let want: Vec<(usize, String, String)> = expected.iter().map(|(p, k, a)| (*p, k.to_string(), a.to_string())).collect();
            if !same_entries(&entries, &want) {{
                return Err(format!("arguments ({{shown}}) against ({{}}): the report must list exactly the rejected positions with their values {{want:?}}, it lists {{entries:?}}; message: {{msg}}", r#"{pat_text}"#));
            }}
        }}
        Ok(())
    }}
"""


PRELUDE_B = PRELUDE + """
/// A type whose Debug rendering hides the field that distinguishes unequal values.
#[derive(Clone, PartialEq)]
pub struct Hid(pub u8, pub u8);
impl core::fmt::Debug for Hid {
    fn fmt(&self, f: &mut core::fmt::Formatter<'_>) -> core::fmt::Result {
        write!(f, "Hid({})", self.0)
    }
}

/// The `call pattern #k` label of every mismatch entry, in order of appearance (None = no label).
pub fn parse_pattern_labels(msg: &str) -> Vec<Option<usize>> {
    msg.match_indices(" mismatch for ")
        .map(|(i, m)| {
            msg[i + m.len()..]
                .strip_prefix("call pattern #")
                .and_then(|r| r.chars().take_while(|c| c.is_ascii_digit()).collect::<String>().parse().ok())
        })
        .collect()
}

/// Listed entries against expected ones; an expected value starting with `~` must be contained.
pub fn same_entries(entries: &[(usize, String, String)], want: &[(usize, String, String)]) -> bool {
    entries.len() == want.len()
        && entries.iter().zip(want).all(|(e, w)| {
            e.0 == w.0 && e.1 == w.1 && match w.2.strip_prefix('~') {
                Some(part) => e.2.contains(part) && !e.2.contains("missing #[derive(Debug)]"),
                None => e.2 == w.2,
            }
        })
}
"""
PRELUDE_B += """
/// (position, kind, actual value) of every mismatch entry of a message, in order of appearance.
pub fn parse_mismatches(msg: &str) -> Vec<(usize, String, String)> {
    let mut out = vec![];
    let mut rest = msg;
    loop {
        let mut best: Option<(usize, &str)> = None;
        for kind in ["Pattern", "Equality", "Inequality"] {
            let needle = format!("{kind} mismatch for ");
            if let Some(i) = rest.find(&needle) {
                if best.map(|(b, _)| i < b).unwrap_or(true) {
                    best = Some((i, kind));
                }
            }
        }
        let Some((i, kind)) = best else { break };
        let after = &rest[i..];
        let Some(h) = after.find("input #") else { break };
        let digits: String = after[h + 7..].chars().take_while(|c| c.is_ascii_digit()).collect();
        let pos: usize = digits.parse().unwrap_or(usize::MAX);
        let Some(colon) = after.find(":\\n") else { break };
        let body = &after[colon + 2..];
        // the body runs to the next entry (or the end)
        let mut end = body.len();
        for k2 in ["Pattern mismatch for ", "Equality mismatch for ", "Inequality mismatch for "] {
            if let Some(j) = body.find(k2) {
                end = end.min(j);
            }
        }
        let entry = &body[..end];
        let actual = if let Some(a) = entry.find("actual: ") {
            let tail = &entry[a + 8..];
            let stop = tail.find("expected: ").unwrap_or(tail.len());
            tail[..stop].trim().to_string()
        } else {
            entry.trim().to_string()
        };
        out.push((pos, kind.to_string(), actual));
        rest = &body[end..];
    }
    out
}
"""


def instances(tier):
    insts = []

    def add(key, code, meta):
        insts.append(Instance(len(insts), key, code, meta))

    quick = tier == "quick"
    # (A)
    lists = [[]] + [[k] for k in KINDS]
    lists += [list(t) for t in itertools.product(KINDS, repeat=2)] if not quick else [[a, b] for a, b in zip(KINDS, KINDS[1:] + KINDS[:1])]
    lists += [["mutlt"], ["u8", "mutlt"], ["mutlt", "str"], ["u8", "mutlt", "str"]]
    lists += [["u8", "mut", "str"], ["nodbg", "refref", "slice", "string"], ["gen_nodbg", "ref", "gen_dbg"], ["optref", "refnodbg", "u8", "mut"]]
    errs_full = ERRORS
    for l in lists:
        if l.count("gen_dbg") > 1 or l.count("gen_nodbg") > 1:
            continue
        errs = errs_full if (len(l) != 2 or quick) else ["no_impl", "no_impl_hidden", "no_match", "ordered_mismatch", "explicit"]
        for e in errs:
            add(f"render:{','.join(l)}/{e}", render_a(len(insts), l, e), {"part": "A"})
    for roles in itertools.permutations(["f", "g", "h"], 3):
        add(f"wrong-order:{roles[0]}-then-{roles[1]}/stub-on-{roles[2]}", render_wrong_order(len(insts), roles[0], roles[1], roles[2]), {"part": "A"})
        add(f"wrong-order:{roles[0]}-then-{roles[1]}/no-stub", render_wrong_order(len(insts), roles[0], roles[1], None), {"part": "A"})
    for bound_form in ("inline", "where", "none"):
        for e in ("no_impl", "no_match"):
            add(f"render-trait-generic:{bound_form}/{e}", render_trait_generic(len(insts), bound_form, e), {"part": "A"})
    # (B)
    for n in (2, 3):
        for pats in itertools.product(SUBPATS, repeat=n):
            if all(p == "_" for p in pats):
                continue
            if quick and n == 3 and pats.count("_") == 0:
                continue
            for mode in ("unordered", "unordered2", "unordered3", "ordered", "ordered2", "ordered-multiline"):
                if mode == "unordered3" and (n == 3 or (quick and pats.count("_") == 0)):
                    continue
                if mode == "ordered2" and (n == 3 and quick):
                    continue
                if mode == "unordered2" and (quick or n == 3):
                    continue
                if mode == "ordered-multiline" and (pinned_text(pats) is None or (quick and n == 3)):
                    continue
                add(f"mismatch:({', '.join(pats)})/{mode}", render_b(len(insts), list(pats), mode), {"part": "B"})
    # (B, typed) Option<u8> positions: refutable bare identifiers, tuple-struct and or-patterns
    for pats in itertools.product(SUBPATS_OPT, repeat=2):
        if all(p == "_" for p in pats):
            continue
        for mode in ("unordered", "ordered"):
            add(f"mismatch-opt:({', '.join(pats)})/{mode}", render_b(len(insts), list(pats), (mode, ["opt", "opt"])), {"part": "B"})
    for a in SUBPATS:
        for b in SUBPATS_OPT:
            if a == "_" and b == "_":
                continue
            for (pats, types) in (([a, b], ["u8", "opt"]), ([b, a], ["opt", "u8"])):
                for mode in ("unordered", "ordered"):
                    if quick and mode == "ordered" and types[0] == "opt":
                        continue
                    add(f"mismatch-mixed:({', '.join(pats)})/{mode}", render_b(len(insts), pats, (mode, types)), {"part": "B"})
    # (B, typed) string, char and reticent-Debug positions: the listed value is its Debug rendering
    for mode in ("unordered", "ordered"):
        for sp in SUBPATS_STR:
            add(f"mismatch-str:({sp})/{mode}", render_b(len(insts), [sp], (mode, ["str"])), {"part": "B"})
            add(f"mismatch-str:(1, {sp})/{mode}", render_b(len(insts), ["1", sp], (mode, ["u8", "str"])), {"part": "B"})
        for sp in SUBPATS_CHAR:
            add(f"mismatch-char:({sp})/{mode}", render_b(len(insts), [sp], (mode, ["char"])), {"part": "B"})
            add(f"mismatch-char:({sp}, 0 | 2)/{mode}", render_b(len(insts), [sp, "0 | 2"], (mode, ["char", "u8"])), {"part": "B"})
        for sp in SUBPATS_HID:
            add(f"mismatch-hid:({sp})/{mode}", render_b(len(insts), [sp], (mode, ["hid"])), {"part": "B"})
            add(f"mismatch-hid:({sp}, 1)/{mode}", render_b(len(insts), [sp, "1"], (mode, ["hid", "u8"])), {"part": "B"})
    if not quick:
        for pats in itertools.product(SUBPATS_OPT, repeat=3):
            if pats.count("_") != 1:
                continue
            add(f"mismatch-opt:({', '.join(pats)})/unordered", render_b(len(insts), list(pats), ("unordered", ["opt"] * 3)), {"part": "B"})
    return insts


def run(pid, tier, replay, start):
    rep = glib.Reporter(pid)
    insts = instances(tier)
    if replay:
        import json
        want = json.load(open(replay))["case"]["instance"]
        insts = [i for i in insts if i.key == want] or glib.machinery("instance not in this tier")
    crate = glib.Crate("g_c19", features=("std",), prelude=PRELUDE_B)
    crate_toml_fix(crate)
    kept, rejected = glib.build_until_green(crate, insts)
    results = crate.run()
    by_idx = {i.idx: i for i in insts}
    n_ok = 0
    for inst in kept:
        ok, msg = results.get(inst.idx, (False, "no result"))
        if ok:
            n_ok += 1
        else:
            rep.violation(f"instance:{inst.key}", f"{inst.key}: {msg}", {"instance": inst.key})
    for k, v in results.items():
        if isinstance(k, tuple):
            rep.violation("generated-program-died", v[1], {"bin": k[1]})
    if len(kept) < 100:
        glib.machinery("vacuous: fewer than 100 accepted instances")
    a = [i for i in kept if i.meta["part"] == "A"]
    b = [i for i in kept if i.meta["part"] == "B"]
    cov = {
        "evaluations": len(kept),
        "distinct_nontrivial": len(set(i.key for i in kept)),
        "rule": "(A) parameter lists of arity 1 (all 12 kinds), arity 2 (all ordered pairs; quick: a cycle of pairs), four lists of arity 3-4 x 9 mock-induced error kinds (the missing-implementation error also for a trait mocked without api=), exact message text predicted by the generator, plus the wrong-order message for every assignment of {first ordered, second ordered, unordered stub} to three methods; (B) every tuple of 2-3 sub-patterns over {1, _, 0 | 2, eq!(&1), ne!(&1)} x every failing argument tuple of {0,1,2}^n, in unordered (one / two / three patterns, entries labelled with their pattern's index) and ordered mode, typed positions (Option<u8>, &str with string-literal or-patterns, char with ranges, a type whose Debug rendering hides the field == reads, under eq!/ne!), mismatch entries parsed from the message; every instance is non-trivial (a message is produced and compared); distinct = distinct instance keys",
        "samples": [{"instance": a[len(a) // 2].key, "code": a[len(a) // 2].code[:900]}, {"instance": b[len(b) // 2].key}],
        "exhaustive": True,
        "rendering_instances": len(a),
        "mismatch_instances": len(b),
        "rejected_by_macro_or_compiler": len(rejected),
        "rejected": sorted(by_idx[i].key for i in rejected)[:40],
        "passed": n_ok,
    }
    glib.write_evidence(pid, tier, "exploration", cov, start, rep.violations,
                        ["built without the pretty-print feature so that actual / expected values appear as plain text",
                         "pattern source text is compared exactly for the subset whose rendering is pinned by the macro crate's own unit tests (literals, _, or-patterns); for eq!/ne! only the location is compared",
                         "the concurrent half (messages of racing ordered calls) is covered by C10's sequential-candidate oracle, which compares recorded error texts"],
                        rep.known_hits)
    return rep.exit_code()


def crate_toml_fix(crate):
    """vh is pulled in without its default features (they would switch pretty-print on)."""
    orig_write = crate.write

    def write(instances):
        orig_write(instances)
        path = os.path.join(crate.dir, "Cargo.toml")
        text = open(path).read().replace('vh = { path = "../../vh" }', 'vh = { path = "../../vh", default-features = false, features = ["plain"] }')
        open(path, "w").write(text)

    crate.write = write

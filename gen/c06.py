"""C06 - matching! accepts exactly what the equivalent Rust match would accept.

A catalogue-driven bounded grammar of matcher invocations: per argument type a set of sub-patterns
(literals, ranges, wildcards, bindings, @-bindings, or-patterns, tuple / struct / enum / Option
patterns, slice patterns with rest, string literals against &str / String / an AsRef<str> newtype,
eq!/ne!), 1-3 arguments, the simple form and the disjunctive form, guards over bindings. Every
instance is run over *all* argument tuples of its finite domain in three evaluation modes
(unordered strict: diagnostics off then on; unordered with a catch-all behind it: diagnostics off
only; ordered: diagnostics on) and compared with a native `match` on the same arguments that is
emitted next to it (patterns, guard and ==/!= written as a user would write them by hand).
"""
import itertools
import os
import sys

sys.path.insert(0, os.path.dirname(os.path.abspath(__file__)))
import glib  # noqa: E402
from glib import Instance  # noqa: E402

PRELUDE = """
use unimock::*;

#[derive(Clone, Debug, PartialEq)]
pub struct S { pub a: u8, pub b: bool }

#[derive(Clone, Debug, PartialEq)]
pub enum E { A, B(u8), C { v: u8 } }

#[derive(Clone, Debug, PartialEq)]
pub enum Color { Red, Green, Blue }
pub use Color::*;

/// `==` is not symmetric: the right operand's `w` makes it a wildcard.
#[derive(Clone, Debug)]
pub struct Q { pub v: u8, pub w: bool }
impl PartialEq for Q { fn eq(&self, other: &Q) -> bool { other.w || self.v == other.v } }

/// Equal to a `str` regardless of case; its `AsRef<str>` view is the raw text.
#[derive(Clone, Debug)]
pub struct Hdr(pub &'static str);
impl PartialEq<str> for Hdr { fn eq(&self, other: &str) -> bool { self.0.eq_ignore_ascii_case(other) } }
impl PartialEq<&str> for Hdr { fn eq(&self, other: &&str) -> bool { self.0.eq_ignore_ascii_case(other) } }
impl AsRef<str> for Hdr { fn as_ref(&self) -> &str { self.0 } }

#[derive(Clone, Debug, PartialEq)]
pub struct Newtype(pub String);
impl AsRef<str> for Newtype { fn as_ref(&self) -> &str { self.0.as_str() } }
"""

# type -> (rust type, [value expressions], coercion for literal kinds)
TYPES = {
    "u8": ("u8", ["0u8", "1u8", "2u8", "3u8"]),
    "opt": ("Option<u8>", ["None", "Some(0u8)", "Some(1u8)", "Some(2u8)"]),
    "tup": ("(u8, bool)", ["(0u8, false)", "(1u8, true)", "(1u8, false)", "(2u8, true)"]),
    "pair": ("(u8, u8)", ["(0u8, 1u8)", "(1u8, 0u8)", "(2u8, 2u8)", "(1u8, 3u8)", "(3u8, 0u8)"]),
    "S": ("S", ["S { a: 0, b: false }", "S { a: 1, b: true }", "S { a: 1, b: false }", "S { a: 2, b: true }"]),
    "E": ("E", ["E::A", "E::B(0)", "E::B(1)", "E::B(2)", "E::C { v: 0 }", "E::C { v: 1 }"]),
    "color": ("Color", ["Red", "Green", "Blue"]),
    "asym": ("Q", ["Q { v: 0, w: false }", "Q { v: 1, w: false }", "Q { v: 1, w: true }", "Q { v: 2, w: true }"]),
    "hdr": ("Hdr", ['Hdr("ct")', 'Hdr("CT")', 'Hdr("x")']),
    "str": ("&str", ['"a"', '"b"', '"c"']),
    "string": ("String", ['"a".to_string()', '"b".to_string()', '"c".to_string()']),
    "newtype": ("Newtype", ['Newtype("a".to_string())', 'Newtype("b".to_string())', 'Newtype("c".to_string())']),
    "vec": ("Vec<u8>", ["vec![]", "vec![1u8]", "vec![1u8, 2]", "vec![2u8, 1]", "vec![1u8, 2, 3]"]),
    "slice": ("&[u8]", ["&[][..]", "&[1u8][..]", "&[1u8, 2][..]", "&[2u8, 1][..]", "&[1u8, 2, 3][..]"]),
}

# sub-pattern: (text, kind) kind in {"pat","strlit","slice","eq","ne"}; bindings named via {b}
ATOMS = {
    "u8": ["0", "1", "3", "1..=2", "2..", "_", "{b}", "{b} @ 1..=2", "0 | 3", "1 | 2 | 3", "eq!(&1)", "ne!(&1)", "eq!(&3)"],
    "opt": ["None", "Some(1)", "Some(_)", "Some(0 | 2)", "Some({b})", "Some({b} @ 1..=2)", "_", "{b}", "None | Some(0)", "eq!(&Some(1))", "ne!(&None)"],
    "tup": ["(1, true)", "(_, false)", "(0..=1, _)", "({b}, _)", "{b}", "_", "(1, _) | (_, true)", "(0 | 2, true | false)"],
    # or-patterns whose cases bind the same name to different parts of the value: a guard is
    # evaluated for every case that matches
    "pair": ["({b}, _) | (_, {b})", "({b}, 0) | (0, {b})", "(1, {b}) | ({b}, 1..=3)", "({b}, _)", "(1, _) | (_, 1)", "_"],
    "S": ["S { a: 1, .. }", "S { a: _, b: true }", "S { .. }", "S { a: 0..=1, b: _ }", "S { a: {b}, b: false }", "_", "eq!(&S { a: 1, b: true })"],
    "E": ["E::A", "E::B(1)", "E::B(_)", "E::C { v: 0..=0 }", "E::A | E::B(2)", "E::C { .. }", "E::B({b})", "_", "ne!(&E::A)"],
    "color": ["Red", "Green | Blue", "Color::Blue", "_"],
    # eq!/ne! are the argument's own `==` / `!=` with the operand on the right
    "asym": ["eq!(&Q { v: 0, w: true })", "eq!(&Q { v: 1, w: false })", "ne!(&Q { v: 0, w: true })", "ne!(&Q { v: 2, w: false })", "_"],
    "hdr": ['eq!("ct")', 'ne!("ct")', 'eq!("X")', "_"],
    "str": ['"a"', '"a" | "b"', "_", "{b}", '"c" | "a"'],
    "string": ['"a"', '"a" | "b"', "_", "{b}"],
    "newtype": ['"a"', '"b" | "c"', "_"],
    "vec": ["[]", "[1]", "[1, ..]", "[.., 2]", "[_, _]", "[1, .., 3]", "[{b}, ..]", "[_, {b}]", "_", "[] | [_]"],
    "slice": ["[]", "[1, ..]", "[.., 1]", "[_]", "_", "[{b}, _, ..]"],
}

# guards over a u8 binding named {b} (a reference)
GUARDS_U8 = ["*{b} >= 2", "*{b} == 1 || *{b} == 3", "*{b} != 0 && *{b} != 3"]


def is_strlit(atom):
    return atom.startswith('"')


def is_slice(atom):
    return atom.startswith("[")


def cmp_kind(atom):
    if atom.startswith("eq!("):
        return "==", atom[4:-1]
    if atom.startswith("ne!("):
        return "!=", atom[4:-1]
    return None


def binding_name(atom, pos, alt=0):
    return atom.replace("{b}", f"b{alt}_{pos}")


def render(idx, s):
    """s: dict(types=[...], alts=[[atom,...],...], guard=str|None)"""
    types, alts, guard = s["types"], s["alts"], s.get("guard")
    n = len(types)
    rust_tys = [TYPES[t][0] for t in types]
    params = ", ".join(f"a{i}: {t}" for i, t in enumerate(rust_tys))
    # matching! text
    alt_texts = []
    for ai, alt in enumerate(alts):
        alt_texts.append(", ".join(binding_name(a, i, 0) for i, a in enumerate(alt)))
    if len(alts) == 1 and guard is None:
        m_text = alt_texts[0]
    else:
        m_text = " | ".join(f"({t})" for t in alt_texts)
        if guard is not None:
            m_text += f" if {guard}"
    # native match: per position decide the scrutinee coercion from the parameter *type*
    scrut = []
    for i, t in enumerate(types):
        col = [alt[i] for alt in alts]
        if t in ("str", "string", "newtype") and any(is_strlit(a.split(" | ")[0]) for a in col):
            scrut.append(f"AsRef::<str>::as_ref(nat{i})")
        elif t in ("vec", "slice") and any(is_slice(a.split(" | ")[0]) for a in col):
            scrut.append(f"AsRef::<[u8]>::as_ref(nat{i})")
        else:
            scrut.append(f"nat{i}")
    arms = []
    for ai, alt in enumerate(alts):
        pats = []
        guards = []
        if guard is not None:
            guards.append(f"({guard})")
        for i, a in enumerate(alt):
            c = cmp_kind(a)
            if c:
                pats.append("_")
                guards.append(f"(nat{i} {c[0]} {c[1]})")
            else:
                pats.append(binding_name(a, i, 0))
        pat = pats[0] if n == 1 else "(" + ", ".join(pats) + ")"
        g = (" if " + " && ".join(guards)) if guards else ""
        arms.append(f"            {pat}{g} => true,")
    scrut_expr = scrut[0] if n == 1 else "(" + ", ".join(scrut) + ")"
    # (the parameters of the native function have names no catalogue binding uses)
    native_params = ", ".join(f"nat{i}: &{t}" for i, t in enumerate(rust_tys))
    wild = ", ".join("_" for _ in types)
    vals = "\n        ".join(f"let vals{i}: Vec<{t}> = vec![{', '.join(TYPES[ty][1])}];" for i, (t, ty) in enumerate(zip(rust_tys, types)))
    loops_open = "".join(f"for v{i} in vals{i}.iter() {{ " for i in range(n))
    loops_close = "}" * n
    call_args = ", ".join(f"v{i}.clone()" for i in range(n))
    native_args = ", ".join(f"v{i}" for i in range(n))
    shown = ", ".join(f"{{v{i}:?}}" for i in range(n))
    return f"""    #[unimock(api=Mk)]
    pub trait Tr {{
        fn f(&self, {params}) -> u32;
    }}
    #[allow(unreachable_patterns)]
    fn native({native_params}) -> bool {{
        match {scrut_expr} {{
{chr(10).join(arms)}
            _ => false,
        }}
    }}
    pub fn run() -> Result<(), String> {{
        {vals}
        let mut accepted = 0usize;
        let mut rejected = 0usize;
        {loops_open}
            let expect = native({native_args});
            if expect {{ accepted += 1; }} else {{ rejected += 1; }}
            // unordered, strict: diagnostics off; when nothing matched the matcher runs again with diagnostics on
            let u = Unimock::new(Mk::f.each_call(matching!({m_text})).returns(1u32)).no_verify_in_drop();
            let got = vh::obs::catch(|| u.f({call_args}));
            let ok = match &got {{
                Ok(1) => expect,
                Err(msg) if msg.contains("No matching call patterns") => !expect,
                _ => false,
            }};
            if !ok {{
                return Err(format!("unordered: arguments ({shown}) {{}} by the equivalent match, but the call gave {{got:?}}", if expect {{ "are accepted" }} else {{ "are rejected" }}));
            }}
            // unordered with a catch-all behind: diagnostics are never collected
            let u = Unimock::new((
                Mk::f.each_call(matching!({m_text})).returns(1u32),
                Mk::f.each_call(matching!({wild})).returns(2u32),
            )).no_verify_in_drop();
            let got = vh::obs::catch(|| u.f({call_args}));
            if got != Ok(if expect {{ 1 }} else {{ 2 }}) {{
                return Err(format!("unordered with fallback: arguments ({shown}) {{}} by the equivalent match, but the call gave {{got:?}}", if expect {{ "are accepted" }} else {{ "are rejected" }}));
            }}
            // ordered: diagnostics are collected during the decision
            let u = Unimock::new(Mk::f.next_call(matching!({m_text})).returns(1u32)).no_verify_in_drop();
            let got = vh::obs::catch(|| u.f({call_args}));
            let ok = match &got {{
                Ok(1) => expect,
                Err(msg) if msg.contains("inputs didn't match") => !expect,
                _ => false,
            }};
            if !ok {{
                return Err(format!("ordered: arguments ({shown}) {{}} by the equivalent match, but the call gave {{got:?}}", if expect {{ "are accepted" }} else {{ "are rejected" }}));
            }}
        {loops_close}
        vh::gsupport::ev(format!("{{accepted}}/{{rejected}}"));
        Ok(())
    }}
"""


def key(s):
    return "|".join(s["types"]) + " :: " + " | ".join("(" + ", ".join(a) + ")" for a in s["alts"]) + (f" if {s['guard']}" if s.get("guard") else "")


def shapes(tier):
    out = []
    seen = set()

    def add(types, alts, guard=None, must_accept=False):
        s = dict(types=list(types), alts=[list(a) for a in alts], guard=guard, must_accept=must_accept)
        k = key(s)
        if k not in seen:
            seen.add(k)
            out.append(s)

    quick = tier == "quick"
    # 1 argument: every atom of every type; every u8-binding atom with every guard
    for t, atoms in ATOMS.items():
        for a in atoms:
            add([t], [[a]])
    for t, atoms in ATOMS.items():
        for a in atoms:
            if "{b}" in a and t in ("u8", "opt", "tup", "pair", "S", "E", "vec", "slice"):
                for g in GUARDS_U8:
                    if t in ("tup",) and a == "{b}":
                        continue
                    if t in ("opt",) and a == "{b}":
                        continue
                    add([t], [[a]], g.replace("{b}", "b0_0"))
    for a in ATOMS["pair"]:
        if "{b}" in a:
            for g in ["*{b} == 3", "*{b} == 0", "*{b} > 1"]:
                add(["pair"], [[a]], g.replace("{b}", "b0_0"))
                add(["u8", "pair"], [["_", a]], g.replace("{b}", "b0_1"))
    # 2 arguments: pairs of types x reduced catalogues
    pairs = [("u8", "opt"), ("u8", "str"), ("str", "vec"), ("E", "u8"), ("string", "newtype"), ("slice", "color"), ("u8", "u8")]
    for t0, t1 in pairs:
        a0s = ATOMS[t0] if not quick else ATOMS[t0][:6]
        a1s = ATOMS[t1] if not quick else ATOMS[t1][:6]
        if not quick and len(a0s) * len(a1s) > 80:
            a0s, a1s = a0s[:9], a1s[:9]
        for a0, a1 in itertools.product(a0s, a1s):
            add([t0, t1], [[a0, a1]])
    # guards combined with eq!/ne! (operator precedence of the concatenated guard)
    for g in GUARDS_U8:
        for c in ["ne!(&1)", "eq!(&2)", "ne!(&3)"]:
            add(["u8", "u8"], [["{b}", c]], g.replace("{b}", "b0_0"))
            add(["u8", "u8"], [[c, "{b}"]], g.replace("{b}", "b0_1"))
            add(["u8", "u8", "u8"], [["{b}", c, "ne!(&0)"]], g.replace("{b}", "b0_0"))
    # disjunctive form: two alternatives over (u8, u8), eq!/ne! in every position combination
    datoms = ["0", "1..=2", "_", "eq!(&1)", "ne!(&2)", "eq!(&3)"]
    if quick:
        datoms = ["0", "_", "eq!(&1)", "ne!(&2)"]
    for alt1 in itertools.product(datoms, repeat=2):
        for alt2 in itertools.product(datoms, repeat=2):
            add(["u8", "u8"], [list(alt1), list(alt2)])
    # disjunctive form with literal kinds that disagree per position
    for alt1, alt2 in [(['"a"', "_"], ["_", "[2, ..]"]), (["_", "[1, ..]"], ['"b"', "_"]), (['"a" | "b"', "[]"], ['"c"', "[_]"]), (["_", "_"], ['"a"', "[1]"])]:
        add(["string", "vec"], [alt1, alt2])
        add(["newtype", "slice"], [alt1, alt2])
    # disjunctive form with a guard over a binding present in every alternative: the guard applies
    # to each alternative
    for g in GUARDS_U8:
        for l1, l2 in [("0", "1"), ("1", "3"), ("0 | 1", "2")]:
            add(["u8", "u8"], [[l1, "{b}"], [l2, "{b}"]], g.replace("{b}", "b0_1"))
            add(["u8", "u8"], [["{b}", l1], ["{b}", l2]], g.replace("{b}", "b0_0"))
            add(["u8", "u8"], [[l1, "{b}"], [l2, "{b}"], ["3", "{b}"]], g.replace("{b}", "b0_1"))
        add(["u8", "u8", "u8"], [["0", "{b}", "eq!(&1)"], ["1", "{b}", "ne!(&1)"]], g.replace("{b}", "b0_1"))
    # disjunctive form with a guard, and three alternatives (documented syntax)
    add(["u8", "u8"], [["{b}", "_"], ["_", "1"]], "true")
    # (the documentation shows `matching!((1, 2) | (3, 4) | (5, 6))`: these must be accepted)
    add(["u8", "u8"], [["0", "_"], ["_", "1"], ["3", "3"]], must_accept=True)
    add(["u8"], [["0"], ["1"], ["2"]], must_accept=True)
    add(["u8", "u8"], [["0", "0"], ["1", "1"], ["2", "2"], ["3", "eq!(&3)"]], must_accept=True)
    # disjunctive form over one structured argument: alternatives that differ only inside a struct /
    # enum / tuple pattern, or only in their path
    for t in ("S", "E", "tup", "color", "opt"):
        plain = [a for a in ATOMS[t] if "{b}" not in a and not a.startswith(("eq!", "ne!"))]
        pairs = list(itertools.permutations(plain, 2))
        if quick:
            pairs = [(plain[i], plain[(i + 1) % len(plain)]) for i in range(len(plain))] + [(plain[(i + 1) % len(plain)], plain[i]) for i in range(len(plain))]
        for a1, a2 in pairs:
            add([t], [[a1], [a2]])
    add(["S"], [["S { a: 0, .. }"], ["S { b: true, .. }"]])
    add(["S"], [["S { b: true, .. }"], ["S { a: 0, .. }"], ["S { a: 2, b: _ }"]])
    # binding names: a pattern may bind any identifier, also one that the generated closure uses for
    # something of its own (its parameters a<i>, the temporaries of eq!/ne! operands l<k> and of the
    # compared positions m<i>, the reporter, the mismatch binding of the diagnostics arm); the
    # decision must not depend on the name
    names = ["a0", "a1", "l0", "l1", "m0", "m1", "reporter", "mismatch"]
    if quick:
        names = ["a1", "a0", "l0", "m1", "m0", "reporter"]
    for nm in names:
        for c in ["eq!(&1)", "ne!(&2)"]:
            add(["u8", "u8"], [[nm, c]], must_accept="binding-name")
            add(["u8", "u8"], [[c, nm]], must_accept="binding-name")
            add(["u8", "u8"], [[nm, c]], f"*{nm} != 0", must_accept="binding-name")
            add(["u8", "u8"], [[c, nm]], f"*{nm} >= 2", must_accept="binding-name")
        add(["u8", "u8"], [[nm, "eq!(&1)"], ["eq!(&3)", nm]], must_accept="binding-name")
        add(["u8", "u8"], [[nm, "eq!(&1)"], ["ne!(&2)", nm]], f"*{nm} != 3", must_accept="binding-name")
        add(["u8", "u8", "u8"], [[nm, "eq!(&1)", "ne!(&2)"]], must_accept="binding-name")
        add(["u8", "u8", "u8"], [["eq!(&3)", "ne!(&0)", nm]], f"*{nm} == 1 || *{nm} == 2", must_accept="binding-name")
        add(["u8", "str"], [[nm, '"a"']], must_accept="binding-name")
        add(["str", "u8"], [['"a" | "b"', nm]], f"*{nm} >= 2", must_accept="binding-name")
        add(["u8"], [[f"{nm} @ 1..=2"]], f"*{nm} == 2", must_accept="binding-name")
    # a guard next to @-bindings and plain bindings it does not mention (they stay patterns all the same)
    for g in ["*w >= 2", "*w == 1 || *w == 3"]:
        add(["u8", "u8"], [["x @ 1..=2", "w"]], g)
        add(["u8", "u8"], [["w", "x @ (0 | 3)"]], g)
        add(["u8", "opt"], [["w", "Some(x @ 1..=2)"]], g)
        add(["u8", "u8", "u8"], [["x @ 2..", "w", "y @ 0"]], g)
    # guards containing || over disjunctions in which only a *later* alternative has eq!/ne!, and a
    # guard variable bound by different arguments in different alternatives
    for g in ["*{b} == 1 || *{b} == 2", "*{b} >= 2"]:
        gb = g.replace("{b}", "w")
        add(["u8", "u8"], [["w", "0"], ["w", "eq!(&3)"]], gb)
        add(["u8", "u8"], [["w", "0"], ["w", "ne!(&3)"]], gb)
        add(["u8", "u8"], [["w", "1..=2"], ["eq!(&0)", "w"]], gb)
        add(["u8", "u8"], [["w", "_"], ["_", "w"]], gb)
        add(["opt", "opt"], [["Some(w)", "_"], ["_", "Some(w)"]], gb)
        add(["u8", "u8", "u8"], [["w", "0", "_"], ["0", "w", "ne!(&1)"], ["_", "0", "w"]], gb)
    # user-defined equality: asymmetric ==, and == against a string literal for a type that also
    # has an AsRef<str> view
    for a in ATOMS["asym"]:
        add(["u8", "asym"], [["_", a]])
        add(["asym", "u8"], [[a, "1"], ["_", "0"]])
    for a in ATOMS["hdr"]:
        add(["hdr", "u8"], [[a, "_"]])
        add(["hdr", "u8"], [[a, "1..=2"], ["_", "3"]])
        add(["u8", "hdr"], [["0", a]], None)
    # eq! and ne! at the same position of different alternatives
    for c1, c2 in [("eq!(&1)", "ne!(&2)"), ("ne!(&2)", "eq!(&1)"), ("ne!(&0)", "eq!(&3)")]:
        add(["u8", "u8"], [[c1, "_"], [c2, "3"]])
        add(["u8", "u8"], [["0", c1], ["_", c2]])
        add(["u8", "u8"], [[c1, c2], [c2, c1]])
    # three arguments
    for a in itertools.product(["1", "_", "eq!(&2)", "0 | 3"], repeat=3):
        if quick and a.count("_") < 1:
            continue
        add(["u8", "u8", "u8"], [list(a)])
    # no arguments: matching!() accepts everything (rendered specially)
    return out


def render_noargs(idx):
    return """    #[unimock(api=Mk)]
    pub trait Tr {
        fn f(&self) -> u32;
        fn g(&self, a: u8, b: &str) -> u32;
    }
    pub fn run() -> Result<(), String> {
        let u = Unimock::new((Mk::f.each_call(matching!()).returns(1u32), Mk::g.next_call(matching!()).returns(2u32))).no_verify_in_drop();
        if u.f() != 1 { return Err("matching!() rejected a call without arguments".into()); }
        if u.g(7, "x") != 2 { return Err("matching!() rejected a call with arguments".into()); }
        vh::gsupport::ev("1/0");
        Ok(())
    }
"""


def render_outside_guard(idx, pats):
    """A guard that reads state outside the arguments (no bindings), for arities 0..2: the matcher must
    evaluate it on every call, also when there is nothing to destructure."""
    n = len(pats)
    params = "".join(f", a{i}: u8" for i in range(n))
    m_text = "(" + ", ".join(pats) + ") if flag()"
    native_pat = "()" if n == 0 else (pats[0] if n == 1 else "(" + ", ".join(pats) + ")")
    scrut = "()" if n == 0 else ("a0" if n == 1 else "(" + ", ".join(f"a{i}" for i in range(n)) + ")")
    native_params = ", ".join(f"a{i}: u8" for i in range(n))
    loops_open = "".join(f"for a{i} in 0..3u8 {{ " for i in range(n))
    loops_close = "}" * n
    args = ", ".join(f"a{i}" for i in range(n))
    return f"""    use std::cell::Cell;
    thread_local! {{ static FLAG: Cell<bool> = const {{ Cell::new(false) }}; }}
    fn flag() -> bool {{ FLAG.with(|f| f.get()) }}
    #[unimock(api=Mk)]
    pub trait Tr {{
        fn f(&self{params}) -> u32;
    }}
    #[allow(unreachable_patterns, unused_variables)]
    fn native({native_params}) -> bool {{
        match {scrut} {{
            {native_pat} if flag() => true,
            _ => false,
        }}
    }}
    pub fn run() -> Result<(), String> {{
        let mut accepted = 0usize;
        let mut rejected = 0usize;
        for state in [false, true, false] {{
            FLAG.with(|f| f.set(state));
            {loops_open}
            let expect = native({args});
            if expect {{ accepted += 1; }} else {{ rejected += 1; }}
            let u = Unimock::new(Mk::f.each_call(matching!({m_text})).returns(1u32)).no_verify_in_drop();
            let got = vh::obs::catch(|| u.f({args}));
            let ok = match &got {{
                Ok(1) => expect,
                Err(msg) if msg.contains("No matching call patterns") => !expect,
                _ => false,
            }};
            if !ok {{
                return Err(format!("unordered: arguments ({args}) = {{:?}} with the outside state {{state}} {{}} by the equivalent match, but the call gave {{got:?}}", ({args}{"," if n == 1 else ""}), if expect {{ "are accepted" }} else {{ "are rejected" }}));
            }}
            let u = Unimock::new(Mk::f.next_call(matching!({m_text})).returns(1u32)).no_verify_in_drop();
            let got = vh::obs::catch(|| u.f({args}));
            let ok = match &got {{
                Ok(1) => expect,
                Err(msg) if msg.contains("inputs didn't match") => !expect,
                _ => false,
            }};
            if !ok {{
                return Err(format!("ordered: arguments ({args}) = {{:?}} with the outside state {{state}} {{}} by the equivalent match, but the call gave {{got:?}}", ({args}{"," if n == 1 else ""}), if expect {{ "are accepted" }} else {{ "are rejected" }}));
            }}
            // one mock across a change of the outside state: the guard is evaluated per call
            {loops_close}
        }}
        let u = Unimock::new(Mk::f.each_call(matching!({m_text})).returns(1u32)).no_verify_in_drop();
        FLAG.with(|f| f.set(true));
        let first = vh::obs::catch(|| u.f({", ".join("0" for _ in range(n))}));
        FLAG.with(|f| f.set(false));
        let second = vh::obs::catch(|| u.f({", ".join("0" for _ in range(n))}));
        let exp_first = native({", ".join("0" for _ in range(n))}) || {{ FLAG.with(|f| f.set(true)); let r = native({", ".join("0" for _ in range(n))}); FLAG.with(|f| f.set(false)); r }};
        if first.is_ok() != exp_first || second.is_ok() {{
            return Err(format!("one mock, outside state true then false: calls gave {{first:?}} then {{second:?}}"));
        }}
        vh::gsupport::ev(format!("{{accepted}}/{{rejected}}"));
        Ok(())
    }}
"""


def render_hostile(idx, which):
    """Evaluation discipline: a matcher evaluates what the equivalent match evaluates, nothing more.
    `debug`: the Debug impl of an argument must not run for a call that is accepted (ordered mode
    collects diagnostics only for rejected inputs). `eq`: an eq!/ne! comparison is a guard - it is not
    evaluated when a pattern at another position has already refused the input."""
    if which == "debug":
        return """    pub struct Hd(pub u8);
    impl core::fmt::Debug for Hd {
        fn fmt(&self, _: &mut core::fmt::Formatter<'_>) -> core::fmt::Result {
            panic!("Debug of an argument was run for an accepted call");
        }
    }
    #[unimock(api=Mk)]
    pub trait Tr {
        fn f(&self, a0: Hd, a1: u8) -> u32;
    }
    pub fn run() -> Result<(), String> {
        for a1 in 0..3u8 {
            for mode in 0..3 {
                let u = match mode {
                    0 => Unimock::new(Mk::f.each_call(matching!(Hd(1), _)).returns(1u32)),
                    1 => Unimock::new(Mk::f.next_call(matching!(Hd(1), _)).returns(1u32)),
                    _ => Unimock::new(Mk::f.next_call(matching!((Hd(0), 9) | (Hd(1), _))).returns(1u32)),
                }
                .no_verify_in_drop();
                let got = vh::obs::catch(|| u.f(Hd(1), a1));
                if got != Ok(1) {
                    return Err(format!("mode {mode}: the equivalent match accepts (Hd(1), {a1}) without formatting anything, the call gave {got:?}"));
                }
            }
        }
        vh::gsupport::ev("9/0");
        Ok(())
    }
"""
    return """    #[derive(Debug)]
    pub struct He(pub u8);
    impl PartialEq for He {
        fn eq(&self, other: &He) -> bool {
            if self.0 == 9 || other.0 == 9 {
                panic!("== was evaluated although another position had already refused the input");
            }
            self.0 == other.0
        }
    }
    #[unimock(api=Mk)]
    pub trait Tr {
        fn f(&self, a0: u8, a1: He) -> u32;
    }
    #[allow(unreachable_patterns)]
    fn native(a0: u8, a1: &He, form: u8) -> bool {
        match form {
            0 => match (a0, a1) { (0, _) if *a1 == He(1) => true, _ => false },
            1 => match (a0, a1) { (0, _) if *a1 != He(1) => true, _ => false },
            _ => match (a0, a1) { (0, _) if *a1 == He(1) => true, (1, _) => true, _ => false },
        }
    }
    pub fn run() -> Result<(), String> {
        let (mut accepted, mut rejected) = (0usize, 0usize);
        for form in 0..3u8 {
            for a0 in 0..3u8 {
                for v in [0u8, 1, 9] {
                    // the hostile value is only offered where position 0 refuses (the match never compares there)
                    if v == 9 && a0 == 0 {
                        continue;
                    }
                    let expect = native(a0, &He(v), form);
                    if expect { accepted += 1 } else { rejected += 1 }
                    for ordered in [false, true] {
                        // (collecting diagnostics for a rejected input may well evaluate the
                        // comparison in order to report it: the hostile value is only offered where
                        // no diagnostics are collected)
                        if ordered && v == 9 {
                            continue;
                        }
                        let u = match (form, ordered) {
                            (0, false) => Unimock::new((Mk::f.each_call(matching!(0, eq!(&He(1)))).returns(1u32), Mk::f.each_call(matching!(_, _)).returns(2u32))),
                            (1, false) => Unimock::new((Mk::f.each_call(matching!(0, ne!(&He(1)))).returns(1u32), Mk::f.each_call(matching!(_, _)).returns(2u32))),
                            (_, false) => Unimock::new((Mk::f.each_call(matching!((0, eq!(&He(1))) | (1, _))).returns(1u32), Mk::f.each_call(matching!(_, _)).returns(2u32))),
                            (0, true) => Unimock::new(Mk::f.next_call(matching!(0, eq!(&He(1)))).returns(1u32)),
                            (1, true) => Unimock::new(Mk::f.next_call(matching!(0, ne!(&He(1)))).returns(1u32)),
                            (_, true) => Unimock::new(Mk::f.next_call(matching!((0, eq!(&He(1))) | (1, _))).returns(1u32)),
                        }
                        .no_verify_in_drop();
                        let got = vh::obs::catch(|| u.f(a0, He(v)));
                        let ok = match (&got, ordered) {
                            (Ok(1), _) => expect,
                            (Ok(2), false) => !expect,
                            (Err(msg), true) => !expect && msg.contains("inputs didn't match"),
                            _ => false,
                        };
                        if !ok {
                            return Err(format!("form {form}, {}: arguments ({a0}, He({v})) {} by the equivalent match, the call gave {got:?}", if ordered { "ordered" } else { "unordered" }, if expect { "are accepted" } else { "are rejected" }));
                        }
                    }
                }
            }
        }
        vh::gsupport::ev(format!("{accepted}/{rejected}"));
        Ok(())
    }
"""


OUTSIDE_GUARDS = [[], ["_"], ["0"], ["{b}"], ["_", "_"], ["1", "_"], ["eq!(&1)", "_"]]


def run(pid, tier, replay, start):
    rep = glib.Reporter(pid)
    insts = []
    for s in shapes(tier):
        insts.append(Instance(len(insts), key(s), render(len(insts), s), s))
    for which in ("debug", "eq"):
        insts.append(Instance(len(insts), f"evaluation-discipline :: hostile {which}", render_hostile(len(insts), which), {"types": ["u8"], "alts": [["x"]]}))
    for pats in OUTSIDE_GUARDS:
        shown = [p.replace("{b}", "b") for p in pats]
        if any(p.startswith(("eq!", "ne!")) for p in pats):
            continue
        insts.append(Instance(len(insts), "outside-guard :: (" + ", ".join(shown) + ") if flag()", render_outside_guard(len(insts), shown), {"types": ["u8"] * len(pats), "alts": [shown or ["()"]]}))
    insts.append(Instance(len(insts), "matching!()", render_noargs(len(insts)), {"types": [], "alts": [[]]}))
    if replay:
        import json
        want = json.load(open(replay))["case"]["pattern"]
        insts = [i for i in insts if i.key == want] or glib.machinery("pattern not in this tier")
    crate = glib.Crate("g_c06", features=("std", "pretty-print"), prelude=PRELUDE)
    kept, rejected = glib.build_until_green(crate, insts)
    results = crate.run()
    n_ok = 0
    for inst in kept:
        ok, msg = results.get(inst.idx, (False, "no result"))
        if ok:
            n_ok += 1
        else:
            rep.violation(f"pattern:{inst.key}", f"matching!({inst.key}): {msg}", {"pattern": inst.key})
    for k, v in results.items():
        if isinstance(k, tuple):
            rep.violation("generated-program-died", v[1], {"bin": k[1]})
    by_idx = {i.idx: i for i in insts}
    rejected_keys = sorted(by_idx[i].key for i in rejected)
    for i in rejected:
        ma = by_idx[i].meta.get("must_accept")
        if ma == "binding-name":
            rep.violation("pattern:binding-name-rejected", f"matching!({by_idx[i].key}) differs from accepted invocations only in the name of a binding, but is rejected at compile time, so it cannot accept what the equivalent match accepts", {"pattern": by_idx[i].key})
        elif ma:
            rep.violation("pattern:three-or-more-alternatives", f"matching!({by_idx[i].key}) is the documented disjunctive form but is rejected at compile time, so it cannot accept what the equivalent match accepts", {"pattern": by_idx[i].key})
    if len(kept) < 100:
        glib.machinery("vacuous: fewer than 100 accepted patterns")
    sample = kept[len(kept) // 2]
    cov = {
        "evaluations": len(kept),
        "distinct_nontrivial": len(set(i.key for i in kept if any(a != "_" for alt in i.meta["alts"] for a in alt))),
        "rule": "catalogue-driven grammar of matching! invocations (see gen/c06.py): all sub-patterns of 11 argument types for 1 argument, all u8-binding patterns x 3 guards, type pairs x sub-pattern catalogues for 2 arguments, guard x eq!/ne! combinations, every pair of two-alternative disjunctions over 6 (quick: 4) sub-patterns with eq!/ne! in all positions, mixed literal kinds per position, 3 arguments, bindings named like the identifiers of the expansion (a<i>, l<k>, m<i>, reporter, mismatch) next to eq!/ne! and string literals, eq!/ne! mixed at one position across alternatives, guards next to @-bindings they do not mention, ||-guards over disjunctions whose later alternative compares, a guard variable bound by different arguments in different alternatives, eq!/ne! over a type with an asymmetric == and over a type that is both PartialEq<str> and AsRef<str>; each instance evaluated on every argument tuple of its finite domain in three evaluation modes against a native match; non-trivial = not all sub-patterns are wildcards; distinct = distinct invocation texts",
        "samples": [{"pattern": sample.key, "code": sample.code[:1500]}],
        "exhaustive": True,
        "generated": len(insts),
        "rejected_by_macro_or_compiler": len(rejected),
        "rejected_patterns": rejected_keys[:60],
        "passed": n_ok,
    }
    glib.write_evidence(pid, tier, "exploration", cov, start, rep.violations,
                        ["the oracle is a native Rust match emitted next to each invocation (patterns, guard, ==/!= as a user would write them; AsRef coercion chosen from the parameter type)",
                         "invocations the macro or rustc rejects are counted, not judged"], rep.known_hits)
    return rep.exit_code()

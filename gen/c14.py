"""C14 - clause composition preserves order and rejects inconsistent setups up front.

(1) Order: for every flat tuple arity 2..16, every nesting tree with <= 6 leaves, unit elements at
    every position, and every arity nested on either side of another tuple: the mock built from the
    tuple accepts exactly the left-to-right order of its ordered terminal clauses, answers unordered
    overlapping clauses by the leftmost, and verifies silently.
(2) Rejection at construction: ordered + unordered clauses of the same method at every pair of
    positions (both orders), an empty stub at every position -> Unimock::new itself panics.
(3) Compile time: the builder type-state sweep (gen/typestate.py) and tuples without Clause impl.
(4) Feature set without any mutex: a single-use return is refused at construction (vh bin c14n).
"""
import itertools
import os
import sys

sys.path.insert(0, os.path.dirname(os.path.abspath(__file__)))
import glib  # noqa: E402
import typestate  # noqa: E402
from glib import Instance  # noqa: E402

PRELUDE = """
use unimock::*;

#[unimock(api=Mk)]
pub trait Tr {
    fn f(&self, x: u8) -> u32;
    fn g(&self, x: u8) -> u32;
    fn h(&self, x: u8) -> u32;
    fn d(&self, x: u8) -> u32 {
        900 + x as u32
    }
}
"""


def compositions(n, max_parts=16):
    """All ways to write n as an ordered sum of >= 2 positive parts."""
    out = []

    def rec(rem, cur):
        if rem == 0:
            if len(cur) >= 2:
                out.append(list(cur))
            return
        if len(cur) >= max_parts:
            return
        for k in range(1, rem + 1):
            cur.append(k)
            rec(rem - k, cur)
            cur.pop()

    rec(n, [])
    return out


def trees(n):
    """All ordered trees with n leaves whose internal nodes have >= 2 children. Leaf = None."""
    if n == 1:
        return [None]
    out = []
    for comp in compositions(n):
        for kids in itertools.product(*[trees(k) for k in comp]):
            out.append(list(kids))
    return out


def flat(n):
    return [None] * n


def tree_text(t, leaves, counter, units=()):
    """Render a tree as a Rust tuple expression; leaves are taken from `leaves` left to right."""
    if t is None:
        i = counter[0]
        counter[0] += 1
        return leaves[i]
    if t == "unit":
        return "()"
    return "(" + ", ".join(tree_text(k, leaves, counter) for k in t) + ")"


def shape_text(t):
    if t is None:
        return "c"
    if t == "unit":
        return "()"
    return "(" + ",".join(shape_text(k) for k in t) + ")"


def count_leaves(t):
    if t is None:
        return 1
    if t == "unit":
        return 0
    return sum(count_leaves(k) for k in t)


def render_order(idx, t):
    n = count_leaves(t)
    ordered = [f"Mk::f.next_call(matching!({i})).returns({100 + i}u32)" for i in range(n)]
    unordered = [f"Mk::g.each_call(matching!(_)).returns({200 + i}u32)" for i in range(n)]
    exp_o = tree_text(t, ordered, [0])
    exp_u = tree_text(t, unordered, [0])
    staggered = [f"Mk::g.each_call(matching!((x) if *x >= {n - 1 - i})).returns({300 + i}u32)" for i in range(n)]
    exp_s = tree_text(t, staggered, [0])
    spread = [f"Mk::{'g' if (i * i + i // 3) % 2 == 0 else 'h'}.each_call(matching!((x) if *x >= {n - 1 - i})).returns({800 + i}u32)" for i in range(n)]
    exp_sp = tree_text(t, spread, [0])
    # ordered clauses interleaved with exactly quantified unordered clauses of another method
    mixed = [f"Mk::f.next_call(matching!({i})).returns({100 + i}u32)" if i % 2 == 0 else f"Mk::h.some_call(matching!({i})).returns({400 + i}u32).once()" for i in range(n)]
    exp_m = tree_text(t, mixed, [0])
    # ordered clauses with exact counts 0, 1, 2 (a zero count occupies no slot but stays a clause)
    # ordered clauses with a response chain whose tail is left unquantified: clause i takes i % 3 + 1 slots
    chained = [f"Mk::f.next_call(matching!({i})).returns({600 + i}u32).n_times({i % 3}).then().returns({700 + i}u32)" for i in range(n)]
    exp_ch = tree_text(t, chained, [0])
    counted = [f"Mk::f.next_call(matching!({i})).returns({500 + i}u32).n_times({i % 3})" for i in range(n)]
    exp_c = tree_text(t, counted, [0])
    return f"""    pub fn run() -> Result<(), String> {{
        // ordered terminal clauses: exactly the left-to-right order is accepted
        let u = Unimock::new({exp_o});
        let snap = unimock::verif::snapshot(&u);
        let ranges: Vec<(usize, usize)> = snap.method("Tr::f").map(|m| m.patterns.iter().map(|p| p.range).collect()).unwrap_or_default();
        let want: Vec<(usize, usize)> = (0..{n}).map(|i| (i, i + 1)).collect();
        if ranges != want {{
            return Err(format!("{n} ordered clauses were assembled as slot ranges {{ranges:?}}"));
        }}
        for i in 0..{n}u8 {{
            match vh::obs::catch(|| u.f(i)) {{
                Ok(v) if v == 100 + i as u32 => {{}}
                other => return Err(format!("call {{i}} in declaration order: {{other:?}}")),
            }}
        }}
        if let Err(msg) = vh::obs::catch(move || drop(u)) {{
            return Err(format!("verification after consuming every clause in order failed: {{msg}}"));
        }}
        // any other first call deviates
        for first in 1..{n}u8 {{
            let u = Unimock::new({exp_o}).no_verify_in_drop();
            if let Ok(v) = vh::obs::catch(|| u.f(first)) {{
                return Err(format!("a mock of {n} ordered clauses accepted f({{first}}) as its first call (returned {{v}})"));
            }}
        }}
        // unordered overlapping clauses: the leftmost answers, and all {n} clauses are present
        let u = Unimock::new({exp_u}).no_verify_in_drop();
        let v = u.g(0);
        if v != 200 {{
            return Err(format!("the leftmost of {n} overlapping clauses must answer, got {{v}}"));
        }}
        let n_patterns = unimock::verif::snapshot(&u).method("Tr::g").map(|m| m.patterns.len()).unwrap_or(0);
        if n_patterns != {n} {{
            return Err(format!("{{n_patterns}} patterns assembled from {n} clauses"));
        }}
        // ordered clauses interleaved with exactly quantified unordered ones: the ordered sequence
        // is made of the ordered clauses alone, whatever sits between them
        for unordered_first in [false, true] {{
            let u = Unimock::new({exp_m});
            let order: Vec<u8> = if unordered_first {{
                (0..{n}u8).filter(|i| i % 2 == 1).chain((0..{n}u8).filter(|i| i % 2 == 0)).collect()
            }} else {{
                (0..{n}u8).collect()
            }};
            for i in order {{
                let got = vh::obs::catch(|| if i % 2 == 0 {{ u.f(i) }} else {{ u.h(i) }});
                let want = if i % 2 == 0 {{ 100 + i as u32 }} else {{ 400 + i as u32 }};
                if got != Ok(want) {{
                    return Err(format!("mixed composition (unordered calls first: {{unordered_first}}): call {{i}} gave {{got:?}}, expected {{want}}"));
                }}
            }}
            if let Err(msg) = vh::obs::catch(move || drop(u)) {{
                return Err(format!("mixed composition: verification after calling every clause once failed: {{msg}}"));
            }}
        }}
        // exact counts 0..2 on ordered clauses: clause i is expected i % 3 times, in declaration order
        {{
            let u = Unimock::new({exp_c});
            for i in 0..{n}u8 {{
                for k in 0..(i % 3) {{
                    match vh::obs::catch(|| u.f(i)) {{
                        Ok(v) if v == 500 + i as u32 => {{}}
                        other => return Err(format!("counted ordered clauses: call {{k}} of clause {{i}}: {{other:?}}")),
                    }}
                }}
            }}
            let zero_counted = (0..{n}u8).filter(|i| i % 3 == 0).count();
            match vh::obs::catch(move || drop(u)) {{
                Ok(()) if {n} < 2 => {{}}
                Ok(()) => {{}}
                Err(msg) => return Err(format!("counted ordered clauses ({{zero_counted}} with count 0): verification after the declared calls failed: {{msg}}")),
            }}
        }}
        // response chains with an unquantified tail inside ordered clauses: i % 3 head calls, one tail call
        {{
            let u = Unimock::new({exp_ch});
            for i in 0..{n}u8 {{
                for k in 0..(i % 3 + 1) {{
                    let want = if k < i % 3 {{ 600 + i as u32 }} else {{ 700 + i as u32 }};
                    match vh::obs::catch(|| u.f(i)) {{
                        Ok(v) if v == want => {{}}
                        other => return Err(format!("chained ordered clauses: call {{k}} of clause {{i}} (expected {{want}}): {{other:?}}")),
                    }}
                }}
            }}
            if let Err(msg) = vh::obs::catch(move || drop(u)) {{
                return Err(format!("chained ordered clauses: verification after the declared calls failed: {{msg}}"));
            }}
        }}
        // staggered overlap: clause i accepts x >= {n}-1-i, so x = {n}-1-i is answered by clause i
        // exactly if the clauses are tried in declaration order at every position
        let u = Unimock::new({exp_s}).no_verify_in_drop();
        for i in 0..{n}u8 {{
            let x = {n}u8 - 1 - i;
            match vh::obs::catch(|| u.g(x)) {{
                Ok(v) if v == 300 + i as u32 => {{}}
                other => return Err(format!("g({{x}}) must be answered by clause {{i}} of {n} staggered clauses: {{other:?}}")),
            }}
        }}
        // the same with the clauses spread over two methods in an irregular pattern (the clause list
        // is not grouped by method): each method's clauses keep their relative order
        let u = Unimock::new({exp_sp}).no_verify_in_drop();
        for i in 0..{n}u8 {{
            let x = {n}u8 - 1 - i;
            let on_g = (i as usize * i as usize + i as usize / 3) % 2 == 0;
            match vh::obs::catch(|| if on_g {{ u.g(x) }} else {{ u.h(x) }}) {{
                Ok(v) if v == 800 + i as u32 => {{}}
                other => return Err(format!("{{}}({{x}}) must be answered by clause {{i}} of {n} staggered clauses spread over two methods: {{other:?}}", if on_g {{ "g" }} else {{ "h" }})),
            }}
        }}
        Ok(())
    }}
"""


def render_mixed(idx, arity, i, j, ordered_first, count=None):
    # positions i < j hold the two clauses of method g; the others are clauses of f
    elems = []
    k = 0
    q = "" if count is None else f".n_times({count})"
    for p in range(arity):
        if p == i:
            elems.append(f"Mk::g.next_call(matching!(_)).returns(1u32){q}" if ordered_first else "Mk::g.each_call(matching!(_)).returns(1u32)")
        elif p == j:
            elems.append("Mk::g.each_call(matching!(_)).returns(2u32)" if ordered_first else f"Mk::g.next_call(matching!(_)).returns(2u32){q}")
        else:
            elems.append(f"Mk::f.each_call(matching!({k})).returns({k}u32)")
            k += 1
    return f"""    pub fn run() -> Result<(), String> {{
        match vh::obs::catch(|| Unimock::new(({', '.join(elems)})).no_verify_in_drop()) {{
            Err(msg) if msg.contains("They cannot be mixed for the same MockFn") && msg.contains("Tr::g") => Ok(()),
            Err(msg) => Err(format!("construction panicked with an unrelated message: {{msg}}")),
            Ok(_) => Err("a method with both ordered and unordered patterns was accepted at construction".to_string()),
        }}
    }}
"""


def render_empty_stub(idx, arity, pos, mentioned_before=False, provided=False):
    elems = []
    for p in range(arity):
        if p == pos:
            elems.append("Mk::d.stub(|_each| {})" if provided else "Mk::g.stub(|_each| {})")
        elif mentioned_before and p == 0:
            # the stub's method already has a (non-empty) clause further left
            elems.append("Mk::g.each_call(matching!(9)).returns(9u32)")
        else:
            elems.append(f"Mk::f.each_call(matching!({p})).returns({p}u32)")
    expr = "(" + ", ".join(elems) + ")" if arity > 1 else elems[0]
    return f"""    pub fn run() -> Result<(), String> {{
        match vh::obs::catch(|| Unimock::new({expr}).no_verify_in_drop()) {{
            Err(msg) if msg.contains("Stub contained no call patterns") => Ok(()),
            Err(msg) => Err(format!("construction panicked with an unrelated message: {{msg}}")),
            Ok(_) => Err("a stub without patterns was accepted at construction".to_string()),
        }}
    }}
"""


def instances(tier):
    insts = []

    def add(key, code, meta):
        insts.append(Instance(len(insts), key, code, meta))

    shapes = []
    for n in range(2, 17):
        shapes.append(flat(n))
    max_leaves = 5 if tier == "quick" else 7
    for n in range(2, max_leaves + 1):
        for t in trees(n):
            if t not in shapes:
                shapes.append(t)
    # unit elements at every position of small flat tuples, and inside a nested tuple
    for n in range(2, 6):
        for pos in range(n + 1):
            t = flat(n)
            t.insert(pos, "unit")
            shapes.append(t)
    shapes.append([None, ["unit", None, "unit"], None])
    # every arity nested on either side of another tuple
    for n in range(2, 16):
        shapes.append([flat(n), None])
        shapes.append([None, flat(n)])
    # more than 20 terminal clauses (only reachable by nesting)
    shapes.append([flat(16), flat(8)])
    shapes.append([flat(7), flat(7), flat(7), None])
    if tier != "quick":
        shapes.append([flat(16), flat(16), flat(16)])
        shapes.append([flat(16), flat(16)])
        shapes.append([flat(8), [flat(8), flat(3)], None])
    seen = set()
    for t in shapes:
        if count_leaves(t) > 200:
            continue
        k = "order:" + shape_text(t)
        if k in seen:
            continue
        seen.add(k)
        add(k, render_order(len(insts), t), {"kind": "order", "leaves": count_leaves(t)})
    full = list(range(2, 17)) if tier != "quick" else [2, 3, 16]
    for arity in range(2, 17):
        pairs = list(itertools.combinations(range(arity), 2)) if arity in full else [(0, 1), (0, arity - 1), (arity - 2, arity - 1)]
        for (i, j) in sorted(set(pairs)):
            for ordered_first in (True, False):
                add(f"mixed:arity{arity}/{i},{j}/{'ordered-first' if ordered_first else 'unordered-first'}",
                    render_mixed(len(insts), arity, i, j, ordered_first), {"kind": "mixed"})
                if arity <= 3 or (i, j) == (0, arity - 1):
                    for count in (0, 2):
                        add(f"mixed:arity{arity}/{i},{j}/{'ordered-first' if ordered_first else 'unordered-first'}/ordered-count-{count}",
                            render_mixed(len(insts), arity, i, j, ordered_first, count), {"kind": "mixed"})
    for arity in range(1, 7):
        for pos in range(arity):
            add(f"empty-stub:arity{arity}/{pos}", render_empty_stub(len(insts), arity, pos), {"kind": "empty-stub"})
            if pos > 0:
                add(f"empty-stub-after-mention:arity{arity}/{pos}", render_empty_stub(len(insts), arity, pos, True), {"kind": "empty-stub"})
            if arity <= 3:
                add(f"empty-stub-on-provided-method:arity{arity}/{pos}", render_empty_stub(len(insts), arity, pos, False, True), {"kind": "empty-stub"})
    return insts


def run(pid, tier, replay, start):
    rep = glib.Reporter(pid)
    insts = instances(tier)
    if replay:
        import json
        want = json.load(open(replay))["case"].get("shape")
        insts = [i for i in insts if i.key == want] or glib.machinery("shape not in this tier")
    crate = glib.Crate("g_c14", features=("std", "pretty-print"), prelude=PRELUDE)
    kept, rejected = glib.build_until_green(crate, insts)
    results = crate.run()
    by_idx = {i.idx: i for i in insts}
    for i in rejected:
        rep.violation(f"shape:{by_idx[i].key}", f"{by_idx[i].key}: the composition does not compile: {getattr(crate, 'reasons', {}).get(i, '')}", {"shape": by_idx[i].key})
    n_ok = 0
    for inst in kept:
        ok, msg = results.get(inst.idx, (False, "no result"))
        if ok:
            n_ok += 1
        else:
            rep.violation(f"shape:{inst.key}", f"{inst.key}: {msg}", {"shape": inst.key})
    for k, v in results.items():
        if isinstance(k, tuple):
            rep.violation("generated-program-died", v[1], {"bin": k[1]})
    # (3) compile-time half
    ts = typestate.sweep(tier, rep, "C14", focus="C14") if not replay else {"words": 0, "accepted": 0, "rejected": 0}
    # (4) no-mutex feature set: one cell, built as a harness variant
    import vcommon
    nolock = {"ran": False}
    if not replay:
        vcommon.build("nolock", ["c14n"])
        code, out = vcommon.run_bin("nolock", "c14n", tier, [], part_out=os.path.join(vcommon.TARGET, "parts", "C14-nolock.json"))
        nolock["ran"] = True
        if code == 1:
            rep.violations += 1
        # the same cells in the no_std feature set that does have a mutex (spin-lock): every one of
        # them can be produced there, so every one must construct
        vcommon.build("nostd", ["c14n"])
        code, out = vcommon.run_bin("nostd", "c14n", tier, [], part_out=os.path.join(vcommon.TARGET, "parts", "C14-nostd.json"))
        if code == 1:
            rep.violations += 1
    kinds = {}
    for i in kept:
        kinds[i.meta["kind"]] = kinds.get(i.meta["kind"], 0) + 1
    cov = {
        "evaluations": len(kept) + ts["words"] + (2 if nolock["ran"] else 0),
        "distinct_nontrivial": len(set(i.key for i in kept)) + ts["words"],
        "rule": "order: every flat tuple arity 2..16, every nesting tree with <= 7 (quick: 5) leaves whose inner nodes have >= 2 children, unit elements at every position, every arity nested on either side of another tuple, nested tuples with 22-48 leaves (staggered overlapping clauses spread over two methods); rejection: ordered+unordered clauses of one method at every pair of positions for every arity 2..16 (quick: arities 2, 3, 16 and the end positions of the others), both orders, and an empty stub at every position of arities 1..6; compile time: every builder word up to the length bound against the reference automaton; the construction cells in the feature set without mutex (single-use returns refused) and in the no_std feature set with the spin-lock mutex (everything constructs); all instances are non-trivial and distinct by construction",
        "samples": [{"shape": kept[3].key, "code": kept[3].code[:900]}],
        "exhaustive": True,
        "instances_by_kind": kinds,
        "typestate": ts,
        "passed": n_ok,
    }
    glib.write_evidence(pid, tier, "exploration", cov, start, rep.violations,
                        ["a 1-tuple (c,) has no Clause impl; it is part of the must-not-compile set",
                         "the compile-time half trusts rustc's verdict on each builder word"], rep.known_hits)
    return rep.exit_code()

"""C17 - composite returns reproduce the configured value shape-for-shape.

Bounded grammar of return types over {Option, Result, Vec, Poll, 1-4-tuples} x leaves {owned Clone,
owned non-Clone, &T, &str, &[T], &'static T}, nesting depth <= 3; for every type every variant (and
element counts 0..4 for Vec) is configured through the single-use path (some_call(..).returns(v))
and, where all owned leaves are Clone, through the multi-use path (each_call(..).returns(v)). The
observed value must be structurally equal to the configured one (compared through Debug, which
prints borrowed and owned leaves alike), borrowed leaves must have the same addresses on repeated
calls, and a second request must panic exactly when the produced variant contains an owned leaf and
the single-use path was used.
"""
import itertools
import os
import sys

sys.path.insert(0, os.path.dirname(os.path.abspath(__file__)))
import glib  # noqa: E402
from glib import Instance  # noqa: E402

PRELUDE = """
use core::task::Poll;
use unimock::*;

#[derive(Debug, PartialEq)]
pub struct NC(pub u32);

pub static SREFS: [u32; 8] = [900, 901, 902, 903, 904, 905, 906, 907];
"""

LEAVES = ["own", "nc", "ref", "str", "slice", "sref"]


def L(k):
    return ("leaf", k)


def ret_ty(n):
    t = n[0]
    if t == "leaf":
        return {"own": "u32", "nc": "NC", "ref": "&u32", "str": "&str", "slice": "&[u8]", "sref": "&'static u32"}[n[1]]
    if t == "opt":
        return f"Option<{ret_ty(n[1])}>"
    if t == "res":
        return f"Result<{ret_ty(n[1])}, {ret_ty(n[2])}>"
    if t == "vec":
        return f"Vec<{ret_ty(n[1])}>"
    if t == "poll":
        return f"Poll<{ret_ty(n[1])}>"
    if t == "tup":
        inner = ", ".join(ret_ty(x) for x in n[1])
        return f"({inner},)" if len(n[1]) == 1 else f"({inner})"
    raise ValueError(n)


def val_ty(n):
    """Type of the value handed to returns()."""
    t = n[0]
    if t == "leaf":
        return {"own": "u32", "nc": "NC", "ref": "u32", "str": "String", "slice": "Vec<u8>", "sref": "&'static u32"}[n[1]]
    if t == "opt":
        return f"Option<{val_ty(n[1])}>"
    if t == "res":
        return f"Result<{val_ty(n[1])}, {val_ty(n[2])}>"
    if t == "vec":
        return f"Vec<{val_ty(n[1])}>"
    if t == "poll":
        return f"Poll<{val_ty(n[1])}>"
    if t == "tup":
        inner = ", ".join(val_ty(x) for x in n[1])
        return f"({inner},)" if len(n[1]) == 1 else f"({inner})"
    raise ValueError(n)


class Ctr:
    def __init__(self):
        self.n = 0

    def next(self):
        self.n += 1
        return self.n


def values(n, ctr, limit=4):
    """List of (value expr, expected Debug text, has owned leaf) covering every variant."""
    t = n[0]
    if t == "leaf":
        k = ctr.next()
        kind = n[1]
        if kind == "own":
            return [(f"{100 + k}u32", f"{100 + k}", True)]
        if kind == "nc":
            return [(f"NC({200 + k})", f"NC({200 + k})", True)]
        if kind == "ref":
            return [(f"{300 + k}u32", f"{300 + k}", False)]
        if kind == "str":
            return [(f'"s{k}".to_string()', f'"s{k}"', False)]
        if kind == "slice":
            return [(f"vec![{k % 200}u8, 7]", f"[{k % 200}, 7]", False)]
        if kind == "sref":
            # a 'static reference is an owned (Copy) value as far as the mock is concerned
            return [(f"&SREFS[{k % 8}]", f"{900 + k % 8}", True)]
    if t == "opt":
        inner = values(n[1], ctr, limit)
        return [("None", "None", False)] + [(f"Some({e})", f"Some({d})", o) for e, d, o in inner[:limit]]
    if t == "res":
        oks = values(n[1], ctr, limit)
        errs = values(n[2], ctr, limit)
        return [(f"Ok({e})", f"Ok({d})", o) for e, d, o in oks[:limit]] + [(f"Err({e})", f"Err({d})", o) for e, d, o in errs[:limit]]
    if t == "poll":
        inner = values(n[1], ctr, limit)
        return [("Poll::Pending", "Pending", False)] + [(f"Poll::Ready({e})", f"Ready({d})", o) for e, d, o in inner[:limit]]
    if t == "vec":
        out = [("vec![]", "[]", False)]
        for count in range(1, 5):
            elems = []
            for _ in range(count):
                vs = values(n[1], ctr, limit)
                elems.append(vs[len(elems) % len(vs)])
            out.append(("vec![" + ", ".join(e for e, _, _ in elems) + "]", "[" + ", ".join(d for _, d, _ in elems) + "]", any(o for _, _, o in elems)))
        return out
    if t == "tup":
        # vary one position at a time over its variants, the others take their first variant
        per = [values(x, ctr, limit) for x in n[1]]
        combos = [tuple(0 for _ in per)]
        for i, vs in enumerate(per):
            for j in range(1, len(vs)):
                c = [0] * len(per)
                c[i] = j
                combos.append(tuple(c))
        out = []
        for c in combos[:8]:
            es = [per[i][j] for i, j in enumerate(c)]
            comma = "," if len(es) == 1 else ""
            out.append(("(" + ", ".join(e for e, _, _ in es) + comma + ")", "(" + ", ".join(d for _, d, _ in es) + comma + ")", any(o for _, _, o in es)))
        return out
    raise ValueError(n)


def has_leaf(n, kinds):
    if n[0] == "leaf":
        return n[1] in kinds
    if n[0] == "tup":
        return any(has_leaf(x, kinds) for x in n[1])
    return any(has_leaf(x, kinds) for x in n[1:])


def addr_code(n, place, out, depth=0):
    """Rust statements pushing the addresses of borrowed leaves of `place` (an expression of type &Node)."""
    t = n[0]
    v = f"y{depth}"
    if t == "leaf":
        k = n[1]
        if k in ("ref", "sref"):
            return f"{out}.push((*{place}) as *const u32 as usize);"
        if k == "str":
            return f"{out}.push((*{place}).as_ptr() as usize);"
        if k == "slice":
            return f"{out}.push((*{place}).as_ptr() as usize);"
        return ""
    if t == "opt":
        inner = addr_code(n[1], v, out, depth + 1)
        return f"if let Some({v}) = {place} {{ {inner} }}" if inner else ""
    if t == "res":
        a = addr_code(n[1], v, out, depth + 1)
        b = addr_code(n[2], v, out, depth + 1)
        if not a and not b:
            return ""
        return f"match {place} {{ Ok({v}) => {{ {a} }} Err({v}) => {{ {b} }} }}"
    if t == "poll":
        inner = addr_code(n[1], v, out, depth + 1)
        return f"if let Poll::Ready({v}) = {place} {{ {inner} }}" if inner else ""
    if t == "vec":
        inner = addr_code(n[1], v, out, depth + 1)
        return f"for {v} in {place}.iter() {{ {inner} }}" if inner else ""
    if t == "tup":
        parts = []
        for i, x in enumerate(n[1]):
            c = addr_code(x, f"(&{place}.{i})", out, depth + 1)
            if c:
                parts.append(c)
        return " ".join(parts)
    raise ValueError(n)


def render(idx, n):
    rt = ret_ty(n)
    vt = val_ty(n)
    vals = values(n, Ctr())
    if not has_leaf(n, ["ref", "str", "slice"]):
        # nothing is borrowed from the mock: the whole value is one owned value, whatever the variant
        vals = [(e, d, True) for e, d, _ in vals]
    clonable = not has_leaf(n, ["nc"])
    addr = addr_code(n, "r", "out")
    cases = []
    for ci, (expr, dbg, owned) in enumerate(vals):
        dbg_lit = '"' + dbg.replace("\\", "\\\\").replace('"', '\\"') + '"'
        second = f"""
            let second = vh::obs::catch(|| format!("{{:?}}", u.f()));
            match &second {{
                Err(msg) if msg.contains("Cannot return value more than once") => {{}}
                other => return Err(format!("value {ci}: it contains an owned leaf and was configured single-use, the second request must panic; observed {{other:?}}")),
            }}""" if owned else f"""
            let r2 = u.f();
            let second = format!("{{:?}}", r2);
            if second != {dbg_lit} {{
                return Err(format!("value {ci}: second call observed {{second}}, configured {{}}", {dbg_lit}));
            }}
            if addrs(&r1) != addrs(&r2) {{
                return Err(format!("value {ci}: borrowed leaves moved between calls: {{:?}} vs {{:?}}", addrs(&r1), addrs(&r2)));
            }}"""
        cases.append(f"""
        {{
            let v: {vt} = {expr};
            let u = Unimock::new(Mk::f.some_call(matching!()).returns(v)).no_verify_in_drop();
            let r1 = u.f();
            let first = format!("{{:?}}", r1);
            if first != {dbg_lit} {{
                return Err(format!("value {ci} (single-use path): observed {{first}}, configured {{}}", {dbg_lit}));
            }}{second}
        }}""")
        multi_paths = ["Mk::f.each_call(matching!()).returns(v)", "Mk::f.some_call(matching!()).returns(v).at_least_times(1)",
                       "Mk::f.next_call(matching!()).returns(v).n_times(3)", "Mk::f.stub(|each| { each.call(matching!()).returns(v); })"]
        for mp in (multi_paths if clonable else []):
            cases.append(f"""
        {{
            let v: {vt} = {expr};
            let u = Unimock::new({mp}).no_verify_in_drop();
            let r1 = u.f();
            let r2 = u.f();
            let r3 = u.f();
            for (k, r) in [&r1, &r2, &r3].iter().enumerate() {{
                let got = format!("{{:?}}", r);
                if got != {dbg_lit} {{
                    return Err(format!("value {ci} (multi-use path), call {{k}}: observed {{got}}, configured {{}}", {dbg_lit}));
                }}
            }}
            if addrs(&r1) != addrs(&r2) || addrs(&r2) != addrs(&r3) {{
                return Err(format!("value {ci} (multi-use path): borrowed leaves moved between calls"));
            }}
        }}""")
    # response series: which configured value a call observes is decided by its position in the
    # series; every observed value is compared with the one configured for that position
    def lit(d):
        return '"' + d.replace("\\", "\\\\").replace('"', '\\"') + '"'
    if clonable and len(vals) >= 2:
        for i in range(len(vals)):
            (e0, d0, _), (e1, d1, _) = vals[i], vals[(i + 1) % len(vals)]
            series = [
                ("Mk::f.each_call(matching!()).returns(v0).n_times(0).then().returns(v1)", [d1, d1, d1]),
                ("Mk::f.some_call(matching!()).returns(v0).once().then().returns(v1)", [d0, d1, d1]),
                ("Mk::f.next_call(matching!()).returns(v0).n_times(2).then().returns(v1)", [d0, d0, d1]),
                ("Mk::f.each_call(matching!()).returns(v0.clone()).n_times(1).then().returns(v1).n_times(1).then().returns(v0)", [d0, d1, d0, d0]),
                ("Mk::f.next_call(matching!()).returns(v0).n_times(0).then().returns(v1).n_times(2)", [d1, d1]),
            ]
            for clause, seq in series:
                exp = ", ".join(lit(d) for d in seq)
                cases.append(f"""
        {{
            let v0: {vt} = {e0};
            let v1: {vt} = {e1};
            let u = Unimock::new({clause}).no_verify_in_drop();
            for (k, want) in [{exp}].iter().enumerate() {{
                let got = vh::obs::catch(|| format!("{{:?}}", u.f()));
                if got.as_deref() != Ok(*want) {{
                    return Err(format!("series {{}} with values {i}/{(i + 1) % len(vals)}, call {{k}}: observed {{got:?}}, configured for this position: {{want}}", {lit(clause)}));
                }}
            }}
        }}""")
    return f"""    #[unimock(api=Mk)]
    pub trait Tr {{
        fn f(&self) -> {rt};
    }}
    fn addrs(r: &{rt}) -> Vec<usize> {{
        let mut out: Vec<usize> = vec![];
        {addr}
        out
    }}
    pub fn run() -> Result<(), String> {{{''.join(cases)}
        Ok(())
    }}
"""


def types(tier):
    leaves = [L(k) for k in LEAVES]
    unary = ["opt", "vec", "poll"]
    out = []
    # depth 1
    d1u = [(u, l) for u in unary for l in leaves]
    d1r = [("res", a, b) for a in leaves for b in leaves]
    out += d1u + d1r
    for l in leaves:
        out.append(("tup", [l]))
    for a, b in itertools.product(leaves, repeat=2):
        out.append(("tup", [a, b]))
    base = L("ref")
    for arity in (3, 4):
        out.append(("tup", [base] * arity))
        for pos in range(arity):
            for l in leaves:
                if l == base:
                    continue
                t = [base] * arity
                t[pos] = l
                out.append(("tup", t))
    out.append(("tup", [L("ref"), L("nc"), L("sref"), L("own")]))
    # depth 2
    inner2 = d1u + [("res", a, b) for a in leaves for b in (L("own"), L("nc"))]
    if tier == "quick":
        inner2 = [x for x in inner2 if x[-1][1] in ("ref", "nc", "own", "str")][:24]
    d2 = [(u, x) for u in unary for x in inner2]
    d2 += [("res", x, e) for x in d1u for e in (L("own"), L("nc"))]
    d2 += [("tup", [x, l]) for x in d1u[:9] for l in (L("ref"), L("nc"), L("own"))]
    out += d2
    # depth 3
    if tier != "quick":
        inner3 = d1u + [("res", a, b) for a in leaves for b in (L("own"), L("nc"))]
        for u1, u2 in itertools.product(unary, repeat=2):
            for x in inner3:
                out.append((u1, (u2, x)))
        for u1 in unary:
            for x in d1u:
                for e in (L("own"), L("nc")):
                    out.append((u1, ("res", x, e)))
    else:
        for x in (("res", L("ref"), L("nc")), ("opt", L("str")), ("res", L("slice"), L("own"))):
            out.append(("poll", ("opt", x)))
            out.append(("opt", ("res", ("opt", L("ref")), L("nc"))))
    # dedupe
    seen = set()
    uniq = []
    for t in out:
        k = ret_ty(t)
        if k not in seen:
            seen.add(k)
            uniq.append(t)
    return uniq


def rejected_path():
    return os.path.join(glib.ROOT, "gen", "known-rejected-C17.txt")


def run(pid, tier, replay, start):
    rep = glib.Reporter(pid)
    ts = types(tier)
    insts = [Instance(i, ret_ty(t), render(i, t), {"node": t}) for i, t in enumerate(ts)]
    # the same types with the self lifetime spelled out: `fn f<'a>(&'a self) -> Option<&'a u32>` is
    # the same method as its elided twin
    import re

    def depth(t):
        if isinstance(t, tuple) and t and t[0] in ("opt", "vec", "poll"):
            return 1 + depth(t[1])
        if isinstance(t, tuple) and t and t[0] == "res":
            return 1 + max(depth(t[1]), depth(t[2]))
        if isinstance(t, tuple) and t and t[0] == "tup":
            return 1 + max(depth(x) for x in t[1])
        return 0

    for t in ts:
        rt = ret_ty(t)
        if not re.search(r"&(?!'static)", rt) or depth(t) > 2:
            continue
        code = render(len(insts), t)
        decl = f"fn f(&self) -> {rt};"
        if decl not in code:
            continue
        rt_a = re.sub(r"&(?!'static)", "&'a ", rt)
        code = code.replace(decl, f"fn f<'a>(&'a self) -> {rt_a};", 1)
        insts.append(Instance(len(insts), "explicit-lifetime:" + rt, code, {"node": t}))
    if replay:
        import json
        want = json.load(open(replay))["case"]["return_type"]
        insts = [i for i in insts if i.key == want] or glib.machinery("type not in this tier")
    regen = os.environ.get("VERIF_WRITE_ACCEPTED") == "1"
    known_rejected = set()
    if os.path.exists(rejected_path()) and not regen:
        known_rejected = set(l.rstrip("\n") for l in open(rejected_path()) if l.strip())
    n_generated = len(insts)
    insts = [i for i in insts if i.key not in known_rejected]
    n_known = n_generated - len(insts)
    crate = glib.Crate("g_c17", features=("std", "pretty-print"), prelude=PRELUDE)
    kept, rejected = glib.build_until_green(crate, insts, max_rounds=10)
    results = crate.run()
    by_idx = {i.idx: i for i in insts}
    if regen:
        old = set(l.rstrip("\n") for l in open(rejected_path())) if os.path.exists(rejected_path()) else set()
        rej = sorted((old | {by_idx[i].key for i in rejected}) - {i.key for i in kept})
        with open(rejected_path(), "w") as f:
            f.write("\n".join(rej) + "\n")
    n_ok = 0
    for inst in kept:
        ok, msg = results.get(inst.idx, (False, "no result"))
        if ok:
            n_ok += 1
        else:
            rep.violation(f"type:{inst.key}", f"return type {inst.key}: {msg}", {"return_type": inst.key})
    for k, v in results.items():
        if isinstance(k, tuple):
            rep.violation("generated-program-died", v[1], {"bin": k[1]})
    # a signature with the self lifetime spelled out is the same method as its elided twin: if the
    # twin is accepted and configured with the same values, so must the explicit form be
    kept_keys = {i.key for i in kept}
    for i in rejected:
        k = by_idx[i].key
        if k.startswith("explicit-lifetime:") and k[len("explicit-lifetime:"):] in kept_keys and not regen:
            rep.violation(f"type:{k}", f"return type {k[len('explicit-lifetime:'):]} is accepted (and reproduces its values) with an elided self lifetime, but with the lifetime spelled out the same configuration does not compile: {getattr(crate, 'reasons', {}).get(i, '')}", {"return_type": k})
    # a return type that the pinned tree accepts with these configurations (it is not on the committed
    # list of rejected shapes) and that no longer compiles cannot reproduce any value at all
    for i in rejected:
        k = by_idx[i].key
        if not k.startswith("explicit-lifetime:") and not regen:
            rep.violation(f"type:{k}", f"return type {k}: configuring its values through returns() no longer compiles (the shape is not on the list of shapes rejected on the pinned tree): {getattr(crate, 'reasons', {}).get(i, '')}", {"return_type": k})
    if len(kept) < 30:
        glib.machinery("vacuous: fewer than 30 accepted return types")
    sample = kept[len(kept) // 2]
    cov = {
        "evaluations": len(kept),
        "distinct_nontrivial": len([i for i in kept if i.meta["node"][0] != "leaf"]),
        "rule": "return types over {Option, Result, Vec, Poll, 1-4-tuples} x leaves {u32, NC (non-Clone), &u32, &str, &[u8], &'static u32}: all depth-1 types (tuples of arity 3-4 with <= 1 deviation from &u32), depth-2 compositions, depth-3 compositions (quick: a handful); per type every variant and Vec lengths 0..4, configured through the single-use and (when Clone) the multi-use path; every type of depth <= 2 with a leaf borrowed from self also with the self lifetime spelled out; non-trivial = composite type; distinct = distinct type texts",
        "samples": [{"return_type": sample.key, "code": sample.code[:1500]}],
        "exhaustive": True,
        "generated": n_generated,
        "accepted_by_macro_and_compiler": len(kept),
        "rejected_by_macro_or_compiler": len(rejected) + n_known,
        "rejected_types_this_run": sorted(by_idx[i].key for i in rejected)[:40],
        "passed": n_ok,
    }
    glib.write_evidence(pid, tier, "exploration", cov, start, rep.violations,
                        ["structural equality is checked through Debug renderings (borrowed and owned leaves print alike) with distinct payloads per leaf",
                         "return types the signature analysis has no output kind for are rejected at compile time and are not subject to the property"],
                        rep.known_hits)
    return rep.exit_code()

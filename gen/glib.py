"""Engine G plumbing: generated crates of self-checking program instances.

An *instance* is a Rust module `c<idx>` with `pub fn run() -> Result<(), String>`; instances are
distributed over the bins of a generated crate `harness/g/<name>`; each bin runs its instances under
catch_unwind and prints `CASE <idx> OK` / `CASE <idx> FAIL <message>`.

Instances the compiler rejects are attributed through rustc's JSON diagnostics (file + line ->
instance), removed, and the crate is rebuilt; they are reported as "rejected" (only shapes the macro
accepts are subject to the properties).
"""
import json
import os
import shutil
import subprocess
import sys
import time

sys.path.insert(0, os.path.join(os.path.dirname(os.path.dirname(os.path.abspath(__file__))), "lib"))
import vcommon  # noqa: E402
from vcommon import machinery  # noqa: E402

ROOT = vcommon.ROOT
GDIR = os.path.join(vcommon.HARNESS, "g")

CARGO_TOML = """[package]
name = "{name}"
version = "0.0.0"
edition = "2021"
publish = false

[dependencies]
unimock = {{ path = "{repo}", default-features = false, features = [{features}] }}
vh = {{ path = "../../vh" }}
{extra_deps}
"""

MAIN_TMPL = """
fn main() {{
    vh::obs::silence_panics();
    let cases: &[(usize, fn() -> Result<(), String>)] = &[
{entries}
    ];
    for (idx, f) in cases {{
        match vh::obs::catch(|| f()) {{
            Ok(Ok(())) => println!("CASE {{idx}} OK"),
            Ok(Err(msg)) => println!("CASE {{idx}} FAIL {{}}", msg.replace('\\n', " | ")),
            Err(msg) => println!("CASE {{idx}} FAIL panicked: {{}}", msg.replace('\\n', " | ")),
        }}
    }}
    println!("DONE");
}}
"""


class Instance:
    def __init__(self, idx, key, code, meta=None):
        self.idx = idx          # stable number
        self.key = key          # stable shape key (string)
        self.code = code        # Rust items placed inside `pub mod c<idx> { use super::*; ... }`
        self.meta = meta or {}


class Crate:
    def __init__(self, name, features=("std", "pretty-print"), extra_deps="", prelude="", n_bins=16):
        self.name = name
        self.features = features
        self.extra_deps = extra_deps
        self.prelude = prelude
        self.n_bins = n_bins
        self.dir = os.path.join(GDIR, name)
        self.line_map = {}      # bin file -> list of (first_line, last_line, idx)

    def write(self, instances):
        src = os.path.join(self.dir, "src", "bin")
        if os.path.isdir(src):
            shutil.rmtree(src)
        os.makedirs(src, exist_ok=True)
        with open(os.path.join(self.dir, "Cargo.toml"), "w") as f:
            f.write(CARGO_TOML.format(name=self.name, repo=vcommon.REPO,
                                      features=", ".join(f'"{x}"' for x in self.features),
                                      extra_deps=self.extra_deps))
        n_bins = max(1, min(self.n_bins, len(instances)))
        buckets = [[] for _ in range(n_bins)]
        for k, inst in enumerate(instances):
            buckets[k % n_bins].append(inst)
        self.line_map = {}
        self.bins = []
        for b, bucket in enumerate(buckets):
            if not bucket:
                continue
            binname = f"{self.name}_p{b}"
            path = os.path.join(src, f"{binname}.rs")
            lines = ["#![allow(unused, non_snake_case, non_camel_case_types, clippy::all)]", self.prelude]
            text = "\n".join(lines) + "\n"
            cur = text.count("\n") + 1
            ranges = []
            parts = [text]
            for inst in bucket:
                block = f"pub mod c{inst.idx} {{\n    use super::*;\n{inst.code}\n}}\n"
                n = block.count("\n")
                ranges.append((cur, cur + n - 1, inst.idx))
                cur += n
                parts.append(block)
            entries = "\n".join(f"        ({inst.idx}, c{inst.idx}::run)," for inst in bucket)
            parts.append(MAIN_TMPL.format(entries=entries))
            with open(path, "w") as f:
                f.write("".join(parts))
            self.line_map[os.path.realpath(path)] = ranges
            self.bins.append(binname)

    def build(self, variant="std"):
        """Returns (ok, set of instance idx with compile errors, raw error text)."""
        vcommon.render_manifests()
        env = vcommon.cargo_env(variant)
        cmd = ["cargo", "build", "--offline", "-p", self.name, "--bins", "--message-format=json", "--keep-going"]
        r = subprocess.run(cmd, cwd=vcommon.HARNESS, env=env, stdout=subprocess.PIPE, stderr=subprocess.PIPE, text=True)
        bad = set()
        unattributed = []
        for line in r.stdout.splitlines():
            if not line.startswith("{"):
                continue
            try:
                msg = json.loads(line)
            except ValueError:
                continue
            if msg.get("reason") != "compiler-message":
                continue
            m = msg["message"]
            if m.get("level") != "error":
                continue
            hit = False
            for idx in self._attribute(m):
                bad.add(idx)
                hit = True
                if not hasattr(self, "reasons"):
                    self.reasons = {}
                self.reasons.setdefault(idx, (m.get("message") or "")[:300])
            if not hit and "aborting due to" not in m.get("message", "") and "could not compile" not in m.get("message", ""):
                unattributed.append(m.get("rendered") or m.get("message"))
        ok = r.returncode == 0
        return ok, bad, unattributed, r.stderr

    def _attribute(self, m):
        out = set()

        def visit_span(sp):
            while sp:
                fn = sp.get("file_name")
                if fn:
                    full = os.path.realpath(fn if os.path.isabs(fn) else os.path.join(vcommon.HARNESS, fn))
                    for (a, b, idx) in self.line_map.get(full, []):
                        if a <= sp.get("line_start", -1) <= b:
                            out.add(idx)
                sp = (sp.get("expansion") or {}).get("span")

        for sp in m.get("spans", []):
            visit_span(sp)
        for ch in m.get("children", []):
            for sp in ch.get("spans", []):
                visit_span(sp)
        return out

    def run(self, variant="std", timeout=600):
        """Run all bins in parallel; returns {idx: (ok, message)}."""
        bindir = os.path.join(vcommon.TARGET, variant, "debug")
        procs = []
        for b in self.bins:
            procs.append((b, subprocess.Popen([os.path.join(bindir, b)], stdout=subprocess.PIPE, stderr=subprocess.PIPE, text=True)))
        results = {}
        for b, p in procs:
            try:
                out, err = p.communicate(timeout=timeout)
            except subprocess.TimeoutExpired:
                p.kill()
                machinery(f"generated bin {b} exceeded {timeout}s")
            done = False
            for line in out.splitlines():
                if line.startswith("CASE "):
                    _, idx, status, *rest = line.split(" ", 3)
                    results[int(idx)] = (status == "OK", rest[0] if rest else "")
                elif line == "DONE":
                    done = True
            if not done:
                # the bin died: attribute to the first instance without a result
                results.setdefault(("died", b), (False, f"bin {b} died with status {p.returncode}: {err[-500:]}"))
        return results


def build_until_green(crate, instances, variant="std", max_rounds=6):
    """Write + build; drop instances the compiler rejects; returns (kept, rejected idx set)."""
    rejected = set()
    kept = list(instances)
    for _ in range(max_rounds):
        crate.write(kept)
        t = time.time()
        ok, bad, unattributed, stderr = crate.build(variant)
        dt = time.time() - t
        if dt > 2:
            print(f"[build {crate.name}: {dt:.1f}s, {len(kept)} instances, {len(bad)} rejected]")
        if ok:
            return kept, rejected
        if not bad:
            tail = "\n".join((unattributed or [stderr[-3000:]])[:5])
            machinery(f"generated crate {crate.name} does not build and the errors cannot be attributed to instances:\n{tail}")
        rejected |= bad
        kept = [i for i in kept if i.idx not in bad]
        if not kept:
            machinery(f"every instance of {crate.name} was rejected by the compiler")
    machinery(f"generated crate {crate.name} still does not build after {max_rounds} rounds")


def write_evidence(pid, tier, level, coverage, start, violations, assumptions, known_hits=0):
    doc = {
        "property_id": pid,
        "tier": tier,
        "seed": int(os.environ.get("VERIF_SEED", "0") or 0),
        "level": level,
        "coverage": coverage,
        "assumptions": assumptions,
        "wall_s": round(time.time() - start, 3),
        "violations": violations,
        "known_finding_hits": known_hits,
    }
    os.makedirs(os.path.join(ROOT, "evidence"), exist_ok=True)
    with open(os.path.join(ROOT, "evidence", f"{pid}.json"), "w") as f:
        json.dump(doc, f, indent=1)


class Reporter:
    """Violation / known-finding bookkeeping for python-side checks."""

    def __init__(self, pid):
        self.pid = pid
        self.violations = 0
        self.known_hits = 0
        self.printed = set()
        self.known = {}
        path = os.path.join(ROOT, "known_findings.json")
        if os.path.exists(path):
            for f in json.load(open(path)).get("findings", []):
                if f.get("property") == pid and f.get("status") == "known":
                    self.known[f["key"]] = f.get("what", "")
        os.makedirs(os.path.join(ROOT, "replays"), exist_ok=True)

    def violation(self, key, what, case):
        if key in self.known:
            self.known_hits += 1
            if ("k", key) not in self.printed:
                self.printed.add(("k", key))
                print(f"KNOWN-FINDING: property={self.pid} {key}: {self.known[key]}")
            return
        self.violations += 1
        if key in self.printed or len(self.printed) >= 8:
            return
        self.printed.add(key)
        path = os.path.join(ROOT, "replays", f"{self.pid}-gen-{len(self.printed)}.json")
        with open(path, "w") as f:
            json.dump({"property": self.pid, "key": key, "what": what, "case": case}, f, indent=1)
        print(f"violation detail [{key}]: {what[:1500]}")
        print(f"VIOLATION property={self.pid} replay={path}")

    def exit_code(self):
        if self.violations:
            print(f"{self.pid}: {self.violations} violation(s) ({self.known_hits} known-finding hits)")
            return 1
        print(f"{self.pid}: held on everything explored ({self.known_hits} known-finding hits)")
        return 0

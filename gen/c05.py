"""C05 - #[unimock] impls forward arguments, receiver and result unchanged.

Bounded grammar of trait declarations: receiver x parameter list x return x async form x generics x
api form. Every instance checks itself: a recording matcher and an answer function must both see
exactly the caller's (pairwise distinct) arguments in declaration order, the result must come back
unchanged, writes through &mut parameters must be visible to the caller, a future dropped unpolled
must not evaluate anything and an awaited one exactly once.
"""
import itertools
import os
import sys
import time

sys.path.insert(0, os.path.dirname(os.path.abspath(__file__)))
import glib  # noqa: E402
from glib import Instance  # noqa: E402

KINDS = ["u8", "string", "ref", "mut", "str", "slice", "optref"]
RECVS = ["ref", "mut", "own", "rc", "arc", "pin"]
RETS = ["unit", "owned", "ref"]
ASYNCS = ["sync", "async_fn", "rpit", "async_trait"]
GENERICS = ["none", "method", "trait", "impl"]
APIS = ["module", "flat", "hidden"]


def kind_info(kind, p):
    """(decl type, setup stmts, arg expr, check(place) -> bool expr, debug rendering, post-check)"""
    if kind == "u8":
        v = 10 + p
        return dict(ty="u8", setup="", arg=f"{v}u8", check=lambda e: f"{e} == {v}u8", dbg=str(v), write="", post="")
    if kind == "string":
        return dict(ty="String", setup="", arg=f'"s{p}".to_string()', check=lambda e: f'{e} == "s{p}"', dbg=f'"s{p}"', write="", post="")
    if kind == "ref":
        v = 100 + p
        return dict(ty="&u32", setup=f"let r{p}: u32 = {v};", arg=f"&r{p}", check=lambda e: f"*{e} == {v}u32", dbg=str(v), write="", post="")
    if kind == "mut":
        v = 200 + p
        return dict(ty="&mut u32", setup=f"let mut m{p}: u32 = {v};", arg=f"&mut m{p}", check=lambda e: f"*{e} == {v}u32", dbg=str(v),
                    write=f"*a{p} = {300 + p};", post=f'if m{p} != {300 + p} {{ return Err(format!("write through &mut parameter {p} not visible to the caller: {{}}", m{p})); }}')
    if kind == "str":
        return dict(ty="&str", setup="", arg=f'"str{p}"', check=lambda e: f'{e} == "str{p}"', dbg=f'"str{p}"', write="", post="")
    if kind == "slice":
        return dict(ty="&[u8]", setup=f"let sl{p}: [u8; 3] = [{p}, 1, 2];", arg=f"&sl{p}", check=lambda e: f"{e}.to_vec() == vec![{p}u8, 1, 2]", dbg=f"[{p}, 1, 2]", write="", post="")
    if kind == "optref":
        v = 400 + p
        return dict(ty="Option<&u32>", setup=f"let o{p}: u32 = {v};", arg=f"Some(&o{p})", check=lambda e: f"{e}.copied() == Some({v}u32)", dbg=f"Some({v})", write="", post="")
    if kind == "loud":
        # a type whose Debug leaves a trace (defined in the prelude of the generator that uses it)
        v = 60 + p
        return dict(ty="Loud", setup="", arg=f"Loud({v})", check=lambda e: f"{e}.0 == {v}", dbg=f"Loud({v})", write="", post="")
    if kind == "gen":
        v = 500 + p
        return dict(ty=None, setup="", arg=f"{v}u16", check=lambda e: f"{e} == {v}u16", dbg=str(v), write="", post="")
    raise ValueError(kind)


def rs_str(text):
    return '"' + text.replace("\\", "\\\\").replace('"', '\\"') + '"'


def add_lt(t, lt):
    return t.replace("&", f"&{lt} ", 1)


def shape_key(s):
    return "/".join([s["recv"], ",".join(s["params"]) or "-", s["ret"], s["asy"], s["gen"], s["api"]])


def render(idx, s):
    recv, params, ret, asy, gen, api = s["recv"], list(s["params"]), s["ret"], s["asy"], s["gen"], s["api"]
    kinds = list(params)
    if gen != "none":
        kinds.append("gen")
    n = len(kinds)
    infos = [kind_info(k, p) for p, k in enumerate(kinds)]
    # declared parameter types
    decl_tys = []
    for k, info in zip(kinds, infos):
        if k == "gen":
            decl_tys.append({"method": "G", "trait": "G", "impl": "impl Copy + Send + 'static"}[gen])
        else:
            decl_tys.append(info["ty"])
    conc_tys = [("u16" if k == "gen" else info["ty"]) for k, info in zip(kinds, infos)]
    trait_generics = "<G: Copy + Send + 'static>" if gen == "trait" else ""
    method_generics = "<G: Copy + Send + 'static>" if gen == "method" else ""
    trait_args = "<u16>" if gen == "trait" else ""
    recv_decl = {"ref": "&self", "mut": "&mut self", "own": "self", "rc": "self: std::rc::Rc<Self>", "arc": "self: std::sync::Arc<Self>", "pin": "self: core::pin::Pin<&mut Self>"}[recv]
    ret_ty = {"unit": "()", "owned": "u64", "ref": "&u64"}[ret]
    result_val = 7_000_000 + idx
    params_decl = ", ".join(f"a{p}: {t}" for p, t in enumerate(decl_tys))
    sig_params = recv_decl + (", " + params_decl if params_decl else "")
    if asy in ("sync",):
        sig = f"fn f{method_generics}({sig_params})" + ("" if ret == "unit" else f" -> {ret_ty}")
    elif asy in ("async_fn", "async_trait"):
        sig = f"async fn f{method_generics}({sig_params})" + ("" if ret == "unit" else f" -> {ret_ty}")
    else:  # rpit
        sig = f"fn f{method_generics}({sig_params}) -> impl core::future::Future<Output = {ret_ty}>"
    sized = ": Sized" if recv in ("own",) else ""
    api_attr = {"module": "api=Mk", "flat": "api=[Fk]", "hidden": ""}[api]
    attrs = f"#[unimock({api_attr})]" if api_attr else "#[unimock]"
    if asy == "async_trait":
        attrs += "\n    #[::async_trait::async_trait]"
    trait_src = f"""    {attrs}
    pub trait Tr{trait_generics}{sized} {{
        {sig};
    }}
"""
    # call expression
    setups = "\n        ".join(i["setup"] for i in infos if i["setup"])
    args = ", ".join(i["arg"] for i in infos)
    posts = "\n        ".join(i["post"] for i in infos if i["post"])
    tr = f"Tr{trait_args}"
    holder_new = {"ref": "let u = {new};", "mut": "let mut u = {new};", "own": "let u = {new};", "rc": "let u = std::rc::Rc::new({new});",
                  "arc": "let u = std::sync::Arc::new({new});", "pin": "let mut u = {new};"}[recv]
    self_expr = {"ref": "&u", "mut": "&mut u", "own": "u", "rc": "u.clone()", "arc": "u.clone()", "pin": "core::pin::Pin::new(&mut u)"}[recv]
    call = f"<Unimock as {tr}>::f({self_expr}{', ' if args else ''}{args})"
    is_async = asy != "sync"
    call_eval = f"vh::gsupport::block_on({call})" if is_async else call

    def result_check(var):
        if ret == "unit":
            return ""
        if ret == "owned":
            return f'if {var} != {result_val}u64 {{ return Err(format!("result changed on the way back: {{}}", {var})); }}'
        return f'if *{var} != {result_val}u64 {{ return Err(format!("result changed on the way back: {{}}", *{var})); }}'

    if api == "hidden":
        # no MockFn can be named: the call must panic naming the call with its arguments in order
        # (generic parameters without a Debug bound render as '?')
        rendered = ", ".join(("?" if k == "gen" else i["dbg"]) for k, i in zip(kinds, infos))
        expect = rs_str(f"Tr::f({rendered}): No mock implementation found.")
        body = f"""
        {holder_new.format(new="Unimock::new(()).no_verify_in_drop()")}
        {setups}
        let r = vh::obs::catch(move || {{ let _ = {call_eval}; }});
        match r {{
            Err(msg) if msg == {expect} => Ok(()),
            other => Err(format!("expected the panic {{:?}}, observed {{other:?}}", {expect})),
        }}
"""
        return trait_src + f"    pub fn run() -> Result<(), String> {{{body}    }}\n"

    mock_fn = {"module": "Mk::f", "flat": "Fk"}[api]
    if gen != "none":
        mock_fn += ".with_types::<u16>()"
    # matcher
    if n == 0:
        in_ty = "()"
        places = []
    elif n == 1:
        in_ty = conc_tys[0]
        places = ["(*inputs)"]
    else:
        in_ty = "(" + ", ".join(conc_tys) + ")"
        places = [f"inputs.{p}" for p in range(n)]
    m_checks = "\n                    ".join(
        f'if !({info["check"](pl)}) {{ errs.lock().unwrap().push(format!("matcher: argument {p} is not what the caller passed")); }}'
        for p, (info, pl) in enumerate(zip(infos, places)))
    matcher = f"""&move |m| {{
                let errs = errs_m.clone();
                let seen = seen_m.clone();
                m.func(move |inputs: &{in_ty}, _| {{
                    seen.fetch_add(1, Ordering::SeqCst);
                    {m_checks}
                    true
                }});
            }}"""
    # answer function
    self_ans_ty = {"ref": "&'u Unimock", "mut": "&'u mut Unimock", "own": "Unimock", "rc": "std::rc::Rc<Unimock>", "arc": "std::sync::Arc<Unimock>", "pin": "&'u mut Unimock"}[recv]
    needs_u = recv in ("ref", "mut", "pin")
    lts = ["'u"] if needs_u else []
    ans_tys = []
    for p, t in enumerate(conc_tys):
        if "&" in t:
            lt = f"'p{p}"
            lts.append(lt)
            ans_tys.append(add_lt(t, lt))
        else:
            ans_tys.append(t)
    ans_ret = {"unit": "()", "owned": "u64", "ref": "&'u u64"}[ret]
    hr = f"for<{', '.join(lts)}> " if lts else ""
    fn_ty = f"{hr}Fn({', '.join([self_ans_ty] + ans_tys)}) -> {ans_ret}"
    a_checks = "\n                ".join(
        f'if !({info["check"](f"a{p}")}) {{ errs.lock().unwrap().push(format!("answer: argument {p} is not what the caller passed")); }}'
        for p, info in enumerate(infos))
    writes = "\n                ".join(i["write"] for i in infos if i["write"])
    ans_result = {"unit": "()", "owned": f"{result_val}u64", "ref": f"uu.make_ref({result_val}u64)"}[ret]
    ans_params = ", ".join(["uu"] + [f"a{p}" for p in range(n)])
    answer = f"""mk_ans({{
                let errs = errs_a.clone();
                let seen = seen_a.clone();
                move |{ans_params}| {{
                    seen.fetch_add(1, Ordering::SeqCst);
                    {a_checks}
                    {writes}
                    {ans_result}
                }}
            }})"""
    mk_ans = f"""    fn mk_ans<F>(f: F) -> Arc<dyn {fn_ty} + Send + Sync>
    where
        F: {fn_ty} + Send + Sync + 'static,
    {{
        Arc::new(f)
    }}
"""
    unpolled = ""
    if is_async and recv in ("ref", "mut", "pin"):
        unpolled = f"""
        {{
            let fut = {call};
            drop(fut);
        }}
        if seen_m.load(Ordering::SeqCst) != 0 || seen_a.load(Ordering::SeqCst) != 0 {{
            return Err(format!("a future dropped unpolled evaluated the call ({{}} matcher / {{}} answer invocations)", seen_m.load(Ordering::SeqCst), seen_a.load(Ordering::SeqCst)));
        }}"""
        # the &mut variables were only borrowed; values are unchanged since nothing ran
    returns_phase = ""
    if ret in ("unit", "owned", "ref") and recv in ("ref", "mut", "pin"):
        rv = {"unit": "()", "owned": f"{result_val}u64", "ref": f"{result_val}u64"}[ret]
        setups2 = setups.replace("let mut m", "let mut n").replace("let r", "let r2_").replace("let sl", "let sl2_").replace("let o", "let o2_")
        args2 = args.replace("&mut m", "&mut n").replace("&r", "&r2_").replace("&sl", "&sl2_").replace("&o", "&o2_")
        call2 = f"<Unimock as {tr}>::f({self_expr}{', ' if args2 else ''}{args2})"
        call2_eval = f"vh::gsupport::block_on({call2})" if is_async else call2
        m_checks2 = m_checks
        returns_phase = f"""
        // second phase: a stored value (Eval::Return path)
        let seen_m2 = Arc::new(AtomicUsize::new(0));
        {{
            let errs_m = errs.clone();
            let seen_m = seen_m2.clone();
            {holder_new.format(new=f"Unimock::new({mock_fn}.each_call({matcher}).returns({rv}))")}
            {setups2}
            let r2 = {call2_eval};
            {result_check("r2")}
        }}
        if seen_m2.load(Ordering::SeqCst) != 1 {{
            return Err(format!("returns(): the matcher ran {{}} times for one call", seen_m2.load(Ordering::SeqCst)));
        }}"""
    body = f"""
        let errs: Arc<Mutex<Vec<String>>> = Arc::new(Mutex::new(vec![]));
        let seen_m = Arc::new(AtomicUsize::new(0));
        let seen_a = Arc::new(AtomicUsize::new(0));
        {{
            let clause = {{
                let (errs_m, errs_a) = (errs.clone(), errs.clone());
                let (seen_m, seen_a) = (seen_m.clone(), seen_a.clone());
                {mock_fn}.each_call({matcher}).answers_arc({answer})
            }};
            {holder_new.format(new="Unimock::new(clause)")}
            {setups}{unpolled}
            let r = {call_eval};
            {result_check("r")}
            {posts}
        }}
        if seen_m.load(Ordering::SeqCst) != 1 || seen_a.load(Ordering::SeqCst) != 1 {{
            return Err(format!("one call, but {{}} matcher and {{}} answer invocations", seen_m.load(Ordering::SeqCst), seen_a.load(Ordering::SeqCst)));
        }}{returns_phase}
        let errs = errs.lock().unwrap();
        if !errs.is_empty() {{
            return Err(errs.join("; "));
        }}
        Ok(())
"""
    return trait_src + mk_ans + f"    pub fn run() -> Result<(), String> {{{body}    }}\n"


def render_static_first(idx, api):
    """Two same-signature methods behind a receiver-less provided function (which the macro skips
    but which still occupies a position in the flattened api list)."""
    attr = {"module": "api=Mk", "flat": "api=[Fs, Fk, Gk]"}[api]
    fk = {"module": "Mk::f", "flat": "Fk"}[api]
    return f"""    #[unimock({attr})]
    pub trait Tr {{
        fn kind() -> u32 where Self: Sized {{ 4 }}
        fn f(&self, a0: u8) -> u64;
        fn g(&self, a0: u8) -> u64;
    }}
    pub fn run() -> Result<(), String> {{
        // only the MockFn of `f` is configured: `f` answers, `g` has no implementation
        let u = Unimock::new({fk}.each_call(matching!(_)).answers(&|_, a0| 1000 + a0 as u64)).no_verify_in_drop();
        match vh::obs::catch(|| <Unimock as Tr>::f(&u, 7)) {{
            Ok(1007) => {{}}
            other => return Err(format!("the MockFn of `f` does not serve `f`: {{other:?}}")),
        }}
        match vh::obs::catch(|| <Unimock as Tr>::g(&u, 7)) {{
            Err(msg) if msg == "Tr::g(7): No mock implementation found." => {{}}
            other => return Err(format!("`g` was served by the MockFn of `f`: {{other:?}}")),
        }}
        if <Unimock as Tr>::kind() != 4 {{ return Err("the provided static function changed".into()); }}
        Ok(())
    }}
"""


def param_shapes(max_arity, max_dev):
    """All parameter lists of arity <= 2 over all kinds; beyond that, every list with at most
    max_dev parameters deviating from the default kind u8 (all positions)."""
    out = []
    for arity in range(0, max_arity + 1):
        if arity <= 2:
            out += [list(t) for t in itertools.product(KINDS, repeat=arity)]
            continue
        for ndev in range(0, max_dev + 1):
            for pos in itertools.combinations(range(arity), ndev):
                for ks in itertools.product(KINDS[1:], repeat=ndev):
                    l = ["u8"] * arity
                    for p, k in zip(pos, ks):
                        l[p] = k
                    out.append(l)
    return out


def valid(s):
    if s["ret"] == "ref" and s["recv"] in ("own", "rc", "arc"):
        return False
    return True


def shapes(tier):
    out = []
    seen = set()

    def add(s):
        if not valid(s):
            return
        k = shape_key(s)
        if k not in seen:
            seen.add(k)
            out.append(s)

    if tier == "quick":
        plist = param_shapes(2, 0) + param_shapes(3, 1)
        cross_params = [["u8"], ["u8", "mut", "str"]]
    else:
        plist = param_shapes(5, 2)
        cross_params = [[], ["u8"], ["mut"], ["u8", "mut", "str"], ["string", "ref", "slice", "optref"]]
    for p in plist:
        add(dict(recv="ref", params=p, ret="owned", asy="sync", gen="none", api="module"))
    for recv, ret, asy, gen, api in itertools.product(RECVS, RETS, ASYNCS, GENERICS, APIS):
        for p in cross_params:
            add(dict(recv=recv, params=p, ret=ret, asy=asy, gen=gen, api=api))
    return out


PRELUDE = """
use std::sync::atomic::{AtomicUsize, Ordering};
use std::sync::{Arc, Mutex};
use unimock::*;
"""


def accepted_path():
    return os.path.join(glib.ROOT, "gen", "accepted-C05.txt")


def rejected_path():
    return os.path.join(glib.ROOT, "gen", "known-rejected-C05.txt")


def run(pid, tier, replay, start):
    rep = glib.Reporter(pid)
    all_shapes = shapes(tier)
    # stable numbering: index in the thorough enumeration would change between tiers; use per-run idx
    insts = [Instance(i, shape_key(s), render(i, s), s) for i, s in enumerate(all_shapes)]
    for api in ("module", "flat"):
        insts.append(Instance(len(insts), f"special/static-fn-first/{api}", render_static_first(len(insts), api),
                              dict(recv="ref", params=["u8"], ret="owned", asy="sync", gen="none", api=api)))
    if replay:
        import json
        key = json.load(open(replay))["case"]["shape"]
        insts = [i for i in insts if i.key == key]
        if not insts:
            glib.machinery(f"shape {key} is not part of the {tier} enumeration")
    known_accepted = set()
    if os.path.exists(accepted_path()):
        known_accepted = set(l.strip() for l in open(accepted_path()) if l.strip())
    # shapes known to be rejected by the macro / compiler on the pinned tree are not generated again
    # (saves one build round); VERIF_WRITE_ACCEPTED=1 regenerates both lists from scratch
    known_rejected = set()
    regen = os.environ.get("VERIF_WRITE_ACCEPTED") == "1"
    if os.path.exists(rejected_path()) and not regen:
        known_rejected = set(l.strip() for l in open(rejected_path()) if l.strip())
    n_generated = len(insts)
    insts = [i for i in insts if i.key not in known_rejected]
    n_known_rejected = n_generated - len(insts)
    crate = glib.Crate("g_c05", features=("std", "pretty-print"), extra_deps='async-trait = "0.1"', prelude=PRELUDE)
    kept, rejected = glib.build_until_green(crate, insts)
    results = crate.run()
    by_idx = {i.idx: i for i in insts}
    n_ok = 0
    acceptance_changes = []
    for inst in insts:
        if inst.idx in rejected:
            if inst.key in known_accepted:
                acceptance_changes.append(inst.key)
                print(f"ACCEPTANCE-CHANGE {inst.key} (accepted by the pinned tree, rejected now)")
            continue
        ok, msg = results.get(inst.idx, (False, "no result (the generated program died before reaching it)"))
        if ok:
            n_ok += 1
        else:
            rep.violation(f"shape:{inst.key}", f"trait shape {inst.key}: {msg}", {"shape": inst.key})
    for k, v in results.items():
        if isinstance(k, tuple):
            rep.violation("generated-program-died", v[1], {"bin": k[1]})
    if regen:
        acc = sorted(set(known_accepted) | {i.key for i in kept})
        with open(accepted_path(), "w") as f:
            f.write("\n".join(acc) + "\n")
        old = set(l.strip() for l in open(rejected_path())) if os.path.exists(rejected_path()) else set()
        rej = sorted((old | {by_idx[i].key for i in rejected}) - set(acc))
        with open(rejected_path(), "w") as f:
            f.write("\n".join(rej) + "\n")
    if len(kept) < 20:
        glib.machinery("vacuous: fewer than 20 accepted shapes")
    sample = kept[len(kept) // 2]
    cov = {
        "evaluations": len(kept),
        "distinct_nontrivial": len(set(i.key for i in kept if i.meta["params"] or i.meta["gen"] != "none")),
        "rule": "bounded grammar of trait declarations: receiver {&self,&mut self,self,Rc,Arc,Pin} x parameter list x return {unit,owned,&T} x {sync, async fn, -> impl Future, #[async_trait]} x generics {none, method, trait, impl Trait} x api {module, flattened, hidden}; parameter lists: all lists of arity <= 2 over 7 kinds, arity 3..5 with <= 2 deviations from u8 (quick: arity <= 2 of kind u8 + arity 3 with 1 deviation); the full cross product of the other dimensions with representative parameter lists; non-trivial = has at least one parameter; distinct = distinct shape keys",
        "samples": [{"shape": sample.key, "code": sample.code[:1200]}],
        "exhaustive": True,
        "generated": n_generated,
        "accepted_by_macro_and_compiler": len(kept),
        "rejected_by_macro_or_compiler": len(rejected) + n_known_rejected,
        "passed": n_ok,
        "acceptance_changes": acceptance_changes[:50],
    }
    glib.write_evidence(pid, tier, "exploration", cov, start, rep.violations,
                        ["only shapes that the attribute macro and rustc accept are subject to the property; rejected shapes are counted, never reported",
                         "argument values are fixed pairwise-distinct constants per position and kind"], rep.known_hits)
    return rep.exit_code()

"""C12 = runtime half (harness bin c12: engine S + T) + compile-time half (type-state sweep)."""
import json
import os
import sys
import time

sys.path.insert(0, os.path.dirname(os.path.abspath(__file__)))
import glib  # noqa: E402
import typestate  # noqa: E402
import vcommon  # noqa: E402


def run(pid, tier, replay, start):
    plan = [("std", "c12", []), ("nostd", "c12", [])]
    code = vcommon.run_rust_check(pid, tier, replay, start, "model_checking", plan)
    if replay:
        return code
    rep = glib.Reporter(pid)
    ts = typestate.sweep(tier, rep, pid, focus="C12")
    path = os.path.join(vcommon.ROOT, "evidence", f"{pid}.json")
    doc = json.load(open(path))
    doc["coverage"]["typestate"] = ts
    doc["coverage"]["programs_type_checked"] = ts["words"]
    doc["violations"] = doc.get("violations", 0) + rep.violations
    doc["wall_s"] = round(time.time() - start, 3)
    doc["assumptions"].append("compile-time half: every valid builder prefix up to the length bound extended by every builder method and by use-as-clause; rustc must agree with the reference automaton on each word (gen/typestate.py)")
    json.dump(doc, open(path, "w"), indent=1)
    return max(code, rep.exit_code())

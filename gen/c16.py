"""C16 - unmocking calls the registered real function with the mock as its dependency.

Bounded grammar: receiver x parameter list x unmock_with form {path, path(self, params), path(reordered
params), path(params without self), _} x position of the method in a 1..3-method trait x {sync,
async} x {strict + applies_unmocked(), partial fall-through}, plus recursion 0..3 levels back through
the mock. Oracle: the registered function runs exactly once per level with the mock and the caller's
arguments in order, its result comes back unchanged, re-entrant calls hit the same shared counters;
with `_` the call panics naming the method.
"""
import itertools
import os
import sys

sys.path.insert(0, os.path.dirname(os.path.abspath(__file__)))
import glib  # noqa: E402
from glib import Instance  # noqa: E402
from c05 import kind_info, rs_str  # noqa: E402

RECVS = ["ref", "mut", "own", "rc", "arc", "pin"]
FORMS = ["path", "explicit", "reordered", "noself", "none"]
PARAMS = [[], ["u8"], ["u8", "str"], ["mut", "u8"], ["string", "ref", "u8"], ["u8", "mut", "str", "string"]]
PRELUDE = """
use std::sync::{Arc, Mutex};
use unimock::*;
use vh::gsupport::{ev, take_events};

/// An argument whose Debug leaves a trace: a call that does not fail renders nothing.
pub struct Loud(pub u8);
impl core::fmt::Debug for Loud {
    fn fmt(&self, f: &mut core::fmt::Formatter<'_>) -> core::fmt::Result {
        ev("BAD:Debug of an argument ran although the call did not fail");
        write!(f, "Loud({})", self.0)
    }
}
"""


def key(s):
    return "/".join([s["recv"], ",".join(s["params"]) or "-", s["form"], f"{s['pos']}of{s['n']}" + ("+static" if s.get("static_first") else ""),
                     s["asy"], s["mode"], "provided" if s.get("dflt") else "required"] + (["provided-sibling"] if s.get("sib") else []) + (["after-another-failure"] if s.get("prior") else []) + ([f"api-{s['api']}"] if s.get("api") else []))


def self_ty(recv):
    return {"ref": "&impl Tr", "mut": "&mut impl Tr", "own": "impl Tr", "rc": "std::rc::Rc<impl Tr>",
            "arc": "std::sync::Arc<impl Tr>", "pin": "core::pin::Pin<&mut impl Tr>"}[recv]


def render(idx, s):
    recv, kinds, form, n, pos, asy, mode = s["recv"], s["params"], s["form"], s["n"], s["pos"], s["asy"], s["mode"]
    dflt, static_first = s.get("dflt", False), s.get("static_first", False)
    default_result = 5_000_000 + idx
    infos = [kind_info(k, p) for p, k in enumerate(kinds)]
    result = 6_000_000 + idx
    recv_decl = {"ref": "&self", "mut": "&mut self", "own": "self", "rc": "self: std::rc::Rc<Self>", "arc": "self: std::sync::Arc<Self>",
                 "pin": "self: core::pin::Pin<&mut Self>"}[recv]
    a = "async " if asy == "async_fn" else ""
    params_decl = ", ".join(f"a{p}: {i['ty']}" for p, i in enumerate(infos))
    methods = []
    unmocks = []
    reals = []
    for k in range(n):
        if k == pos:
            body_or_semi = f""" {{
            ev("default");
            {default_result}
        }}""" if dflt else ";"
            methods.append(f"        {a}fn f({recv_decl}{', ' if params_decl else ''}{params_decl}) -> u64{body_or_semi}")
            order = list(range(len(kinds)))
            if form == "path":
                unmocks.append("real_t")
                real_params = [("u", self_ty(recv))] + [(f"a{p}", infos[p]["ty"]) for p in order]
            elif form == "explicit":
                unmocks.append("real_t(" + ", ".join(["self"] + [f"a{p}" for p in order]) + ")")
                real_params = [("u", self_ty(recv))] + [(f"a{p}", infos[p]["ty"]) for p in order]
            elif form == "reordered":
                order = list(reversed(order))
                unmocks.append("real_t(" + ", ".join([f"a{p}" for p in order] + ["self"]) + ")")
                real_params = [(f"a{p}", infos[p]["ty"]) for p in order] + [("u", self_ty(recv))]
            elif form == "selfperm":
                # `self` first, then the parameters in another order than declared (rotated left)
                order = order[1:] + order[:1]
                unmocks.append("real_t(" + ", ".join(["self"] + [f"a{p}" for p in order]) + ")")
                real_params = [("u", self_ty(recv))] + [(f"a{p}", infos[p]["ty"]) for p in order]
            elif form == "noself":
                unmocks.append("real_t(" + ", ".join(f"a{p}" for p in order) + ")")
                real_params = [(f"a{p}", infos[p]["ty"]) for p in order]
            else:
                unmocks.append("_")
                real_params = None
            if real_params is not None:
                checks = "\n        ".join(
                    f'if !({infos[p]["check"](f"a{p}")}) {{ ev("BAD:argument {p} is not what the caller passed"); }}' for p in range(len(kinds)))
                writes = "\n        ".join(i["write"] for i in infos if i["write"])
                sig = ", ".join(f"{nm}: {ty}" for nm, ty in real_params)
                reals.append(f"""    pub {a}fn real_t({sig}) -> u64 {{
        ev("target");
        {checks}
        {writes}
        {result}
    }}""")
        else:
            methods.append(f"        {a}fn g{k}(&self, x: u8) -> u64;")
            unmocks.append(f"realg{k}")
            reals.append(f"""    pub {a}fn realg{k}(_: &impl Tr, x: u8) -> u64 {{
        ev("filler{k}");
        {9000 + k}
    }}""")
    sized = ": Sized" if recv == "own" else ""
    if s.get("sib"):
        # another method of the trait has a default body: that is no property of `f`
        methods.append("        fn hsib(&self) -> u64 { 77 }")
        unmocks.append("_")
    if static_first:
        # a provided function without receiver: skipped by the macro, but it still occupies a
        # position of the unmock_with list
        methods.insert(0, "        fn kind() -> u32 where Self: Sized { 4 }")
        unmocks.insert(0, "_")
    api_attr = "api=Mk, "
    if s.get("api") == "hidden":
        api_attr = ""
    elif s.get("api") == "flat":
        # one name per mocked method, in declaration order (the skipped static fn has none)
        names = ["FnF" if m.lstrip().startswith(("fn f(", "async fn f(")) else f"FnOther{i}" for i, m in enumerate(methods) if "fn kind()" not in m]
        api_attr = "api=[" + ", ".join(names) + "], "
    trait_src = f"""    #[unimock({api_attr}unmock_with=[{', '.join(unmocks)}])]
    pub trait Tr{sized} {{
{chr(10).join(methods)}
    }}
""" + "\n".join(reals) + "\n"
    setups = "\n        ".join(i["setup"] for i in infos if i["setup"])
    args = ", ".join(i["arg"] for i in infos)
    posts = "\n        ".join(i["post"] for i in infos if i["post"])
    wild = ", ".join("_" for _ in kinds)
    expect_events = '"target"'
    expect_result = result
    if mode == "strict":
        new = f"Unimock::new(Mk::f.each_call(matching!({wild})).applies_unmocked())"
    elif mode == "partial_unmatched":
        # mentioned, but the only pattern rejects the arguments: a partial mock goes to the real function
        never = ", ".join(["99"] + ["_"] * (len(kinds) - 1))
        new = f"Unimock::new_partial(Mk::f.each_call(matching!({never})).returns(1u64)).no_verify_in_drop()"
    else:
        new = "Unimock::new_partial(())"
        if dflt:
            # unmentioned: the trait's default body has precedence over the real function
            expect_events = '"default"'
            expect_result = default_result
            posts = ""
    holder = {"ref": f"let u = {new};", "mut": f"let mut u = {new};", "own": f"let u = {new};", "rc": f"let u = std::rc::Rc::new({new});",
              "arc": f"let u = std::sync::Arc::new({new});", "pin": f"let mut u = {new};"}[recv]
    self_expr = {"ref": "&u", "mut": "&mut u", "own": "u", "rc": "u.clone()", "arc": "u.clone()", "pin": "core::pin::Pin::new(&mut u)"}[recv]
    call = f"<Unimock as Tr>::f({self_expr}{', ' if args else ''}{args})"
    if asy == "async_fn":
        call = f"vh::gsupport::block_on({call})"
    prior = ""
    if s.get("prior"):
        # an earlier, unrelated mock error on the same mock (caught): the next error is still about its own call
        uref = "&*u" if recv in ("rc", "arc") else "&u"
        prior = f"""let first = vh::obs::catch(|| <Unimock as Tr>::g0({uref}, 1));
        if !matches!(&first, Err(msg) if msg.contains("Tr::g0(1)")) {{
            return Err(format!("harness: the preparatory failing call gave {{first:?}}"));
        }}
        let _ = take_events();"""
    if form == "none":
        expect = rs_str("Tr::f cannot be unmocked as there is no function available to call.")
        body = f"""
        let _ = take_events();
        {holder}
        {setups}
        {prior}
        let r = vh::obs::catch(|| {call});
        // the instance may have been consumed; whatever is left is dropped quietly
        let events = take_events();
        match r {{
            Err(msg) if msg == {expect} && events.is_empty() => Ok(()),
            other => Err(format!("no function is registered: expected the panic {{:?}} and no real function to run, observed {{other:?}}, events {{events:?}}", {expect})),
        }}
"""
        # dropping `u` after a recorded mock error would fail verification: keep it quiet
        body = body.replace(f"{holder}", holder.replace(new, f"({new}).no_verify_in_drop()"))
    else:
        body = f"""
        let _ = take_events();
        {holder}
        {setups}
        let r = {call};
        let events = take_events();
        if events != vec![{expect_events}.to_string()] {{
            return Err(format!("expected exactly one run of {{}}, events {{events:?}}", {expect_events}));
        }}
        if r != {expect_result}u64 {{
            return Err(format!("result changed on the way back: {{r}}, expected {expect_result}"));
        }}
        {posts}
        Ok(())
"""
    return trait_src + f"    pub fn run() -> Result<(), String> {{{body}    }}\n"


def render_recursion(idx, depth, mode, asy):
    a = "async " if asy == "async_fn" else ""
    aw = ".await" if asy == "async_fn" else ""
    if mode == "strict":
        new = """Unimock::new(Mk::f.stub(|each| {
            each.call(matching!(0)).returns(100u64);
            each.call(matching!(_)).applies_unmocked();
        }))"""
        counts = f"vec![1usize, {depth}]"
    elif mode == "ordered":
        # an ordered series: the first `depth` calls resolve to the real function, the call it makes
        # at the innermost level gets the value of the unquantified tail
        new = f"Unimock::new(Mk::f.next_call(matching!(_)).applies_unmocked().n_times({depth}).then().returns(100u64))"
        counts = f"vec![{depth + 1}usize]"
    elif mode == "ordered_tail":
        # a value first, then an unquantified tail resolving to the real function (twice in all when
        # a further clause follows): entered through a first call that is answered by the value
        new = f"Unimock::new((Mk::f.next_call(matching!(_)).returns(7u64).once().then().applies_unmocked().n_times({depth}).then().applies_unmocked(), Mk::f.next_call(matching!(0)).returns(90u64)))"
        counts = f"vec![{depth + 2}usize, 1]"
    elif mode in ("partial_carveout", "strict_carveout"):
        # an unquantified applies_unmocked() pattern in front of a broader pattern carves an exception
        # out of it (first match wins), in a partial mock like in a strict one
        ctor = "new_partial" if mode == "partial_carveout" else "new"
        new = f"""Unimock::{ctor}(Mk::f.stub(|each| {{
            each.call(matching!({depth + 1})).applies_unmocked();
            each.call(matching!(_)).returns(7u64);
        }}))"""
        counts = "vec![1usize, 1]"
    else:
        new = "Unimock::new_partial(Mk::f.each_call(matching!(0)).returns(100u64))"
        counts = "vec![1usize]"
    call = f"<Unimock as Tr>::f(&u, {depth})"
    if mode in ("partial_carveout", "strict_carveout"):
        call = f"<Unimock as Tr>::f(&u, {depth + 1})"
    pre = ""
    if mode == "ordered_tail":
        # depth + 1 levels run the real function, the innermost call f(0) is answered with 90
        call = f"<Unimock as Tr>::f(&u, {depth + 1})"
        pre = "if vh::gsupport::block_on(<Unimock as Tr>::f(&u, 200)) != 7 { return Err(\"the first response of the series is the value 7\".into()); }" if asy == "async_fn" else "if <Unimock as Tr>::f(&u, 200) != 7 { return Err(\"the first response of the series is the value 7\".into()); }"
    if asy == "async_fn":
        call = f"vh::gsupport::block_on({call})"
    at = "\n    #[::async_trait::async_trait]" if asy == "async_fn" else ""
    bound = " + Sync" if asy == "async_fn" else ""
    levels = depth + 1 if mode == "ordered_tail" else depth
    base = 90 if mode == "ordered_tail" else 100
    expected_expr = f'(1..={levels}u8).rev().map(|n| format!("target{{n}}")).collect()'
    if mode in ("partial_carveout", "strict_carveout"):
        levels, base = 1, 7
        expected_expr = f'vec!["target{depth + 1}".to_string()]' 
    return f"""    #[unimock(api=Mk, unmock_with=[real_t])]{at}
    pub trait Tr {{
        {a}fn f(&self, n: u8) -> u64;
    }}
    pub {a}fn real_t(u: &(impl Tr{bound}), n: u8) -> u64 {{
        ev(format!("target{{n}}"));
        u.f(n - 1){aw} + 10
    }}
    pub fn run() -> Result<(), String> {{
        let _ = take_events();
        let u = {new};
        {pre}
        let r = {call};
        let events = take_events();
        let expected: Vec<String> = {expected_expr};
        if events != expected {{
            return Err(format!("expected the real function to run once per level {{expected:?}}, events {{events:?}}"));
        }}
        if r != {base} + 10 * {levels}u64 {{
            return Err(format!("result {{r}}, expected {{}}", {base} + 10 * {levels}u64));
        }}
        // the re-entrant calls were evaluated by the same mock: shared counters
        let snap = unimock::verif::snapshot(&u);
        let counts: Vec<usize> = snap.method("Tr::f").map(|m| m.patterns.iter().map(|p| p.count).collect()).unwrap_or_default();
        if counts != {counts} {{
            return Err(format!("pattern counters {{counts:?}}, expected {{:?}}", {counts}));
        }}
        Ok(())
    }}
"""


def shapes(tier):
    out = []
    params = PARAMS if tier != "quick" else [[], ["u8", "str"], ["mut", "u8"]]
    for recv, p, form, asy, mode in itertools.product(RECVS, params, FORMS, ["sync", "async_fn"], ["strict", "partial"]):
        if form in ("reordered", "noself") and len(p) < 1:
            continue
        layouts = [(1, 0), (3, 0), (3, 1), (3, 2)] if tier != "quick" else [(1, 0), (3, 2)]
        if tier != "quick":
            layouts.append((2, 1))
        for n, pos in layouts:
            out.append(dict(recv=recv, params=p, form=form, n=n, pos=pos, asy=asy, mode=mode))
    # `self` followed by the parameters in a permuted order, all of one type (so that the wrong
    # order type-checks as well)
    for recv, p, asy, mode in itertools.product(RECVS, [["u8", "u8"], ["u8", "u8", "u8"], ["str", "str"]], ["sync", "async_fn"], ["strict", "partial"]):
        if tier == "quick" and asy == "async_fn" and recv not in ("ref", "mut"):
            continue
        out.append(dict(recv=recv, params=p, form="selfperm", n=1, pos=0, asy=asy, mode=mode))
    # an argument whose Debug leaves a trace, on calls that reach the real function in every way
    for recv, asy, mode in itertools.product(RECVS, ["sync", "async_fn"], ["strict", "partial", "partial_unmatched"]):
        if tier == "quick" and asy == "async_fn" and recv not in ("ref", "mut"):
            continue
        out.append(dict(recv=recv, params=["u8", "loud"], form="path", n=1, pos=0, asy=asy, mode=mode))
    # provided methods with a registered function, a skipped static function in front, and the
    # mentioned-but-unmatched fall-through of partial mocks
    for recv, p, asy, mode, dflt, static_first in itertools.product(
            RECVS, [["u8"], ["u8", "mut", "str"]], ["sync", "async_fn"], ["strict", "partial", "partial_unmatched"], [False, True], [False, True]):
        if not dflt and not static_first and mode != "partial_unmatched":
            continue
        for form in (["path", "none"] if tier == "quick" else ["path", "explicit", "none"]):
            if form == "none" and mode == "partial_unmatched":
                continue
            if form == "none" and dflt and mode == "partial":
                continue  # unmentioned provided method: the default body runs (covered with form=path)
            out.append(dict(recv=recv, params=p, form=form, n=2, pos=1, asy=asy, mode=mode, dflt=dflt, static_first=static_first))
    # a provided sibling method in the trait (the target itself is a required method)
    for recv, asy, mode, form in itertools.product(RECVS, ["sync", "async_fn"], ["strict", "partial", "partial_unmatched"], ["path", "none"]):
        if form == "none" and mode == "partial_unmatched":
            continue
        if tier == "quick" and asy == "async_fn" and recv not in ("ref", "mut"):
            continue
        out.append(dict(recv=recv, params=["u8"], form=form, n=2, pos=1, asy=asy, mode=mode, sib=True))
    # the error of an unmock without registered function, raised after another (caught) mock error
    for recv in RECVS:
        out.append(dict(recv=recv, params=["u8"], form="none", n=2, pos=1, asy="sync", mode="strict", prior=True))
    # traits without a module api (flattened names, or hidden): the method is named all the same
    for recv, form, api in itertools.product(RECVS, ["none", "path"], ["flat", "hidden"]):
        out.append(dict(recv=recv, params=["u8"], form=form, n=2, pos=1, asy="sync", mode="partial", api=api))
    return out


def run(pid, tier, replay, start):
    rep = glib.Reporter(pid)
    insts = []
    for s in shapes(tier):
        insts.append(Instance(len(insts), key(s), render(len(insts), s), s))
    for depth in range(0, 4):
        for mode in ("strict", "partial", "ordered", "ordered_tail", "partial_carveout", "strict_carveout"):
            for asy in ("sync", "async_fn"):
                k = f"recursion/depth{depth}/{mode}/{asy}"
                insts.append(Instance(len(insts), k, render_recursion(len(insts), depth, mode, asy), {"recv": "ref", "recursion": depth}))
    if replay:
        import json
        want = json.load(open(replay))["case"]["shape"]
        insts = [i for i in insts if i.key == want] or glib.machinery("shape not in this tier")
    crate = glib.Crate("g_c16", features=("std", "pretty-print"), extra_deps='async-trait = "0.1"', prelude=PRELUDE)
    kept, rejected = glib.build_until_green(crate, insts)
    results = crate.run()
    n_ok = 0
    for inst in kept:
        ok, msg = results.get(inst.idx, (False, "no result"))
        if ok:
            n_ok += 1
        else:
            # known-finding keys identify the failing input class: the receiver kind
            rep.violation(f"receiver={inst.meta.get('recv')}", f"shape {inst.key}: {msg}", {"shape": inst.key})
    for k, v in results.items():
        if isinstance(k, tuple):
            rep.violation("generated-program-died", v[1], {"bin": k[1]})
    by_idx = {i.idx: i for i in insts}
    rejected_keys = sorted(by_idx[i].key for i in rejected)
    if len(kept) < 50:
        glib.machinery("vacuous: fewer than 50 accepted shapes")
    sample = kept[len(kept) // 3]
    cov = {
        "evaluations": len(kept),
        "distinct_nontrivial": len(set(i.key for i in kept)),
        "rule": "receiver {&self,&mut self,self,Rc,Arc,Pin} x parameter lists x unmock_with form {path, path(self,..), path(reordered.., self), path(params only), _} x (methods in trait, position) x {sync, async fn} x {strict + applies_unmocked, partial fall-through}; plus recursion depth 0..3 x mode x async; every instance is non-trivial (a call that must resolve to the real function, or must panic for `_`); distinct = distinct shape keys",
        "samples": [{"shape": sample.key, "code": sample.code[:1500]}],
        "exhaustive": True,
        "generated": len(insts),
        "rejected_by_macro_or_compiler": len(rejected),
        "rejected_shapes": rejected_keys[:40],
        "passed": n_ok,
    }
    glib.write_evidence(pid, tier, "exploration", cov, start, rep.violations,
                        ["only shapes the macro and rustc accept are subject to the property",
                         "the first argument handed to the registered function for `Pin<&mut Self>` receivers is `Pin<&mut Unimock>`, for `&mut self` it is `&mut Unimock`"],
                        rep.known_hits)
    return rep.exit_code()

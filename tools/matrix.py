#!/usr/bin/env python3
"""Detection matrix: apply each seeded change to /repo, run checks, undo it, record the outcome.

usage: tools/matrix.py [--tier quick] [--checks own|all|C01,C10] [seed names...]
Results go to seeded/<name>/meta.json ("detected_by") and seeded/MATRIX.json.
"""
import json
import os
import re
import subprocess
import sys
import time

ROOT = os.path.dirname(os.path.dirname(os.path.abspath(__file__)))
REPO = os.environ.get("VERIF_REPO", "/repo")
SEEDS = os.environ.get("VERIF_SEEDS", f"{ROOT}/seeded")
OUT = os.environ.get("VERIF_MATRIX_OUT", f"{SEEDS}/MATRIX.json")
WRITE_META = os.environ.get("VERIF_MATRIX_OUT") is None


def sh(cmd, cwd=None, timeout=7200):
    r = subprocess.run(cmd, cwd=cwd, shell=True, stdout=subprocess.PIPE, stderr=subprocess.STDOUT, text=True, timeout=timeout)
    return r.returncode, r.stdout


def main():
    args = sys.argv[1:]
    tier = "quick"
    which = "own"
    names = []
    i = 0
    while i < len(args):
        if args[i] == "--tier":
            i += 1
            tier = args[i]
        elif args[i] == "--checks":
            i += 1
            which = args[i]
        else:
            names.append(args[i])
        i += 1
    code, out = sh(f"git -C {REPO} status --porcelain --untracked-files=no")
    if out.strip():
        print("/repo is not clean")
        sys.exit(2)
    all_ids = [json.loads(l)["id"] for l in open(f"{ROOT}/properties.jsonl")]
    seeds = sorted(d for d in os.listdir(SEEDS) if os.path.isdir(f"{SEEDS}/{d}"))
    if names:
        seeds = [s for s in seeds if s in names or s.split("-")[0] in names]
    matrix_path = OUT
    matrix = json.load(open(matrix_path)) if os.path.exists(matrix_path) else {}
    for s in seeds:
        meta_path = f"{SEEDS}/{s}/meta.json"
        meta = json.load(open(meta_path))
        own = meta["breaks_property"]
        if which == "own":
            ids = [own]
        elif which == "all":
            ids = all_ids
        else:
            ids = which.split(",")
        code, out = sh(f"git apply {SEEDS}/{s}/patch.diff 2>/dev/null || git apply --3way {SEEDS}/{s}/patch.diff", REPO)
        if code != 0:
            print(s, "patch does not apply:", out[:200])
            sh("git reset -q HEAD -- . ; git checkout -- .", REPO)
            continue
        try:
            for pid in ids:
                t = time.time()
                code, out = sh(f"./check {pid} {tier}", ROOT)
                first = ""
                m = re.search(r"violation detail \[(.*?)\]: (.*)", out)
                if m:
                    first = f"[{m.group(1)}] {m.group(2)[:300]}"
                verdict = {0: "silent", 1: "VIOLATION", 2: "machinery-error"}.get(code, f"exit {code}")
                if code == 2:
                    first = out[-300:]
                meta.setdefault("detected_by", {})[pid] = {"tier": tier, "verdict": verdict, "first": first, "wall_s": round(time.time() - t, 1)}
                matrix.setdefault(s, {})[pid] = verdict
                print(f"{s} x {pid}: {verdict} ({time.time() - t:.0f}s) {first[:120]}", flush=True)
        finally:
            sh("git reset -q HEAD -- . ; git checkout -- . ; git clean -fdq src unimock_macros tests", REPO)
        if WRITE_META:
            json.dump(meta, open(meta_path, "w"), indent=1)
        else:
            detail_path = OUT + ".detail.json"
            detail = json.load(open(detail_path)) if os.path.exists(detail_path) else {}
            detail[s] = meta.get("detected_by", {})
            json.dump(detail, open(detail_path, "w"), indent=1, sort_keys=True)
        json.dump(matrix, open(matrix_path, "w"), indent=1, sort_keys=True)


if __name__ == "__main__":
    main()

#!/bin/sh
# usage: tools/try_patch.sh <patch.diff> <tier> <ID>...   - apply a change to /repo, run checks, undo it
set -u
patch="$1"; tier="$2"; shift 2
cd /repo || exit 2
if [ -n "$(git status --porcelain --untracked-files=no)" ]; then echo "/repo not clean"; exit 2; fi
git apply "$patch" 2>/dev/null || git apply --3way "$patch" || { echo "patch does not apply"; git reset -q HEAD -- . ; git checkout -- . ; exit 2; }
for id in "$@"; do
  echo "=== $id ($tier) with $(basename $(dirname $patch))/$(basename $patch)"
  (cd /verif && ./check "$id" "$tier" 2>&1 | grep -E "VIOLATION|KNOWN-FINDING|MACHINERY|held on|violation detail" | head -6)
  echo "exit=$?"
done
git reset -q HEAD -- . 
git checkout -- . 
git clean -fdq src unimock_macros tests
git status --porcelain --untracked-files=no

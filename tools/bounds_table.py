#!/usr/bin/env python3
"""Render DESIGN.md section 11.2 from saved evidence files.

tools/run_all.sh <tier> copies every evidence file to evidence_snapshots/<tier>/ after the run; this
script turns the two snapshots into one table (between the BOUNDS markers of DESIGN.md)."""
import json
import os

ROOT = os.path.dirname(os.path.dirname(os.path.abspath(__file__)))
BEGIN, END = "<!-- BOUNDS:BEGIN -->", "<!-- BOUNDS:END -->"


def fmt(n):
    if isinstance(n, float):
        n = int(n)
    if not isinstance(n, int):
        return str(n)
    if n >= 10_000_000:
        return f"{n / 1e6:.0f} M"
    if n >= 1_000_000:
        return f"{n / 1e6:.1f} M"
    if n >= 10_000:
        return f"{n / 1e3:.0f} k"
    return f"{n:,}".replace(",", " ")


def cell(doc):
    if doc is None:
        return "-"
    cov = doc["coverage"]
    if doc["level"] == "model_checking":
        s = f"{fmt(cov.get('states', 0))} states, {fmt(cov.get('transitions', 0))} transitions, {fmt(cov.get('traces_validated_against_impl', 0))} executions replayed on the implementation"
    else:
        s = f"{fmt(cov.get('evaluations', 0))} evaluations, {fmt(cov.get('distinct_nontrivial', 0))} distinct non-trivial"
    extra = []
    for k in ("schedules", "sequential_histories", "configurations", "generated", "rejected_by_macro_or_compiler"):
        if k in cov and isinstance(cov[k], (int, float)):
            extra.append(f"{k.replace('_', ' ')} {fmt(cov[k])}")
    if extra:
        s += "; " + ", ".join(extra)
    ex = cov.get("exhaustive")
    if ex is False:
        s += "; **capped** (see evidence)"
    s += f"; {doc.get('wall_s', 0):.0f} s"
    return s


def main():
    rows = ["| id | level | quick | thorough |", "|---|---|---|---|"]
    for k in range(1, 21):
        pid = f"C{k:02d}"
        docs = {}
        for tier in ("quick", "thorough"):
            p = os.path.join(ROOT, "evidence_snapshots", tier, f"{pid}.json")
            docs[tier] = json.load(open(p)) if os.path.exists(p) else None
        level = (docs["quick"] or docs["thorough"] or {}).get("level", "?")
        rows.append(f"| {pid} | {level} | {cell(docs['quick'])} | {cell(docs['thorough'])} |")
    table = "\n".join(rows)
    path = os.path.join(ROOT, "DESIGN.md")
    s = open(path).read()
    a, b = s.index(BEGIN), s.index(END)
    s = s[:a] + f"{BEGIN}\n{table}\n" + s[b:]
    open(path, "w").write(s)
    print(table)


if __name__ == "__main__":
    main()

#!/bin/sh
# usage: tools/run_all.sh <quick|thorough>   - run every registered check, print one line each
tier="${1:-quick}"
cd "$(dirname "$0")/.." || exit 2
for id in C01 C02 C03 C04 C05 C06 C07 C08 C09 C10 C11 C12 C13 C14 C15 C16 C17 C18 C19 C20; do
  s=$(date +%s)
  out=$(./check "$id" "$tier" 2>&1); code=$?
  e=$(date +%s)
  mkdir -p "evidence_snapshots/$tier"; cp "evidence/$id.json" "evidence_snapshots/$tier/$id.json" 2>/dev/null
  echo "$id exit=$code $((e-s))s $(echo "$out" | grep -E "VIOLATION|KNOWN-FINDING|MACHINERY" | head -2 | tr '\n' ' ' | cut -c1-200)"
done

#!/usr/bin/env python3
"""Regenerates /verif/MANIFEST.json from the table below (single source of truth for the interface)."""
import json
import os
import subprocess

ROOT = os.path.dirname(os.path.dirname(os.path.abspath(__file__)))

S_NOTE = ("Oracle = reference model of DESIGN.md 0.1 run in lock-step with the real mock on every explored "
          "transition; trusted base: the model, rustc, std. Not covered: argument values outside {0,1,2}, "
          "bounds beyond those recorded in the evidence file.")
T_NOTE = ("Sequentially consistent interleavings at the scheduling points announced by hook H2 (every atomic "
          "operation and lock acquire/release of the runtime); trusted: std Arc/Mutex, once_cell internals, the "
          "scheduler in harness/vh/src/sched.rs. Weak memory orderings and free-running stress are out of scope.")

G_NOTE = ("Programs are generated from a bounded grammar, compiled against the working tree (hooks on) and check themselves; "
          "trusted: rustc, the generator's expected values. Shapes that the macro or rustc reject are counted, never reported.")

CHECKS = {
    "C01": dict(
        engine="S", category="model_checking", design="3/C01",
        technique="explicit-state bounded exhaustive exploration of the real runtime (all pattern lists x all call histories) in lock-step with a reference model",
        text="Every pattern list over all 8 predicates of a 3-value domain (length <= 2 quick / <= 3 thorough), six clause forms, five contexts, strict and partial, and every call history up to depth 3 (quick) / 5 (thorough) is executed on a fresh real mock; each step's answering pattern, panic class and the match counters of every pattern of every method are compared with the model. Added families: pattern lists of 21-48 clauses spread over several methods (for every k the k-th pattern is the first that accepts), n patterns composed as one real n-tuple for every arity 2..16, and same-named generic methods of two traits in one module. Every clause list is composed through unimock's own tuple impls. Both tiers also run on the no_std+spin-lock build. A hand-written matcher that reports its mismatch through the reporter is placed at every position of every pattern list of length <= 2 (strict and partial): it never influences what later patterns decide.",
        note=S_NOTE),
    "C02": dict(
        engine="S", category="model_checking", design="3/C02",
        technique="bounded exhaustive enumeration of quantifier chains x match counts x call routings on the real runtime, lock-step with a reference model",
        text="All response chains of <= 2 (quick) / <= 3 (thorough) segments over 7 response kinds and all quantifiers incl. zero counts, in the four entry forms, on a method with and without real function / default body; every match count from 0 to past the chain end; every routing of the first 3 (quick) / 6 (thorough) calls over original and clone. Each call's response is compared with the model's segment formula; single-use values must panic on the second request. Ordered chains are also placed behind another ordered clause (slot range not starting at 0). Composite outputs (Option, Result, Vec, Option<Result<&T,E>>, Poll<Result<&T,E>>, (T,&T), String) x six configuration paths x three requests: single-use paths yield once then refuse, repeatable paths yield every time. Both tiers also run on the no_std+spin-lock build.",
        note=S_NOTE),
    "C03": dict(
        engine="S", category="model_checking", design="3/C03",
        technique="bounded exhaustive exploration of clause sets x call histories on the real runtime; verdict line multiset compared with a reference model",
        text="Clause sets of <= 2 (quick) / <= 3 (thorough) patterns in every quantifier form (open, some_call, exact, at-least, exact-then-open/exact/at-least, ordered counts), all histories up to depth 4 / 6; verification by drop after every history and by verify() and Termination::report() once per distinct final state. The multiset of failure lines (pattern name, kind, bound, actual) must equal the model's; silence iff no expectation is unmet. Histories with calls beyond the end of an exactly quantified chain are judged too (their response is unspecified, their count is not); forms include exactly-0, some_call + at_least, answers that park a clone of the mock in the instance; report() is also taken after no_verify_in_drop(). Both tiers also run on the no_std+spin-lock build. Ordered clauses appear with exact counts 0..2, with the implicit once and as chains ending in an unquantified tail. Expectations on methods with a default body / real function / both, and on a trait with the flattened mock api (lines name the method). Two and three ordered patterns of one method with histories of every length (several unmet at once); twelve exactly quantified patterns violated at once.",
        note=S_NOTE + " Line order across methods is unspecified and not compared."),
    "C04": dict(
        engine="S", category="model_checking", design="3/C04",
        technique="explicit-state search over accepted call prefixes of every ordered clause sequence on the real runtime, lock-step with a reference model",
        text="Every sequence of <= 2 (quick) / <= 3 (thorough) ordered clauses over two methods, three predicates, counts 0..3 and response chains inside a slot range, with an unordered clause (open or exactly quantified) at every position; every model-accepted prefix is extended by every possible call; slot ranges after assembly, the response of each accepted call, the panic class and named pattern of each deviating call, the global index and the final verdict are compared. Added families: the disjunctive matcher form (a later alternative must be accepted in order), deviations on methods with a real function in strict and partial mocks, n ordered clauses composed as one real n-tuple for every arity 2..16. Both tiers also run on the no_std+spin-lock build. Cells with arguments whose Debug calls back into the mock: a fully declared sequence made as declared is consumed by the caller's calls only. A fourth predicate is a hand-written disjunctive matcher that reports the alternative it passed over before accepting; count forms include series whose last response is quantified with once().",
        note=S_NOTE + " Behaviour after the first deviating call is unspecified and not explored."),
    "C07": dict(
        engine="S", category="model_checking", design="3/C07",
        technique="exhaustive enumeration of the fall-through decision table x call histories on the real runtime, lock-step with a reference model",
        text="The complete table {strict, partial} x {plain, default body, real fn, both, Termination::report} x {unmentioned, unordered-unmatched (three forms), ordered-unmatched, explicit unmock, explicit default impl} x arguments x positions in histories of depth 3 (quick) / 8 (thorough): the predicted body runs exactly once with the caller's argument (side-effect log), otherwise the predicted panic class; no value is fabricated; counters are unchanged by unmatched calls. Added cells: a trait whose first item is a receiver-less provided fn, &mut self / Pin<&mut Self> methods with and without real function and default body, composite outputs whose single-use response is exhausted (refused, never replaced by an empty variant). Both tiers also run on the no_std+spin-lock build.",
        note=S_NOTE),
    "C10": dict(
        engine="T", category="model_checking", design="3/C10",
        technique="stateless model checking of the real code: controlled scheduler over real threads, depth-first enumeration of all interleavings within a preemption bound",
        text="2-4 real threads making 1-3 calls each on clones or a shared &Unimock in nine scenario families (response chain, overlapping exact patterns, ordered ranges with inner chain, ordered across methods, single-use value, ordered+unordered, slot overrun, answers produced through a reference lent by the shared instance, several refused calls at once). Every schedule with <= 2 preemptions (quick), <= 3 plus unbounded for 2-thread scenarios (thorough) runs to completion; on each: per-pattern position multiset, slot bookkeeping, final counters and verdict equal to some sequential execution of the real mock, every mock-induced panic renders the call of the thread that observed it, no deadlock. Scheduling points are all operations of the instrumented AtomicUsize / Mutex / OnceCell types. Failures are replayed twice before being reported.",
        note=T_NOTE),
    "C08": dict(
        engine="S+T", category="model_checking", design="3/C08",
        technique="bounded exhaustive exploration of call histories over all mock-error kinds x instance/thread routings on the real runtime (lock-step model), plus stateless model checking of concurrent panicking calls under a controlled scheduler",
        text="Sequential: every history of depth 2 (all four routings: original/clone x caught/propagated to a thread boundary), depth 3 (quick: one routing; thorough: all) and depth 4 (thorough, two routings) over 16 calls covering 11 mock-error kinds, 3 user-panic origins and accepted calls; after dropping the clones the original's verification must fail iff the model saw a mock-induced panic and then contain every such panic's text in order; otherwise exactly the expectation lines. Concurrent: 2-3 threads x 1-2 panicking calls on clones, every schedule with <= 2 (quick) / <= 3 (thorough) preemptions: number of recorded errors equals number of mock-induced panics and the verdict text carries each thread's errors in program order. Every error kind is also raised by zero-argument methods. Both tiers repeat the sequential half on the no_std+spin-lock build: errors induced through clones are reported as with std; after a mock-induced panic on the original its verification must be silent (documented). Every history of up to two calls is also verified through Termination::report() (FAILURE iff the other ways fail); in the concurrent half a panic that is neither mock-induced nor raised by user code is a violation. Cells: a mock error raised inside a default body (three receivers x original / clone / worker thread) and error texts from 100 bytes to 12 KiB are carried in full.",
        note=S_NOTE + " " + T_NOTE),
    "C09": dict(
        engine="S", category="model_checking", design="3/C09",
        technique="explicit-state BFS over lifecycle event sequences on the real objects, states merged on the lifecycle model state which is checked against the implementation snapshot after every event",
        text="Events: clone(i), drop(i), call(i), failing call(i), provided-method call(i) (internal helper clone), by-value provided-method call(i), make_ref(i, clone of i), verify(i), report(), report() on a clone, no_verify_in_drop(i), move the original to another thread and drop / verify it; <= 4 instances. Every event's outcome (silent / value / which refusal / failed-with-errors / failed-with-expectations / exit code) must equal the lifecycle model's, and the H3 instance() snapshot (original flag, verify-in-drop flag, live handle count, helper present, lent values) of every live instance must equal the model state. Quick: depth 6; thorough: to the fixpoint - the complete reachable state space within the caps (109,788 states on the pinned tree). Differential probes: every history (up to length 6 / 9) that ends in an already known model state is still extended by every single enabled event, so that implementation state invisible to the snapshot cannot hide behind state merging. Cells: an original created on a thread that has exited, finished by drop / verify() / report() on another thread, is refused.",
        note="Oracle = lifecycle model in harness/vh/src/bin/c09.rs derived from the property statement; states merged up to permutation of clone slots (events are symmetric in clone identity). std build only; when clones are alive and the thread is foreign either refusal is accepted."),
    "C12": dict(
        engine="S+T+G", category="model_checking", design="3/C12",
        technique="bounded exhaustive enumeration of return shapes x configuration paths x request routings with instrumented tokens on the real runtime; stateless model checking of racing requests under a controlled scheduler; exhaustive sweep of builder call chains against rustc",
        text="Instrumented tokens count constructions, clones and drops. Every shape (plain, Option, Result both arms, Result<&T,Tok>, (&T,Tok,Tok), Option/Vec/Poll of Result<&str,Tok>, and Clone twins) x every single-use path (some_call/next_call returns, .once(), .once().then()) and multi-use path (each_call, n_times(1..3), at_least_times, single-use head + multi-use tail) x every routing of 0..3 (quick) / 0..4 (thorough) requests over original and clone: first request gets exactly the configured structure, every later request of a single-use value panics, one clone per multi-use request, nothing dropped before delivery / teardown, everything dropped exactly once. Partial mocks with a real function: an exhausted single-use value refuses, the real function is not called. Race: 2-4 threads requesting one single-use value (plain, tuple with two owned leaves, Vec/Option/Poll/Result composites), all schedules within the preemption bound: exactly one winner, losers panic, one drop. Both tiers also run on the no_std+spin-lock build. A single-use ordered value listed after exactly quantified any-order clauses is delivered to its one request. A repeatable value with a count of zero stays stored until teardown; the type-state sweep covers a third output class (not Clone, configured through Into from a Clone value).",
        note=S_NOTE + " " + T_NOTE + " Duplication of a non-Clone value itself is excluded by the type system (forbid(unsafe_code))."),
    "C13": dict(
        engine="S+T", category="model_checking", design="3/C13",
        technique="bounded exhaustive enumeration of lending operation sequences on the real runtime with instrumented payloads; stateless model checking of concurrent make_ref under a controlled scheduler",
        text="All sequences of length 4 (quick) / 6 (thorough) over {make_ref<P1>, make_ref<P2>, borrowed returns() call, answer using make_ref, provided method lending through the delegation helper, make_mut<P1>, answer using make_mut, &mut provided method} x {original, clone}: after every step every held reference still reads its own intact payload, addresses are pairwise distinct, only what an exclusive operation on the same instance releases has been dropped; at the end everything is dropped exactly once, clone-owned values with the clone. Zero-sized lent values with drop glue. Long chains of 1 024 - 20 000 values lent and released on 64 KiB - 2 MiB stacks, in child processes. Concurrent: 2-3 threads x 1-3 make_ref on one shared &Unimock, all schedules at the operations of the instrumented OnceCell within the bound. Thorough: length 7. Both tiers also run on the no_std+spin-lock build. Instances also end inside a by-value provided method (its body sees nothing dropped but what exclusive operations released) and through Termination::report(). Lent values of type-erased and other unusual types (Box<dyn Any>, nested, in Option, Arc<dyn Any>, Box<u8>, String) read back what was lent, through make_ref and make_mut, on original and clone.",
        note="Trusted: once_cell's synchronisation; the harness keeps raw pointers only to values the property says are still lent. " + T_NOTE),
    "C18": dict(
        engine="S", category="model_checking", design="3/C18",
        technique="exhaustive enumeration of metamorphic relation instances (clause shuffles, call routings, interleaved twin mocks, generic instantiations) with a differential oracle on the real runtime",
        text="(a) two base lists of 6 clauses, every sublist of >= 2 clauses, every admissible shuffle x every history of depth 3 (quick) / 4 (thorough); (b) every history x every assignment of its calls to original / clone 1 / clone 2; (c) every pair of depth-2 histories x every interleaving on two mocks built from the same clauses; (d) every pattern list over two instantiations of a generic method x every call sequence; (e) same-named generic methods of two traits in one module: every subset configured in every clause order x every call pair. Compared with the baseline run: every call's outcome (value or panic text), all counters, ordered index, recorded errors, verdict line multiset. (b) is repeated with no_verify_in_drop() right after construction and an explicit verify() at the end; (e) includes two instantiations of one generic method in different ordering modes. (b) is also run on a partial mock over calls that fall through to real functions and default bodies. Routed runs are repeated with the clones ending on another thread that is not unwinding.",
        note="Pure differential oracle: the baseline run of the real mock is the expected value; no reference model involved."),
    "C05": dict(
        engine="G", category="exploration", design="3/C05",
        technique="exhaustive enumeration of a bounded grammar of trait declarations; every generated program is compiled against the working tree and checks itself",
        text="Receiver {&self,&mut self,self,Rc,Arc,Pin} x parameter lists (all lists of arity <= 2 over 7 kinds incl. &mut, &str, slices, Option<&T>; arity 3..5 with <= 2 deviations) x return {unit, owned, &T} x {sync, async fn, -> impl Future, #[async_trait]} x generics {none, method, trait, impl Trait} x api {module, flattened, hidden}. A recording matcher and an answer function must both see the caller's pairwise-distinct arguments in order, the result returns unchanged (answers and returns paths), &mut writes are visible, a future dropped unpolled evaluates nothing and an awaited one exactly once. Also traits whose first item is a receiver-less provided fn. Quick ~1.3k shapes, thorough ~3.9k.",
        note=G_NOTE),
    "C06": dict(
        engine="G", category="exploration", design="3/C06",
        technique="exhaustive enumeration of a catalogue-driven grammar of matching! invocations, each evaluated on its whole finite argument domain against a native Rust match",
        text="Sub-patterns of 11 argument types (literals, ranges, wildcards, bindings, @-bindings, or-patterns, tuple/struct/enum/Option patterns, slice patterns with rest, string literals against &str/String/AsRef<str> newtype, bare unit variants, eq!/ne!), 1-3 arguments, simple and disjunctive form (2-4 alternatives, every pair over a sub-pattern set with eq!/ne! in all positions), guards incl. || combined with eq!/ne!, mixed literal kinds per position. Every argument tuple of the domain in three modes (unordered strict, unordered with fallback, ordered) must be accepted iff the emitted native match accepts it. Also: guards that read state outside the arguments (arity 0..2, evaluated per call), disjunctions whose alternatives differ only inside a struct / enum / tuple pattern or in their path, three and four alternatives as documented. Bindings named like identifiers of the expansion (a<i>, l<k>, m<i>, reporter, mismatch) next to eq!/ne! and string literals must compile and decide like the native match; eq!/ne! mixed at one position across alternatives. eq!/ne! over a type with an asymmetric == and over a type that is PartialEq<str> and AsRef<str> with different equalities. Guards next to @-bindings they do not mention; ||-guards over disjunctions whose later alternative compares; a guard variable bound by different arguments in different alternatives.",
        note=G_NOTE + " Three genuine defects found by this check were fixed in /repo (guard precedence, three alternatives, bindings capturing temporaries of the expansion)."),
    "C11": dict(
        engine="F", category="fault_enumeration", design="3/C11",
        technique="exhaustive crash-point enumeration: one child process per (panic origin x instance topology x expectation) cell, exit status and panic reports judged by the parent",
        text="23 panic origins (before/after calls, matcher, ordered matcher, answer, real function, default body, a mock error inside a default body, argument Debug, return Clone, every mock-induced error kind, by-value default body, a caught clone error followed by a user panic) x 15 topologies (plain, clone outliving / dying first, clone parked on another thread, Box/Rc/Arc, foreign creator thread with and without clone, origin on a worker thread holding a clone or the original, caught-and-continue, caught-and-repeat-the-same-call, original inside a guard whose Drop calls verify() with and without a live clone) x expectation met/unmet = 569 cells. No child may die by signal; exit status and number of panic reports must be what the cell implies; the first report is the injected panic, none is one of teardown's own sentences; caught cells keep working and verify according to the calls actually matched. As built: 24 origins (also a caught ordered-matcher panic while another thread completed the next ordered call) x 19 topologies (also caught-and-retry, verify() in a guard, lending clone, clone surviving the original, 20 000 lent values unwound on a small stack, a guard using mocks while unwinding), run on the std build and on std + critical-section. The guard topology also makes a valid call whose argument cannot be rendered (its Debug panics).",
        note="std build; a double panic is observed as SIGABRT of the child. The table is enumerated completely in both tiers."),
    "C14": dict(
        engine="G+S", category="exploration", design="3/C14",
        technique="exhaustive enumeration of tuple shapes / offending-clause positions (generated self-checking programs) plus an exhaustive sweep of builder call chains against rustc",
        text="Order: every flat tuple arity 2..16, every nesting tree with <= 5 (quick) / 7 (thorough) leaves, unit elements at every position, every arity nested on either side: slot ranges after assembly are consecutive in declaration order, exactly the left-to-right call order is accepted, the leftmost overlapping unordered clause answers (staggered overlaps check every position), ordered clauses interleaved with exactly quantified unordered ones and ordered clauses with exact counts 0..2 keep their sequence, final verification is silent. Rejection at construction: ordered+unordered clauses of one method at every pair of positions (quick: all pairs for arities 2,3,16; thorough: every arity), both orders, also with an ordered count of 0 or 2; empty stub at every position, also after an earlier mention of the method; single-use returns in the feature set without mutex, alone and inside response chains. Compile time: every valid builder prefix up to length 3 / 5 extended by every builder method and by use-as-clause must be accepted / rejected by rustc exactly as the reference automaton says; 1- and 17-tuples rejected. The construction cells are also run in no_std + spin-lock, where each of them must construct. Composite single-use returns in the no-mutex cells are refused at construction or delivered exactly as configured; nested tuples with 22-48 leaves keep staggered overlapping clauses of two methods in declaration order.",
        note=G_NOTE),
    "C15": dict(
        engine="G", category="exploration", design="3/C15",
        technique="exhaustive enumeration of a bounded grammar of provided-method shapes; generated programs mix direct and delegated calls and compare with the generator's evaluator",
        text="Receiver of the provided method x default body calling 0..3 required methods (plus a by-value required call, plus a lent reference) x signature {(u8), (u8,&str,&mut u32)} x {no clause, applies_default_impl()} x {strict, partial} x {unordered exact counts, one global ordered sequence}. History: direct call, delegated call, direct call, delegated call. The body runs once per call with the caller's arguments, results equal the body evaluated over the mock's answers, all required calls are counted on the shared state (H3), the ordered index advances as for direct calls, final verification is silent. Also: verification by verify() and with an unmet expectation, a by-value receiver travelling through the default body, associated consts / types read by the default body (attribute overrides), a provided method that also has an unmock function. Also: associated types in the signatures of required methods the body calls (Self::T and <Self as Tr>::T), and a trait mocked through mirror= (placeholder bodies; unit and non-unit provided methods, with and without applies_default_impl()). After a delegated call the original still refuses to verify exactly while user-made clones are alive.",
        note=G_NOTE + " Rc/Arc receivers are driven with the caller keeping a second handle."),
    "C16": dict(
        engine="G", category="exploration", design="3/C16",
        technique="exhaustive enumeration of a bounded grammar of unmock_with configurations; generated programs log the real function's invocations",
        text="Receiver x parameter lists x unmock_with form {path, path(self,..), reordered, params only, _} x (methods in trait, position, skipped static fn in front) x {sync, async} x {strict + applies_unmocked, partial fall-through, partial mentioned-but-unmatched} x {required, provided with default body}; recursion depth 0..3 through the mock. The registered function runs exactly once per level with the mock and the caller's arguments in order, result unchanged, re-entrant calls hit the shared counters; `_` panics naming the method; unmentioned provided methods prefer the default body; a provided sibling method in the trait changes nothing for a required method; the error of an unmock without function is about its own call also after another recorded error. Also ordered series whose segments resolve to the real function (n_times(k).then() with an unquantified tail; a value first, then the real function) with recursion through the same mock. unmock_with=[f(self, <permuted parameters of one type>)] passes the listed order; an unquantified applies_unmocked() pattern in front of a broader pattern carves its exception out in strict and partial mocks. An argument whose Debug leaves a trace is passed on every way a call reaches the real function: nothing is rendered.",
        note=G_NOTE + " The genuine defect found here (&mut self / Pin receivers never unmocked) was fixed in /repo."),
    "C17": dict(
        engine="G", category="exploration", design="3/C17",
        technique="exhaustive enumeration of a bounded grammar of return types and their variants; generated programs compare observed and configured values",
        text="Return types over {Option, Result, Vec, Poll, 1-4-tuples} x leaves {u32, non-Clone, &u32, &str, &[u8], &'static u32}, depth <= 2 (quick) / 3 (thorough); every variant and Vec lengths 0..4; single-use path and (if Clone) multi-use path. Observed value structurally equal (Debug with distinct payloads), borrowed leaves at the same addresses on repeated calls, second request panics exactly when the produced variant contains an owned leaf on the single-use path. Response series (n_times(0).then(), once().then(), ordered n_times(2).then(), three segments) over every pair of adjacent values: each call observes the value configured for its position. A return type that the pinned tree accepts and that no longer compiles with the same configurations is a violation.",
        note=G_NOTE),
    "C19": dict(
        engine="G", category="exploration", design="3/C19",
        technique="exhaustive enumeration of parameter-type lists x error kinds and of sub-pattern tuples x failing argument tuples; generated programs compare exact message texts / parsed mismatch entries",
        text="(A) parameter lists over 12 kinds (incl. &, &mut, &&, slices, non-Debug by value and reference, Option<&T>, generics with/without Debug) of arity 1-4 x 9 mock-induced error kinds: exact message predicted (call rendered with arguments in order, '?' without Debug, path only for missing real/default implementation). Post-selection failures (explicit panic, exhausted single-use value, no output) raised by the second pattern of a method name that pattern (by index, or by source text and line). (B) every tuple of 2-3 sub-patterns over {literal, _, or-literals, eq!, ne!} and over Option<u8> sub-patterns incl. refutable bare identifiers x every failing argument tuple of the domain, unordered (1 and 2 patterns), ordered and ordered with a multi-line invocation: the report lists exactly the rejected positions with kind and actual value; ordered messages name the pattern by source text and file:line. Typed positions also cover &str with string-literal or-patterns, char with ranges, and a type whose Debug hides the field == reads (under eq!/ne!): the listed value is the Debug rendering. Wrong-order messages name the pattern in line for every assignment of {first ordered, second ordered, unordered stub} to three methods; with three unordered patterns every entry carries the index of its own pattern. Pattern names with apostrophes, quotes and non-ASCII characters; the missing-implementation message also for a trait mocked without api=.",
        note=G_NOTE + " Built without pretty-print. Messages under concurrency are covered by C10 (each panic renders its own call; sequential-candidate oracle)."),
    "C20": dict(
        engine="S-style", category="exploration", design="3/C20",
        technique="exhaustive enumeration of environment-answer scripts replayed by the mock and by a plain struct implementing the upstream trait (differential), plus the complete entry-point wiring table",
        text="Wiring: all 83 methods of all mirrored traits (core fmt/hash, std error/io, tokio io, futures io, embedded-hal delay/digital/i2c/pwm/spi): a mock with a logging clause on every method; each method called through the upstream trait logs exactly itself. Composition: every script of length <= 3 (quick) / 7 (thorough; embedded-hal drivers <= 4) over chunk sizes {0,1,2,3}, payload chunks, Interrupted, Other through write_all/write_vectored/write!/flush, read_exact/read_to_end/read_to_string/read_vectored, read_until/read_line, rewind/stream_position, Hasher::write_*, format!, DelayNs::delay_us/ms, set_state, toggle, I2c read/write/write_read, SetDutyCycle::*, SpiDevice::*, tokio/futures vectored polls, strict and partial: identical results, buffers and required-method call sequences. Also: the drivers on a clone living on another thread with report() on the original; provided methods that are mocked themselves (matching input: configured response; unmatched input on a strict mock: loud failure; no required-method call either way); 2 000 / 12 000-chunk scripts through read_until on 64 / 256 KiB stacks (child process); Debug and Display of self inside a delegated default body of a user trait; no_verify_in_drop + provided method + verify(); Error::source lending a derived mock. Clause scripts written as one flat tuple of every arity 2..16 and as nested tuples, and a counted any-order clause at every position among ordered steps, driven through write_all. A scripted tail the provided method never asks for leaves an unmet expectation (as the plain struct keeps an unconsumed script entry).",
        note="Differential oracle = plain struct sharing the script function with the mock's answers; features mock-core, mock-std, mock-tokio-1, mock-futures-io-0-3, mock-embedded-hal-1."),
}

NOT_YET = "check not built yet (work in progress; see DESIGN.md section 3)"


def main():
    props = [json.loads(l) for l in open(os.path.join(ROOT, "properties.jsonl"))]
    hooks_commits = subprocess.run(
        ["git", "-C", "/repo", "log", "--format=%h", "--grep", "verification hooks", "-i"],
        capture_output=True, text=True).stdout.split()
    checks = []
    na = []
    for p in props:
        pid = p["id"]
        c = CHECKS.get(pid)
        if not c:
            na.append({"property_id": pid, "reason": NOT_YET})
            continue
        checks.append({
            "property_id": pid,
            "quick_cmd": f"./check {pid} quick",
            "thorough_cmd": f"./check {pid} thorough",
            "evidence_file": f"/verif/evidence/{pid}.json",
            "replay_cmd_template": f"./check {pid} --replay {{path}}",
            "engine": c["engine"],
            "level_claimed": {"category": c["category"], "text": c["text"], "design_ref": c["design"]},
            "level_note": c["note"],
            "technique": c["technique"],
        })
    manifest = {
        "version": 1,
        "setup_cmd": "./setup.sh",
        "hooks": {
            "guard": "unimock_verif",
            "enable": "RUSTFLAGS=\"--cfg unimock_verif\" (set by ./check for every harness build; the harness depends on /repo by path, so every check rebuilds from the working tree)",
            "baseline_off_cmd": "cd /repo && CARGO_TARGET_DIR=/verif/target/repo-off cargo test --workspace --no-fail-fast --offline",
            "source_commits": sorted(set(hooks_commits)),
            "add_only": True,
        },
        "engines": [
            {"name": "S", "path": "harness/vh/src/engine_s.rs", "serves_properties": ["C01", "C02", "C03", "C04", "C07", "C08", "C09", "C12", "C13", "C18"],
             "kind_free_text": "sequential bounded-exhaustive explorer: configurations x histories on fresh real mocks in lock-step with a reference model (harness/vh/src/model.rs)"},
            {"name": "T", "path": "harness/vh/src/sched.rs", "serves_properties": ["C10", "C08", "C12", "C13"],
             "kind_free_text": "controlled scheduler over real OS threads at the hook-announced scheduling points; DFS over schedules with iterative preemption bounding; replayable schedules"},
            {"name": "F", "path": "harness/vh/src/bin/c11.rs", "serves_properties": ["C11"],
             "kind_free_text": "crash-point enumeration: one child process per (panic origin x topology x expectation) cell"},
            {"name": "G", "path": "gen/", "serves_properties": ["C05", "C06", "C12", "C14", "C15", "C16", "C17", "C19", "C20"],
             "kind_free_text": "bounded grammars of programs (traits, patterns, builder chains) enumerated completely up to a bound, compiled against the working tree and self-checking"},
        ],
        "checks": checks,
        "not_applicable": na,
        "notes": "exit codes of ./check: 0 held, 1 VIOLATION line printed, 2 machinery failure (never a verdict). Known findings: /verif/known_findings.json.",
    }
    with open(os.path.join(ROOT, "MANIFEST.json"), "w") as f:
        json.dump(manifest, f, indent=1)
    print(f"{len(checks)} checks, {len(na)} not applicable")


if __name__ == "__main__":
    main()

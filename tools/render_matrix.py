#!/usr/bin/env python3
"""Render seeded/MATRIX.json + meta.json into the table of DESIGN.md section 11.4."""
import json
import os

ROOT = "/verif"
BEGIN, END = "<!-- MATRIX:BEGIN -->", "<!-- MATRIX:END -->"


def main():
    matrix = json.load(open(f"{ROOT}/seeded/MATRIX.json"))
    rows = ["| change | needs, in order to manifest | own check (quick) | also reported by | silent checks tried |", "|---|---|---|---|---|"]
    for name in sorted(matrix):
        meta = json.load(open(f"{ROOT}/seeded/{name}/meta.json"))
        own = meta["breaks_property"]
        res = matrix[name]
        own_v = res.get(own, "not run")
        others = sorted(k for k, v in res.items() if v == "VIOLATION" and k != own)
        silent = sorted(k for k, v in res.items() if v == "silent" and k != own)
        mach = sorted(k for k, v in res.items() if v not in ("VIOLATION", "silent"))
        extra = (" machinery: " + ",".join(mach)) if mach else ""
        silent_txt = ", ".join(silent) if len(silent) <= 6 else f"{len(silent)} other checks"
        rows.append(f"| {name} | {meta.get('needs_to_manifest', '')} | {own}: {own_v} | {', '.join(others) or '-'} | {silent_txt or '-'}{extra} |")
    table = "\n".join(rows)
    path = f"{ROOT}/DESIGN.md"
    s = open(path).read()
    if "@MATRIX@" in s:
        s = s.replace("@MATRIX@", f"{BEGIN}\n{table}\n{END}")
    else:
        a, b = s.index(BEGIN), s.index(END)
        s = s[:a] + f"{BEGIN}\n{table}\n" + s[b:]
    open(path, "w").write(s)
    caught = sum(1 for n in matrix if any(v == "VIOLATION" for v in matrix[n].values()))
    print(f"{caught} of {len(matrix)} seeded changes are reported by at least one check")


if __name__ == "__main__":
    main()

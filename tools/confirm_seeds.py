#!/usr/bin/env python3
"""Confirm sub-agent changes in a scratch worktree of /repo and file them under /verif/seeded/.

For every /tmp/seed/<ID>-out/{A,B}.patch.diff, <ID>-out2/{C,D}, <ID>-out3/{E,F}:
  1. the change applies to /repo's HEAD and compiles,
  2. the repository's own suite still passes with it (127 tests),
  3. the demonstration fails with the change and passes without it.
Only changes for which all of that holds are kept (patch.diff, demo.rs, meta.json).
"""
import json
import os
import re
import shutil
import subprocess
import sys

SEED = "/tmp/seed"
WT = "/tmp/confirm-wt"
TARGET = "/tmp/confirm-target"
OUT = "/verif/seeded"


def sh(cmd, cwd=None, env=None, timeout=1800):
    e = dict(os.environ)
    e["CARGO_NET_OFFLINE"] = "true"
    e["CARGO_TARGET_DIR"] = TARGET
    if env:
        e.update(env)
    r = subprocess.run(cmd, cwd=cwd, env=e, shell=True, stdout=subprocess.PIPE, stderr=subprocess.STDOUT, text=True, timeout=timeout)
    return r.returncode, r.stdout


def suite(cwd):
    code, out = sh("cargo test --workspace --no-fail-fast --offline", cwd)
    passed = sum(int(m) for m in re.findall(r"test result: \w+\. (\d+) passed", out))
    failed = sum(int(m) for m in re.findall(r"test result: \w+\. \d+ passed; (\d+) failed", out))
    return code, passed, failed, out


def demo_features(text):
    head = text.split("\nuse ")[0]
    feats = re.findall(r'feature\s*=\s*"([^"]+)"', head)
    known = ["mock-core", "mock-std", "mock-tokio-1", "mock-futures-io-0-3", "mock-embedded-hal-1", "fragile", "spin-lock"]
    feats = [f for f in feats if f in known] + [f for f in known if f in head]
    return sorted(set(feats))


def run_demo(cwd, feats, cargo_args=None):
    f = f" --features {','.join(feats)}" if feats else ""
    if cargo_args:
        f = " " + cargo_args
    code, out = sh(f"cargo test --offline --test seed_demo{f}", cwd)
    passed = sum(int(m) for m in re.findall(r"test result: \w+\. (\d+) passed", out))
    failed = sum(int(m) for m in re.findall(r"test result: \w+\. \d+ passed; (\d+) failed", out))
    return code, passed, failed, out


def main():
    only = sys.argv[1:]
    if os.path.exists(WT):
        sh(f"git -C /repo worktree remove --force {WT}")
    sh(f"git -C /repo worktree add --detach {WT} HEAD")
    props = {json.loads(l)["id"]: json.loads(l) for l in open("/verif/properties.jsonl")}
    summary = []
    for pid in sorted(props):
        for ab in ("A", "B", "C", "D", "E", "F", "G", "H", "I", "J", "K", "L", "M", "N", "P", "Q", "R", "S", "T", "U", "V", "W"):
            name = f"{pid}-{ab}"
            if only and name not in only and pid not in only:
                continue
            outdir = {"A": "out", "B": "out", "C": "out2", "D": "out2", "E": "out3", "F": "out3", "G": "out4", "H": "out4", "I": "out5", "J": "out5", "K": "out6", "L": "out6", "M": "out7", "N": "out7", "P": "out8", "Q": "out8", "R": "out9", "S": "out9", "T": "out10", "U": "out10", "V": "out11", "W": "out11"}[ab]
            outdir = f"{SEED}/{pid}-{outdir}"
            if os.path.isdir(os.path.join(OUT, name)) and name not in only:
                continue
            patch = f"{outdir}/{ab}.patch.diff"
            demo = f"{outdir}/{ab}_demo.rs"
            if not os.path.exists(patch) or not os.path.exists(demo):
                summary.append((name, "missing files"))
                continue
            sh("git reset -q HEAD -- . ; git checkout -- . && git clean -fdq tests src unimock_macros", WT)
            code, out = sh(f"git apply {patch} 2>/dev/null || git apply --3way {patch}", WT)
            if code != 0:
                summary.append((name, "patch does not apply to HEAD"))
                continue
            code, passed, failed, out = suite(WT)
            if code != 0 or failed or passed != 127:
                summary.append((name, f"suite with change: {passed} passed, {failed} failed (exit {code})"))
                sh("git checkout -- .", WT)
                continue
            text = open(demo).read()
            feats = demo_features(text)
            shutil.copy(demo, os.path.join(WT, "tests", "seed_demo.rs"))
            cargo_args = None
            if os.path.exists(f"{outdir}/{ab}.cargo_args"):
                # a demonstration that only exists in another feature set (stated by its author)
                cargo_args = open(f"{outdir}/{ab}.cargo_args").read().strip()
            c1, p1, f1, o1 = run_demo(WT, feats, cargo_args)
            sh("git reset -q HEAD -- . ; git checkout -- . ; git clean -fdq src unimock_macros", WT)
            c0, p0, f0, o0 = run_demo(WT, feats, cargo_args)
            os.remove(os.path.join(WT, "tests", "seed_demo.rs"))
            ok = (c1 != 0 and (f1 > 0 or "error" in o1)) and (c0 == 0 and f0 == 0 and p0 > 0)
            if not ok:
                summary.append((name, f"demo with change: exit {c1} ({p1} passed/{f1} failed); without: exit {c0} ({p0} passed/{f0} failed)"))
                continue
            d = os.path.join(OUT, name)
            os.makedirs(d, exist_ok=True)
            shutil.copy(patch, os.path.join(d, "patch.diff"))
            shutil.copy(demo, os.path.join(d, "demo.rs"))
            notes = ""
            np = f"{outdir}/NOTES.md"
            if os.path.exists(np):
                notes = open(np).read()
                with open(os.path.join(d, "NOTES.md"), "w") as f:
                    f.write(notes)
            meta = {
                "id": name,
                "breaks_property": pid,
                "property_title": props[pid]["title"],
                "source": "independent sub-agent given only the property text and a scratch worktree",
                "needs_to_manifest": "see NOTES.md (section for change %s)" % ab,
                "demo_features": feats,
                "demo_cargo_args": cargo_args,
                "confirmed": {
                    "base_commit": subprocess.run(["git", "-C", "/repo", "rev-parse", "--short", "HEAD"], capture_output=True, text=True).stdout.strip(),
                    "suite_with_change": f"cargo test --workspace --no-fail-fast --offline: {passed} passed, {failed} failed",
                    "demo_with_change": f"cargo test --test seed_demo: exit {c1}, {p1} passed, {f1} failed",
                    "demo_without_change": f"cargo test --test seed_demo: exit {c0}, {p0} passed, {f0} failed",
                },
                "detected_by": {},
            }
            old = os.path.join(d, "meta.json")
            if os.path.exists(old):
                try:
                    meta["detected_by"] = json.load(open(old)).get("detected_by", {})
                except ValueError:
                    pass
            json.dump(meta, open(old, "w"), indent=1)
            summary.append((name, "confirmed"))
            print(name, "confirmed", flush=True)
    sh(f"git -C /repo worktree remove --force {WT}")
    shutil.rmtree(TARGET, ignore_errors=True)
    for n, s in summary:
        print(f"{n}: {s}")


if __name__ == "__main__":
    main()

#!/usr/bin/env python3
"""Run the detection matrix in N isolated environments in parallel.

Each environment is a scratch git worktree of /repo plus a scratch copy of /verif's working tree
under /tmp/mx/<k>/ (own build output); /repo itself is never touched. Results are merged into
seeded/<name>/meta.json and seeded/MATRIX.json, and the environments are removed afterwards.

usage: tools/matrix_iso.py N [--checks own|all|C01,C10] [--tier quick] [seed names or property ids...]
"""
import json
import os
import shutil
import subprocess
import sys

ROOT = os.path.dirname(os.path.dirname(os.path.abspath(__file__)))
BASE = os.environ.get("VERIF_MX_BASE", "/tmp/mx")


def sh(cmd, **kw):
    return subprocess.run(cmd, shell=True, text=True, stdout=subprocess.PIPE, stderr=subprocess.STDOUT, **kw)


def main():
    n = int(sys.argv[1])
    rest = sys.argv[2:]
    flags, names = [], []
    i = 0
    while i < len(rest):
        if rest[i] in ("--checks", "--tier"):
            flags += rest[i:i + 2]
            i += 2
        else:
            names.append(rest[i])
            i += 1
    seeds = sorted(d for d in os.listdir(f"{ROOT}/seeded") if os.path.isdir(f"{ROOT}/seeded/{d}"))
    if names:
        seeds = [s for s in seeds if s in names or s.split("-")[0] in names]
    jobs_per_env = max(2, (os.cpu_count() or 8) // n)
    procs = []
    for k in range(n):
        mine = seeds[k::n]
        if not mine:
            continue
        env_dir = f"{BASE}/{k}"
        sh(f"git -C /repo worktree remove --force {env_dir}/repo")
        shutil.rmtree(env_dir, ignore_errors=True)
        os.makedirs(env_dir)
        r = sh(f"git -C /repo worktree add --detach {env_dir}/repo HEAD")
        if r.returncode != 0:
            print(r.stdout)
            sys.exit(2)
        sh(f"rsync -a --exclude .git --exclude target --exclude replays --exclude harness/g --exclude gen/out {ROOT}/ {env_dir}/verif/")
        env = dict(os.environ, VERIF_REPO=f"{env_dir}/repo", VERIF_SEEDS=f"{env_dir}/verif/seeded",
                   VERIF_MATRIX_OUT=f"{env_dir}/out.json", VERIF_JOBS=str(jobs_per_env), CARGO_BUILD_JOBS=str(jobs_per_env))
        log = open(f"{env_dir}/log.txt", "w")
        p = subprocess.Popen(["python3", "tools/matrix.py"] + flags + mine, cwd=f"{env_dir}/verif", env=env, stdout=log, stderr=subprocess.STDOUT)
        procs.append((k, p))
        print(f"env {k}: {len(mine)} seeds", flush=True)
    for k, p in procs:
        p.wait()
        print(f"env {k} finished ({p.returncode})", flush=True)
    merge()
    for k, _ in procs:
        sh(f"git -C /repo worktree remove --force {BASE}/{k}/repo")
        shutil.rmtree(f"{BASE}/{k}", ignore_errors=True)


def merge():
    matrix_path = f"{ROOT}/seeded/MATRIX.json"
    matrix = json.load(open(matrix_path)) if os.path.exists(matrix_path) else {}
    for k in sorted(os.listdir(BASE)):
        d = f"{BASE}/{k}/out.json.detail.json"
        if not os.path.exists(d):
            continue
        for seed, det in json.load(open(d)).items():
            meta_path = f"{ROOT}/seeded/{seed}/meta.json"
            meta = json.load(open(meta_path))
            for pid, entry in det.items():
                entry["first"] = entry.get("first", "").replace(f"{BASE}/{k}/verif", "/verif").replace(f"{BASE}/{k}/repo", "/repo")
                meta.setdefault("detected_by", {})[pid] = entry
                matrix.setdefault(seed, {})[pid] = entry["verdict"]
            json.dump(meta, open(meta_path, "w"), indent=1)
    json.dump(matrix, open(matrix_path, "w"), indent=1, sort_keys=True)


if __name__ == "__main__":
    if len(sys.argv) > 1 and sys.argv[1] == "merge":
        merge()
    else:
        main()

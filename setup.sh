#!/bin/sh
# MANIFEST.setup_cmd: build every harness binary offline from files on disk (rebuilds /repo with hooks on).
set -e
cd "$(dirname "$0")"
export CARGO_NET_OFFLINE=true
exec ./check build-all

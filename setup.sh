#!/bin/sh
# MANIFEST.setup_cmd: build every harness binary offline from files on disk (rebuilds /repo with
# hooks on), then pre-build the generated crates of the grammar-based checks so that the quick
# commands only re-link what changed.
set -e
cd "$(dirname "$0")"
export CARGO_NET_OFFLINE=true
./check build-all
for id in C05 C06 C12 C14 C15 C16 C17 C19; do
  ./check "$id" quick >/dev/null 2>&1 || true
done
exit 0
